(** ParamsStatements: the specification vocabulary of C10 (what every parameter is
    called, which value it receives from a call) and the theorem statements.
    Proofs are in ParamsProofs.v (library: ParamsLemmas.v). *)
From LymphModel Require Import Base States Linalg Graph Transition Observation Dist Unilateral Models Params.
Local Open Scope nat_scope.
Local Open Scope string_scope.
Local Open Scope list_scope.

(** * Vocabulary *)
Definition prefix (p : path) (kv : path * Qc) : path * Qc := (p ++ fst kv, snd kv).
(** the items of a sub-dictionary seen from outside: every key gets the prefix [p] *)
Definition pre (p : path) (l : list (path * Qc)) : list (path * Qc) := map (prefix p) l.

(** the binding a Python dict built from the items would hold (the last one wins;
    for a list without duplicate keys this is [kw_get]) *)
Definition kw_last {A} (k : path) (kw : list (path * A)) : option A := kw_get k (rev kw).

Definition head_of (k : path) : string := fst (partition_key k).


(** * The value every parameter receives: keyword, else positional, else current *)
Definition pick (k p : option val) (old : Qc) : val :=
  match k with Some v => v | None => val_or p old end.
(** one new value per parameter of [ps], consuming [a] from the left *)
Fixpoint plan (lk : path -> option val) (ps : list (path * Qc)) (a : args) : list val :=
  match ps with
  | [] => []
  | (k, old) :: r => pick (lk k) (hd_error a) old :: plan lk r (tl a)
  end.
Fixpoint all_unit (l : list val) : option (list Qc) :=
  match l with
  | [] => Some []
  | v :: r => match check_unit v, all_unit r with Some q, Some qs => Some (q :: qs) | _, _ => None end
  end.


Definition edge_params (tri : bool) (e : edge) : list (path * Qc) := items (edge_get_params tri e).


(** the parameters of the selected edges, in order, keyed [edge name; parameter] *)
Definition sel_params (tri : bool) (sel : edge -> bool) (es : list edge) : list (path * Qc) :=
  flat_map (fun e => if sel e then pre [e_name e] (edge_params tri e) else []) es.

Definition dist_local (d : dist) : list (path * Qc) :=
  match d with Frozen _ => [] | Param _ kws => map (fun kv => ([fst kv], snd kv)) kws end.
Definition dists_items (ds : list (string * dist)) : list (path * Qc) :=
  flat_map (fun td => pre [fst td] (dist_local (snd td))) ds.
Fixpoint unwrap (l : list val) : option (list Qc) :=
  match l with
  | [] => Some []
  | V q :: r => option_map (cons q) (unwrap r)
  | Bad :: _ => None
  end.
Definition dist_put (maxt : nat) (d : dist) (new : list val) : option dist :=
  match d with
  | Frozen _ => Some d
  | Param f kws =>
      match unwrap new with
      | None => None
      | Some qs => let kws' := combine (map fst kws) qs in
                   match fam_weights f maxt kws' with None => None | Some _ => Some (Param f kws') end
      end
  end.
Fixpoint dists_put (maxt : nat) (ds : list (string * dist)) (new : list val) : option (list (string * dist)) :=
  match ds with
  | [] => Some []
  | (t, d) :: r =>
      let k := length (dist_local d) in
      match dist_put maxt d (firstn k new), dists_put maxt r (skipn k new) with
      | Some d', Some r' => Some ((t, d') :: r')
      | _, _ => None
      end
  end.


Definition dist_keys_ok (ds : list (string * dist)) : bool :=
  forallb (fun td => match snd td with Param _ kws => nodupb (map fst kws) | Frozen _ => true end) ds.

(** * Well-formedness (boolean, computed on real objects) *)
(** words the composite models use as prefixes / global names; a component
    (edge, T-stage) must not be called like that (DESIGN.md section 6) *)
Definition reserved : list string :=
  ["ipsi"; "contra"; "ext"; "noext"; "central"; "unknown"; "mixing"; "midext"; "prob";
   "spread"; "growth"; "micro"; "hpv"; "nohpv"; "HPV"; "noHPV"; ""].
Definition u_edges (u : uni) : list edge := g_edges (u_graph u).
Definition u_edge_names (u : uni) : list string := map e_name (u_edges u).
Definition u_tstages (u : uni) : list string := map fst (u_dists u).
Definition dist_kw_names (ds : list (string * dist)) : list string :=
  flat_map (fun td => match snd td with Param _ kws => map fst kws | Frozen _ => [] end) ds.
(** names: edges, T-stages and reserved words pairwise different; the keywords of
    one distribution pairwise different and no keyword is called like a T-stage *)
Definition u_names_ok (u : uni) : bool :=
  nodupb (u_edge_names u ++ u_tstages u ++ reserved)
  && dist_keys_ok (u_dists u)
  && forallb (fun k => negb (mem k (u_tstages u))) (dist_kw_names (u_dists u)).
(** values: what the setters guarantee of every object they have touched *)
Definition dist_valid (maxt : nat) (d : dist) : bool :=
  match d with Frozen _ => true | Param f kws => match fam_weights f maxt kws with Some _ => true | None => false end end.
Definition u_vals_ok (u : uni) : bool :=
  forallb (fun e => in_unit (e_spread e) && in_unit (e_micro e)) (u_edges u)
  && forallb (fun td => dist_valid (u_maxt u) (snd td)) (u_dists u).
Definition u_wf (u : uni) : bool := u_names_ok u && u_vals_ok u.

(** * Unilateral: names, order, and the value every parameter receives *)
Definition u_tumor_items (u : uni) : list (path * Qc) := sel_params (u_tri u) is_tumor_spread (u_edges u).
Definition u_lnl_items (u : uni) : list (path * Qc) := sel_params (u_tri u) sel_lnl (u_edges u).
Definition u_dist_items (u : uni) : list (path * Qc) := dists_items (u_dists u).
(** documented order: tumour arcs, LNL arcs (growth, spread, micro), distributions *)
Definition u_items (u : uni) : list (path * Qc) := u_tumor_items u ++ u_lnl_items u ++ u_dist_items u.
Definition u_names (u : uni) : list path := map fst (u_items u).
Definition u_num_spread (u : uni) : nat := length (u_tumor_items u ++ u_lnl_items u).

(** the keyword that reaches parameter [k] = object :: rest: the specific name
    "object_rest", else the global name "rest" *)
Definition u_lk (kw : kwargs) (k : path) : option val :=
  match k with
  | [] => None
  | _ :: t => match kw_last k kw with Some v => Some v | None => kw_last t kw end
  end.
(** the value every parameter receives from [set_params( *a, **kw)] *)
Definition u_new (u : uni) (a : args) (kw : kwargs) : list val := plan (u_lk kw) (u_items u) a.
Definition is_some {A} (o : option A) : bool := match o with Some _ => true | None => false end.
(** spread values pass the range check and every distribution accepts its keywords *)
Definition u_accepts (u : uni) (new : list val) : bool :=
  is_some (all_unit (firstn (u_num_spread u) new))
  && is_some (dists_put (u_maxt u) (u_dists u) (skipn (u_num_spread u) new)).

Definition u_result (u : uni) (a : args) (kw : kwargs) : uni * option args := u_set_params u a kw.
Definition u_got (u : uni) : list (path * Qc) := items (u_get_params u true).
Definition own_kwargs (l : list (path * Qc)) : kwargs := map (fun kv => (fst kv, V (snd kv))) l.

(** get_params reports exactly the documented list, each name once *)
Definition C10_uni_names_nodup_stmt : Prop :=
  forall u, u_names_ok u = true -> u_got u = u_items u /\ NoDup (u_names u).
(** the complete description of set_params: it raises iff some new value is not
    acceptable; otherwise it returns the unused positional values and afterwards
    get_params reports the new values under the same names in the same order *)
Definition C10_uni_set_spec_stmt : Prop :=
  forall u a kw, u_names_ok u = true ->
    let r := u_set_params u a kw in
    if u_accepts u (u_new u a kw)
    then exists qs, u_new u a kw = vals qs /\ snd r = Some (skipn (length (u_items u)) a)
                    /\ u_got (fst r) = combine (u_names u) qs
                    /\ u_names_ok (fst r) = true /\ (u_vals_ok u = true -> u_vals_ok (fst r) = true)
    else snd r = None.
(** positional round trip incl. the surplus: for EVERY v of the right length that the
    call accepts (no range restriction: 0 and 1 included) *)
Definition C10_uni_set_get_positional_stmt : Prop :=
  forall u v rest, u_names_ok u = true -> length v = length (u_items u) ->
    let r := u_set_params u (vals v ++ rest) [] in
    snd r <> None -> snd r = Some rest /\ map snd (u_got (fst r)) = v /\ map fst (u_got (fst r)) = u_names u.
(** every vector in [0,1]^n is accepted when the parametric families are binomial *)
Definition C10_uni_unit_vectors_accepted_stmt : Prop :=
  forall u v rest, u_names_ok u = true -> length v = length (u_items u) -> forallb in_unit v = true ->
    forallb (fun td => match snd td with Param f _ => Nat.eqb f 0 | Frozen _ => true end) (u_dists u) = true ->
    snd (u_set_params u (vals v ++ rest) []) <> None /\ snd (u_set_params u [] (kw_of (u_names u) v)) <> None.
(** keyword round trip *)
Definition C10_uni_set_get_keyword_stmt : Prop :=
  forall u v, u_names_ok u = true -> length v = length (u_items u) ->
    let r := u_set_params u [] (kw_of (u_names u) v) in
    snd r <> None -> snd r = Some [] /\ map snd (u_got (fst r)) = v /\ map fst (u_got (fst r)) = u_names u.
(** set_params( **get_params()) changes nothing at all *)
Definition C10_uni_set_own_params_is_identity_stmt : Prop :=
  forall u, u_wf u = true -> u_set_params u [] (own_kwargs (u_got u)) = (u, Some []).
(** a keyword beats the positional value, whatever the positional arguments are;
    the same statement says that the specific name beats a global one *)
Definition C10_uni_keyword_over_positional_stmt : Prop :=
  forall u a kw k q, u_names_ok u = true -> In k (u_names u) -> kw_last k kw = Some (V q) ->
    let r := u_set_params u a kw in snd r <> None -> kw_get k (u_got (fst r)) = Some q.
(** a global name ("spread", "growth", "micro", a distribution keyword) reaches every
    parameter of that kind that has no specific keyword *)
Definition C10_uni_specific_over_global_stmt : Prop :=
  forall u a kw o t q, u_names_ok u = true -> In (o :: t) (u_names u) ->
    kw_last (o :: t) kw = None -> kw_last t kw = Some (V q) ->
    let r := u_set_params u a kw in snd r <> None -> kw_get (o :: t) (u_got (fst r)) = Some q.
(** keywords that name no parameter (neither specifically nor globally) change nothing *)
Definition C10_uni_unknown_names_ignored_stmt : Prop :=
  forall u a kw, u_names_ok u = true -> (forall k, In k (u_names u) -> u_lk kw k = None) ->
    u_set_params u a kw = u_set_params u a [].
(** the nested form flattens to the flat form *)
Definition C10_uni_nested_flattens_to_flat_stmt : Prop :=
  forall u, u_names_ok u = true -> flat_items_dict (u_get_params u false) = u_got u.
