(** ParamsStatements: the specification vocabulary of C10 (what every parameter is
    called, which value it receives from a call) and the theorem statements.
    Proofs are in ParamsProofs.v (library: ParamsLemmas.v). *)
From LymphModel Require Import Base States Linalg Graph Transition Observation Dist Unilateral Models Params.
Local Open Scope nat_scope.
Local Open Scope string_scope.
Local Open Scope list_scope.

(** * Vocabulary *)
Definition prefix (p : path) (kv : path * Qc) : path * Qc := (p ++ fst kv, snd kv).
(** the items of a sub-dictionary seen from outside: every key gets the prefix [p] *)
Definition pre (p : path) (l : list (path * Qc)) : list (path * Qc) := map (prefix p) l.

(** the binding a Python dict built from the items would hold (the last one wins;
    for a list without duplicate keys this is [kw_get]) *)
Definition kw_last {A} (k : path) (kw : list (path * A)) : option A := kw_get k (rev kw).

Definition head_of (k : path) : string := fst (partition_key k).


(** the keyword an object called [name] receives for its own parameter [t]:
    specific "name_t" first, else the global "t" (unless the first component of
    "t" is itself the name of an object of the collection) *)
Definition eff (expected : list string) (kw : kwargs) (name : string) (t : path) : option val :=
  match kw_last (name :: t) kw with
  | Some v => Some v
  | None => if mem (head_of t) expected then None else kw_last t kw
  end.

(** * The value every parameter receives: keyword, else positional, else current *)
Definition pick (k p : option val) (old : Qc) : val :=
  match k with Some v => v | None => val_or p old end.
(** one new value per parameter of [ps], consuming [a] from the left *)
Fixpoint plan (lk : path -> option val) (ps : list (path * Qc)) (a : args) : list val :=
  match ps with
  | [] => []
  | (k, old) :: r => pick (lk k) (hd_error a) old :: plan lk r (tl a)
  end.
Fixpoint all_unit (l : list val) : option (list Qc) :=
  match l with
  | [] => Some []
  | v :: r => match check_unit v, all_unit r with Some q, Some qs => Some (q :: qs) | _, _ => None end
  end.


Definition edge_params (tri : bool) (e : edge) : list (path * Qc) := items (edge_get_params tri e).


(** the parameters of the selected edges, in order, keyed [edge name; parameter] *)
Definition sel_params (tri : bool) (sel : edge -> bool) (es : list edge) : list (path * Qc) :=
  flat_map (fun e => if sel e then pre [e_name e] (edge_params tri e) else []) es.

Definition dist_local (d : dist) : list (path * Qc) :=
  match d with Frozen _ => [] | Param _ kws => map (fun kv => ([fst kv], snd kv)) kws end.
Definition dists_items (ds : list (string * dist)) : list (path * Qc) :=
  flat_map (fun td => pre [fst td] (dist_local (snd td))) ds.
Fixpoint unwrap (l : list val) : option (list Qc) :=
  match l with
  | [] => Some []
  | V q :: r => option_map (cons q) (unwrap r)
  | Bad :: _ => None
  end.
Definition dist_put (maxt : nat) (d : dist) (new : list val) : option dist :=
  match d with
  | Frozen _ => Some d
  | Param f kws =>
      match unwrap new with
      | None => None
      | Some qs => let kws' := combine (map fst kws) qs in
                   match fam_weights f maxt kws' with None => None | Some _ => Some (Param f kws') end
      end
  end.
Fixpoint dists_put (maxt : nat) (ds : list (string * dist)) (new : list val) : option (list (string * dist)) :=
  match ds with
  | [] => Some []
  | (t, d) :: r =>
      let k := length (dist_local d) in
      match dist_put maxt d (firstn k new), dists_put maxt r (skipn k new) with
      | Some d', Some r' => Some ((t, d') :: r')
      | _, _ => None
      end
  end.


Definition dist_keys_ok (ds : list (string * dist)) : bool :=
  forallb (fun td => match snd td with Param _ kws => nodupb (map fst kws) | Frozen _ => true end) ds.

(** * Well-formedness (boolean, computed on real objects) *)
(** words the composite models use as prefixes / global names; a component
    (edge, T-stage) must not be called like that (DESIGN.md section 6) *)
Definition reserved : list string :=
  ["ipsi"; "contra"; "ext"; "noext"; "central"; "unknown"; "mixing"; "midext"; "prob";
   "spread"; "growth"; "micro"; "hpv"; "nohpv"; "HPV"; "noHPV"; ""].
Definition u_edges (u : uni) : list edge := g_edges (u_graph u).
Definition u_edge_names (u : uni) : list string := map e_name (u_edges u).
Definition u_tstages (u : uni) : list string := map fst (u_dists u).
Definition dist_kw_names (ds : list (string * dist)) : list string :=
  flat_map (fun td => match snd td with Param _ kws => map fst kws | Frozen _ => [] end) ds.
(** names: edges, T-stages and reserved words pairwise different; the keywords of
    one distribution pairwise different and no keyword is called like a T-stage *)
Definition u_names_ok (u : uni) : bool :=
  nodupb (u_edge_names u ++ u_tstages u ++ reserved)
  && dist_keys_ok (u_dists u)
  && forallb (fun k => negb (mem k (u_tstages u))) (dist_kw_names (u_dists u)).
(** values: what the setters guarantee of every object they have touched *)
Definition dist_valid (maxt : nat) (d : dist) : bool :=
  match d with Frozen _ => true | Param f kws => match fam_weights f maxt kws with Some _ => true | None => false end end.
Definition u_vals_ok (u : uni) : bool :=
  forallb (fun e => in_unit (e_spread e) && in_unit (e_micro e)) (u_edges u)
  && forallb (fun td => dist_valid (u_maxt u) (snd td)) (u_dists u).
Definition u_wf (u : uni) : bool := u_names_ok u && u_vals_ok u.

(** * Unilateral: names, order, and the value every parameter receives *)
Definition u_tumor_items (u : uni) : list (path * Qc) := sel_params (u_tri u) is_tumor_spread (u_edges u).
Definition u_lnl_items (u : uni) : list (path * Qc) := sel_params (u_tri u) sel_lnl (u_edges u).
Definition u_dist_items (u : uni) : list (path * Qc) := dists_items (u_dists u).
(** documented order: tumour arcs, LNL arcs (growth, spread, micro), distributions *)
Definition u_items (u : uni) : list (path * Qc) := u_tumor_items u ++ u_lnl_items u ++ u_dist_items u.
Definition u_names (u : uni) : list path := map fst (u_items u).
Definition u_num_spread (u : uni) : nat := length (u_tumor_items u ++ u_lnl_items u).

(** the keyword that reaches parameter [k] = object :: rest: the specific name
    "object_rest", else the global name "rest" *)
Definition u_lk (kw : kwargs) (k : path) : option val :=
  match k with
  | [] => None
  | _ :: t => match kw_last k kw with Some v => Some v | None => kw_last t kw end
  end.
(** the value every parameter receives from [set_params( *a, **kw)] *)
Definition u_new (u : uni) (a : args) (kw : kwargs) : list val := plan (u_lk kw) (u_items u) a.
Definition is_some {A} (o : option A) : bool := match o with Some _ => true | None => false end.
(** spread values pass the range check and every distribution accepts its keywords *)
Definition u_accepts (u : uni) (new : list val) : bool :=
  is_some (all_unit (firstn (u_num_spread u) new))
  && is_some (dists_put (u_maxt u) (u_dists u) (skipn (u_num_spread u) new)).

Definition u_result (u : uni) (a : args) (kw : kwargs) : uni * option args := u_set_params u a kw.
Definition u_got (u : uni) : list (path * Qc) := items (u_get_params u true).
Definition own_kwargs (l : list (path * Qc)) : kwargs := map (fun kv => (fst kv, V (snd kv))) l.

(** get_params reports exactly the documented list, each name once *)
Definition C10_uni_names_nodup_stmt : Prop :=
  forall u, u_names_ok u = true -> u_got u = u_items u /\ NoDup (u_names u).
(** the complete description of set_params: it raises iff some new value is not
    acceptable; otherwise it returns the unused positional values and afterwards
    get_params reports the new values under the same names in the same order *)
Definition C10_uni_set_spec_stmt : Prop :=
  forall u a kw, u_names_ok u = true ->
    let r := u_set_params u a kw in
    if u_accepts u (u_new u a kw)
    then exists qs, u_new u a kw = vals qs /\ snd r = Some (skipn (length (u_items u)) a)
                    /\ u_got (fst r) = combine (u_names u) qs
                    /\ u_names_ok (fst r) = true /\ (u_vals_ok u = true -> u_vals_ok (fst r) = true)
    else snd r = None.
(** positional round trip incl. the surplus: for EVERY v of the right length that the
    call accepts (no range restriction: 0 and 1 included) *)
Definition C10_uni_set_get_positional_stmt : Prop :=
  forall u v rest, u_names_ok u = true -> length v = length (u_items u) ->
    let r := u_set_params u (vals v ++ rest) [] in
    snd r <> None -> snd r = Some rest /\ map snd (u_got (fst r)) = v /\ map fst (u_got (fst r)) = u_names u.
(** every vector in [0,1]^n is accepted when the parametric families are binomial *)
Definition C10_uni_unit_vectors_accepted_stmt : Prop :=
  forall u v rest, u_names_ok u = true -> length v = length (u_items u) -> forallb in_unit v = true ->
    forallb (fun td => match snd td with Param f _ => Nat.eqb f 0 | Frozen _ => true end) (u_dists u) = true ->
    snd (u_set_params u (vals v ++ rest) []) <> None /\ snd (u_set_params u [] (kw_of (u_names u) v)) <> None.
(** keyword round trip *)
Definition C10_uni_set_get_keyword_stmt : Prop :=
  forall u v, u_names_ok u = true -> length v = length (u_items u) ->
    let r := u_set_params u [] (kw_of (u_names u) v) in
    snd r <> None -> snd r = Some [] /\ map snd (u_got (fst r)) = v /\ map fst (u_got (fst r)) = u_names u.
(** set_params( **get_params()) changes nothing at all *)
Definition C10_uni_set_own_params_is_identity_stmt : Prop :=
  forall u, u_wf u = true -> u_set_params u [] (own_kwargs (u_got u)) = (u, Some []).
(** a keyword beats the positional value, whatever the positional arguments are;
    the same statement says that the specific name beats a global one *)
Definition C10_uni_keyword_over_positional_stmt : Prop :=
  forall u a kw k q, u_names_ok u = true -> In k (u_names u) -> kw_last k kw = Some (V q) ->
    let r := u_set_params u a kw in snd r <> None -> kw_get k (u_got (fst r)) = Some q.
(** a global name ("spread", "growth", "micro", a distribution keyword) reaches every
    parameter of that kind that has no specific keyword *)
Definition C10_uni_specific_over_global_stmt : Prop :=
  forall u a kw o t q, u_names_ok u = true -> In (o :: t) (u_names u) ->
    kw_last (o :: t) kw = None -> kw_last t kw = Some (V q) ->
    let r := u_set_params u a kw in snd r <> None -> kw_get (o :: t) (u_got (fst r)) = Some q.
(** keywords that name no parameter (neither specifically nor globally) change nothing *)
Definition C10_uni_unknown_names_ignored_stmt : Prop :=
  forall u a kw, u_names_ok u = true -> (forall k, In k (u_names u) -> u_lk kw k = None) ->
    u_set_params u a kw = u_set_params u a [].
(** the nested form flattens to the flat form *)
Definition C10_uni_nested_flattens_to_flat_stmt : Prop :=
  forall u, u_names_ok u = true -> flat_items_dict (u_get_params u false) = u_got u.

(** * Bilateral *)
Definition b_got (b : bilateral) : list (path * Qc) := items (b_get_params b true).
(** both sides come from the same graph dictionary and the same distributions *)
Fixpoint shape_eqb (es1 es2 : list edge) : bool :=
  match es1, es2 with
  | [], [] => true
  | e1 :: r1, e2 :: r2 => String.eqb (e_name e1) (e_name e2) && Nat.eqb (kind_tag (e_kind e1)) (kind_tag (e_kind e2))
                          && shape_eqb r1 r2
  | _, _ => false
  end.
Definition same_shape (u1 u2 : uni) : bool :=
  Nat.eqb (g_base (u_graph u1)) (g_base (u_graph u2)) && shape_eqb (u_edges u1) (u_edges u2).
Fixpoint keys_eqb (k1 k2 : list path) : bool :=
  match k1, k2 with
  | [], [] => true
  | a :: r1, b :: r2 => path_eqb a b && keys_eqb r1 r2
  | _, _ => false
  end.
(** ... and set_distribution gave both sides distributions with the same parameters *)
Definition same_dist_keys (u1 u2 : uni) : bool := keys_eqb (map fst (dists_items (u_dists u1))) (map fst (dists_items (u_dists u2))).
Definition b_names_ok (b : bilateral) : bool :=
  u_names_ok (b_ipsi b) && u_names_ok (b_contra b) && same_shape (b_ipsi b) (b_contra b)
  && same_dist_keys (b_ipsi b) (b_contra b).
Definition b_vals_ok (b : bilateral) : bool := u_vals_ok (b_ipsi b) && u_vals_ok (b_contra b).
Definition b_wf (b : bilateral) : bool := b_names_ok b && b_vals_ok b.
(** the documented list, per symmetry setting (what get_params reports) *)
Definition b_items (b : bilateral) : list (path * Qc) :=
  let i := b_ipsi b in let c := b_contra b in
  match b_symT b, b_symL b with
  | true, true => u_tumor_items i ++ u_lnl_items i ++ u_dist_items i
  | true, false => u_tumor_items i ++ pre ["ipsi"] (u_lnl_items i) ++ pre ["contra"] (u_lnl_items c) ++ u_dist_items i
  | false, true => pre ["ipsi"] (u_tumor_items i) ++ pre ["contra"] (u_tumor_items c) ++ u_lnl_items i ++ u_dist_items i
  | false, false => pre ["ipsi"] (u_tumor_items i ++ u_lnl_items i) ++ pre ["contra"] (u_tumor_items c ++ u_lnl_items c)
                    ++ u_dist_items i
  end.
(** the order in which positional values are consumed *)
Definition b_set_order (b : bilateral) : list (path * Qc) :=
  let i := b_ipsi b in let c := b_contra b in
  match b_symT b, b_symL b with
  | false, false => pre ["ipsi"] (u_tumor_items i) ++ pre ["contra"] (u_tumor_items c) ++ pre ["ipsi"] (u_lnl_items i)
                    ++ pre ["contra"] (u_lnl_items c) ++ u_dist_items i
  | _, _ => b_items b
  end.

(** * Midline, HPV *)
Definition m_got (m : midline) : option (list (path * Qc)) := option_map items (m_get_params m true).
Definition h_got (h : hpvmodel) : option (list (path * Qc)) := option_map items (h_get_params h true).

(** * Known findings, stated as refutations with concrete witnesses *)
(** D6: with tumor AND LNL spread asymmetric, set_params( *v) followed by
    get_params(as_dict=False) does not return v although every value is valid *)
Definition C10_positional_order_refuted_stmt : Prop :=
  exists (b : bilateral) (v : list Qc),
    b_wf b = true /\ b_symT b = false /\ b_symL b = false /\ length v = length (b_got b) /\ forallb in_unit v = true /\
    snd (b_set_params b (vals v) []) = Some [] /\
    map snd (b_got (fst (b_set_params b (vals v) []))) <> v /\
    (* ... and what it returns instead is v read in the order in which the setter consumes *)
    map snd (b_got (fst (b_set_params b (vals v) []))) = [nth 0 v 0%Qc; nth 1 v 0%Qc; nth 4 v 0%Qc; nth 2 v 0%Qc; nth 3 v 0%Qc; nth 5 v 0%Qc].
Definition C10_midline_positional_order_refuted_stmt : Prop :=
  exists (m : midline) (v : list Qc),
    ml_symL m = false /\ option_map (@length _) (m_got m) = Some (length v) /\ forallb in_unit v = true /\
    snd (m_set_params m (vals v) []) = Some [] /\
    option_map (map snd) (m_got (fst (m_set_params m (vals v) []))) <> Some v.
(** D8: HPVUnilateral: neither the keyword nor the positional round trip holds *)
Definition C10_hpv_roundtrip_refuted_stmt : Prop :=
  exists (h : hpvmodel) (names : list path) (v : list Qc),
    option_map (map fst) (h_got h) = Some names /\ length v = length names /\ forallb in_unit v = true /\
    snd (h_set_params h [] (kw_of names v)) = Some [] /\
    option_map (map snd) (h_got (fst (h_set_params h [] (kw_of names v)))) <> Some v /\
    snd (h_set_params h (vals v) []) = Some [] /\
    option_map (map snd) (h_got (fst (h_set_params h (vals v) []))) <> Some v.

(** * Bilateral: the value every parameter receives *)
Definition sides : list string := ["ipsi"; "contra"].
(** the keyword that reaches parameter [k] = object :: rest of the unilateral model on
    side [side]; priority: "side_object_rest", "object_rest", "side_rest", "rest" *)
Definition side_lk (side : string) (kw : kwargs) (k : path) : option val :=
  match k with
  | [] => None
  | _ :: t => match eff sides kw side k with Some v => Some v | None => eff sides kw side t end
  end.
(** ... of a parameter as get_params reports it *)
Definition b_lk (kw : kwargs) (k : path) : option val :=
  match k with
  | [] => None
  | h :: t => if String.eqb h "ipsi" then side_lk "ipsi" kw t
              else if String.eqb h "contra" then side_lk "contra" kw t
              else side_lk "ipsi" kw k
  end.
Definition b_num_spread (b : bilateral) : nat := length (b_items b) - length (u_dist_items (b_ipsi b)).
Definition b_new (b : bilateral) (a : args) (kw : kwargs) : list val := plan (b_lk kw) (b_set_order b) a.
(** spread values in range; the distributions of BOTH sides accept (the contralateral
    ones receive the same positional values but are not reported) *)
Definition b_accepts (b : bilateral) (a : args) (kw : kwargs) : bool :=
  let new := b_new b a kw in
  is_some (all_unit (firstn (b_num_spread b) new))
  && is_some (dists_put (u_maxt (b_ipsi b)) (u_dists (b_ipsi b)) (skipn (b_num_spread b) new))
  && is_some (dists_put (u_maxt (b_contra b)) (u_dists (b_contra b))
                (plan (side_lk "contra" kw) (u_dist_items (b_contra b)) (skipn (b_num_spread b) a))).

Definition C10_bi_names_nodup_stmt : Prop :=
  forall b, b_names_ok b = true -> b_got b = b_items b /\ NoDup (map fst (b_items b)).
Definition C10_bi_nested_flattens_to_flat_stmt : Prop :=
  forall b, b_names_ok b = true -> flat_items_dict (b_get_params b false) = b_got b.
(** complete description of Bilateral.set_params in all four symmetry settings: the
    i-th value of the plan goes to the i-th name of [b_set_order] *)
Definition C10_bi_set_spec_stmt : Prop :=
  forall b a kw, b_names_ok b = true ->
    let r := b_set_params b a kw in
    if b_accepts b a kw
    then exists qs, b_new b a kw = vals qs /\ snd r = Some (skipn (length (b_items b)) a)
                    /\ map fst (b_got (fst r)) = map fst (b_items b)
                    /\ (forall k q, In (k, q) (combine (map fst (b_set_order b)) qs) -> kw_get k (b_got (fst r)) = Some q)
                    /\ b_names_ok (fst r) = true
    else snd r = None.
(** positional round trip in the three settings in which the orders agree *)
Definition C10_bi_set_get_positional_stmt : Prop :=
  forall b v rest, b_names_ok b = true -> (b_symT b || b_symL b) = true -> length v = length (b_items b) ->
    let r := b_set_params b (vals v ++ rest) [] in
    snd r <> None -> snd r = Some rest /\ map snd (b_got (fst r)) = v /\ map fst (b_got (fst r)) = map fst (b_items b).
(** keyword round trip in all four settings *)
Definition C10_bi_set_get_keyword_stmt : Prop :=
  forall b v, b_names_ok b = true -> length v = length (b_items b) ->
    let r := b_set_params b [] (kw_of (map fst (b_items b)) v) in
    snd r <> None -> snd r = Some [] /\ map snd (b_got (fst r)) = v /\ map fst (b_got (fst r)) = map fst (b_items b).
(** a keyword naming a reported parameter beats positional values and global names *)
Definition C10_bi_keyword_over_positional_stmt : Prop :=
  forall b a kw k q, b_names_ok b = true -> In k (map fst (b_items b)) -> b_lk kw k = Some (V q) ->
    let r := b_set_params b a kw in snd r <> None -> kw_get k (b_got (fst r)) = Some q.

(** * Midline: names and order *)
Definition ml_ei (m : midline) : uni := b_ipsi (ml_ext m).
Definition ml_ec (m : midline) : uni := b_contra (ml_ext m).
Definition ml_ni (m : midline) : uni := b_ipsi (ml_noext m).
Definition ml_nc (m : midline) : uni := b_contra (ml_noext m).
Definition m_mixing_item (m : midline) : list (path * Qc) :=
  match ml_mixing m with Some mix => [(["mixing"], mix)] | None => [] end.
Definition m_midext_item (m : midline) : list (path * Qc) := [(["midext"; "prob"], ml_midext m)].
(** what get_params reports, per use_mixing and LNL symmetry: ipsilateral tumour spread
    from ext.ipsi; contralateral tumour spread from noext.contra (and ext.contra without
    mixing); LNL spread from the ext model; distributions from ext.ipsi; midext_prob last *)
Definition mid_items (m : midline) : list (path * Qc) :=
  let ei := ml_ei m in let ec := ml_ec m in let nc := ml_nc m in
  match ml_mixing m, ml_symL m with
  | Some _, true => pre ["ipsi"] (u_tumor_items ei) ++ pre ["contra"] (u_tumor_items nc) ++ m_mixing_item m
                    ++ u_lnl_items ei ++ u_dist_items ei ++ m_midext_item m
  | Some _, false => pre ["ipsi"] (u_tumor_items ei ++ u_lnl_items ei) ++ pre ["contra"] (u_tumor_items nc ++ u_lnl_items ec)
                     ++ m_mixing_item m ++ u_dist_items ei ++ m_midext_item m
  | None, true => pre ["ipsi"] (u_tumor_items ei) ++ pre ["noext"; "contra"] (u_tumor_items nc)
                  ++ pre ["ext"; "contra"] (u_tumor_items ec) ++ u_lnl_items ei ++ u_dist_items ei ++ m_midext_item m
  | None, false => pre ["ipsi"] (u_tumor_items ei ++ u_lnl_items ei) ++ pre ["noext"; "contra"] (u_tumor_items nc)
                   ++ pre ["ext"; "contra"] (u_tumor_items ec) ++ pre ["contra"] (u_lnl_items ec)
                   ++ u_dist_items ei ++ m_midext_item m
  end.
(** names: the three leaves that are read are well-formed and the ext model carries the
    midline's LNL symmetry flag *)
Definition mid_names_ok (m : midline) : bool :=
  u_names_ok (ml_ei m) && u_names_ok (ml_ec m) && u_names_ok (ml_nc m)
  && same_shape (ml_ei m) (ml_ec m) && same_shape (ml_ei m) (ml_nc m)
  && Bool.eqb (b_symL (ml_ext m)) (ml_symL m).
(** for the setters also noext.ipsi (it consumes positional values before noext.contra) *)
Definition mid_set_ok (m : midline) : bool :=
  mid_names_ok m && u_names_ok (ml_ni m) && same_shape (ml_ei m) (ml_ni m).
Definition C10_mid_names_nodup_stmt : Prop :=
  forall m, mid_names_ok m = true -> m_got m = Some (mid_items m) /\ NoDup (map fst (mid_items m)).
Definition C10_mid_nested_flattens_to_flat_stmt : Prop :=
  forall m, mid_names_ok m = true -> option_map flat_items_dict (m_get_params m false) = m_got m.

(** Midline positional round trip (symmetric LNL spread, with or without mixing, with or
    without central / unknown models): every accepted v comes back from get_params *)
Definition C10_mid_set_get_positional_stmt : Prop :=
  forall m v rest, mid_set_ok m = true -> ml_symL m = true -> length v = length (mid_items m) ->
    let r := m_set_params m (vals v ++ rest) [] in
    snd r <> None ->
    option_map (map snd) (m_got (fst r)) = Some v /\ option_map (map fst) (m_got (fst r)) = Some (map fst (mid_items m)).
(** Midline keyword round trip, all four use_mixing x LNL symmetry settings *)
Definition C10_mid_set_get_keyword_stmt : Prop :=
  forall m v, mid_set_ok m = true -> length v = length (mid_items m) ->
    let r := m_set_params m [] (kw_of (map fst (mid_items m)) v) in
    snd r <> None ->
    option_map (map snd) (m_got (fst r)) = Some v /\ option_map (map fst) (m_got (fst r)) = Some (map fst (mid_items m)).

(** Bilateral: keywords that reach no parameter change nothing that can be observed *)
Definition C10_bi_unknown_names_ignored_stmt : Prop :=
  forall b a kw, b_names_ok b = true ->
    (forall k, In k (map fst (b_set_order b)) -> b_lk kw k = None) ->
    (forall k, In k (map fst (u_dist_items (b_contra b))) -> side_lk "contra" kw k = None) ->
    let r1 := b_set_params b a kw in let r2 := b_set_params b a [] in
    snd r1 = snd r2 /\ (snd r1 <> None -> b_got (fst r1) = b_got (fst r2)).

(** Bilateral: set_params( **get_params()) does not raise and leaves get_params unchanged,
    for a valid object whose two sides carry the same distributions *)
Definition C10_bi_set_own_params_is_identity_stmt : Prop :=
  forall b, b_wf b = true -> u_dists (b_contra b) = u_dists (b_ipsi b) -> u_maxt (b_contra b) = u_maxt (b_ipsi b) ->
    let r := b_set_params b [] (own_kwargs (b_got b)) in
    snd r = Some [] /\ b_got (fst r) = b_got b.
