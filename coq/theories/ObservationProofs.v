(** Proofs of the C06 statements (observation matrix, confusion matrices,
    [diagnosis_prob] as a marginal of the observation matrix). *)
From LymphModel Require Import Base States Linalg Graph Transition Observation Dist Unilateral UniStatements.
Local Open Scope nat_scope.
Open Scope Qc_scope.

(** * Generic list lemmas *)
Lemma flat_map_ext_In {A B} (f g : A -> list B) l :
  (forall a, In a l -> f a = g a) -> flat_map f l = flat_map g l.
Proof.
  induction l as [|a l IH]; intros H; cbn [flat_map]; [reflexivity|].
  rewrite H by (left; reflexivity). rewrite IH; [reflexivity|].
  intros a' Ha'. apply H. right. exact Ha'.
Qed.
Lemma flat_map_map {A B C} (f : B -> list C) (g : A -> B) l :
  flat_map f (map g l) = flat_map (fun a => f (g a)) l.
Proof. induction l as [|a l IH]; cbn [map flat_map]; [reflexivity|]. rewrite IH. reflexivity. Qed.
Lemma flat_map_flat_map {A B C} (f : B -> list C) (g : A -> list B) l :
  flat_map f (flat_map g l) = flat_map (fun a => flat_map f (g a)) l.
Proof. induction l as [|a l IH]; cbn [flat_map]; [reflexivity|]. rewrite flat_map_app, IH. reflexivity. Qed.
Lemma flat_map_single {A B} (g : A -> B) l : flat_map (fun a => [g a]) l = map g l.
Proof. induction l as [|a l IH]; cbn [map flat_map app]; [reflexivity|]. rewrite IH. reflexivity. Qed.

Lemma prodQ_all_one l : (forall a, In a l -> a = 1) -> prodQ l = 1.
Proof.
  induction l as [|a l IH]; intros H; cbn [prodQ]; [reflexivity|].
  rewrite (H a) by (left; reflexivity). rewrite IH; [ring|]. intros; apply H; right; assumption.
Qed.
Lemma prodQ_unit l : (forall a, In a l -> 0 <= a <= 1) -> 0 <= prodQ l <= 1.
Proof.
  induction l as [|a l IH]; intros H; cbn [prodQ].
  - split; discriminate.
  - assert (Ha : 0 <= a <= 1) by (apply H; left; reflexivity).
    assert (Hl : 0 <= prodQ l <= 1) by (apply IH; intros; apply H; right; assumption).
    revert Ha Hl. generalize (prodQ l). intros p [Ha1 Ha2] [Hp1 Hp2].
    split; qc2q; revert Ha1 Ha2 Hp1 Hp2; generalize (this a) (this p); intros; nra.
Qed.
Lemma prodQ_map_flat_map {A B} (F : B -> Qc) (G : A -> list B) l :
  prodQ (map F (flat_map G l)) = prodQ (map (fun a => prodQ (map F (G a))) l).
Proof.
  induction l as [|a l IH]; cbn [flat_map map prodQ]; [reflexivity|].
  rewrite map_app, prodQ_app, IH. reflexivity.
Qed.
Lemma fold_mul {A} (step : Qc -> A -> Qc) (h : A -> Qc) :
  (forall acc a, step acc a = acc * h a) ->
  forall l a0, fold_left step l a0 = a0 * prodQ (map h l).
Proof.
  intros H. induction l as [|a l IH]; intros a0; cbn [fold_left map prodQ]; [ring|].
  rewrite IH, H. ring.
Qed.

(** * [all_states]: the last digit *)
Lemma all_states_1 w : all_states w 1 = map (fun d => [d]) (seq 0 w).
Proof. cbn [all_states map]. apply flat_map_single. Qed.
Lemma all_states_snoc b n :
  all_states b (S n) = flat_map (fun x => map (fun d => x ++ [d]) (seq 0 b)) (all_states b n).
Proof.
  induction n as [|n IH].
  - rewrite all_states_1. cbn [all_states flat_map app]. rewrite app_nil_r. reflexivity.
  - transitivity (flat_map (fun d => map (cons d)
        (flat_map (fun x => map (fun d => x ++ [d]) (seq 0 b)) (all_states b n))) (seq 0 b)).
    { rewrite <- IH. reflexivity. }
    clear IH. cbn [all_states]. rewrite flat_map_flat_map. apply flat_map_ext. intros d.
    rewrite map_flat_map, flat_map_map. apply flat_map_ext. intros y.
    rewrite map_map. reflexivity.
Qed.

(** * [prod_over] *)
Lemma prod_over_app fs1 fs2 z :
  prod_over (fs1 ++ fs2) z
  = prod_over fs1 (firstn (length fs1) z) * prod_over fs2 (skipn (length fs1) z).
Proof.
  revert z. induction fs1 as [|f fs1 IH]; intros z.
  - cbn [app length firstn skipn prod_over]. ring.
  - destruct z as [|d z]; cbn [app length firstn skipn prod_over].
    + destruct fs2; cbn [prod_over]; ring.
    + rewrite IH. ring.
Qed.
Lemma prod_over_map_combine (c : nat -> nat -> Qc) x z :
  prod_over (map c x) z = prodQ (map (fun '(s, o) => c s o) (combine x z)).
Proof.
  revert z. induction x as [|s x IH]; intros [|o z]; cbn [map prod_over combine prodQ]; try reflexivity.
  rewrite IH. reflexivity.
Qed.

(** * Kronecker products of tabulated products *)
Lemma kron_vec_flat_map {A} (G : A -> vec) l v :
  kron_vec (flat_map G l) v = flat_map (fun a => kron_vec (G a) v) l.
Proof. unfold kron_vec. apply flat_map_flat_map. Qed.
Lemma kron_vec_scale c u v : kron_vec (map (Qcmult c) u) v = map (Qcmult c) (kron_vec u v).
Proof.
  unfold kron_vec. rewrite flat_map_map, map_flat_map. apply flat_map_ext. intros a.
  unfold vscale. rewrite map_map. apply map_ext. intros y. ring.
Qed.

Lemma kron_vec_prod_over w fs1 fs2 m :
  kron_vec (map (prod_over fs1) (all_states w (length fs1))) (map (prod_over fs2) (all_states w m))
  = map (prod_over (fs1 ++ fs2)) (all_states w (length fs1 + m)).
Proof.
  induction fs1 as [|f fs1 IH].
  - cbn [length all_states map prod_over app Nat.add]. unfold kron_vec. cbn [flat_map].
    rewrite app_nil_r. unfold vscale. rewrite map_map. apply map_ext. intros y. ring.
  - cbn [length all_states Nat.add app]. rewrite !map_flat_map, kron_vec_flat_map.
    apply flat_map_ext. intros d. rewrite !map_map. cbn [prod_over].
    transitivity (kron_vec (map (Qcmult (f d)) (map (prod_over fs1) (all_states w (length fs1))))
                           (map (prod_over fs2) (all_states w m))).
    { rewrite map_map. reflexivity. }
    rewrite kron_vec_scale, IH, map_map. reflexivity.
Qed.

(** a matrix given by its entries *)
Definition tab (c : nat -> nat -> Qc) (b w : nat) : mat := map (fun s => map (c s) (seq 0 w)) (seq 0 b).

Lemma kron_pow_tab c b w n :
  kron_pow (tab c b w) n
  = map (fun x => map (prod_over (map c x)) (all_states w n)) (all_states b n).
Proof.
  induction n as [|n IH].
  - reflexivity.
  - cbn [kron_pow]. rewrite IH. rewrite (all_states_snoc b n).
    unfold kron_mat. rewrite flat_map_map, map_flat_map. apply flat_map_ext_In. intros x Hx.
    unfold tab. rewrite !map_map. apply map_ext. intros s.
    apply all_states_In in Hx. destruct Hx as [Hl _].
    replace (map (c s) (seq 0 w)) with (map (prod_over [c s]) (all_states w 1)).
    2:{ rewrite all_states_1, map_map. apply map_ext. intros d. cbn [prod_over]. ring. }
    replace (all_states w n) with (all_states w (length (map c x))) by (rewrite map_length, Hl; reflexivity).
    rewrite kron_vec_prod_over. rewrite map_length, Hl, map_app. cbn [map].
    replace (n + 1)%nat with (S n) by lia. reflexivity.
Qed.

(** * Confusion matrices *)
Lemma confusion_tab b m : base_ok b = true -> confusion_matrix b m = tab (conf b m) b 2.
Proof.
  unfold base_ok. rewrite orb_true_iff, !Nat.eqb_eq. intros [-> | ->];
    unfold tab, conf, mget, confusion_matrix; cbn [Nat.eqb seq map nth]; destruct (m_path m); reflexivity.
Qed.

Lemma conf_row_sum b m s : base_ok b = true -> (s < b)%nat -> conf b m s 0 + conf b m s 1 = 1.
Proof.
  unfold base_ok. rewrite orb_true_iff, !Nat.eqb_eq. intros [-> | ->] Hs;
    unfold conf, mget, confusion_matrix; cbn [Nat.eqb].
  - destruct s as [|[|s]]; [| |lia]; cbn [nth]; ring.
  - destruct s as [|[|[|s]]]; [| | |lia]; destruct (m_path m); cbn [nth]; ring.
Qed.

Lemma conf_unit b m s o :
  0 <= m_spec m <= 1 -> 0 <= m_sens m <= 1 -> 0 <= conf b m s o <= 1.
Proof.
  intros [Hp1 Hp2] [Hs1 Hs2].
  assert (H0 : 0 <= 0 <= 1) by (split; discriminate).
  assert (Hp : 0 <= 1 - m_spec m <= 1).
  { revert Hp1 Hp2. generalize (m_spec m). intros p Hp1 Hp2. split; qc2q; generalize dependent (this p); intros; lra. }
  assert (Hs : 0 <= 1 - m_sens m <= 1).
  { revert Hs1 Hs2. generalize (m_sens m). intros p Hs1 Hs2. split; qc2q; generalize dependent (this p); intros; lra. }
  unfold conf, mget, confusion_matrix.
  destruct (Nat.eqb b 3); [destruct (m_path m)|];
    destruct s as [|[|[|[|s]]]]; destruct o as [|[|o]]; cbn [nth]; auto; destruct o; exact H0.
Qed.

(** * The observation matrix *)
Definition obs_fs (b : nat) (mods : list modality) (x : state) : list (nat -> Qc) :=
  flat_map (fun m => map (conf b m) x) mods.

Lemma obs_fs_length b mods x : length (obs_fs b mods x) = (length mods * length x)%nat.
Proof. unfold obs_fs. apply flat_map_length_const. intros a _. apply map_length. Qed.

Lemma obs_spec_prod_over b n mods x : length x = n ->
  forall z, obs_spec mods n b x z = prod_over (obs_fs b mods x) z.
Proof.
  intros Hx. unfold obs_spec, obs_fs. induction mods as [|m mods IH]; intros z.
  - reflexivity.
  - cbn [length chunk combine map prodQ flat_map].
    rewrite prod_over_app, map_length, Hx, IH, prod_over_map_combine. reflexivity.
Qed.

Definition obsM (b n : nat) (ms : list modality) : mat :=
  map (fun x => map (prod_over (obs_fs b ms x)) (all_states 2 (length ms * n))) (all_states b n).

Lemma obs_step b n pre m : base_ok b = true ->
  row_wise_kron (obsM b n pre) (kron_pow (confusion_matrix b m) n) = obsM b n (pre ++ [m]).
Proof.
  intros Hb. rewrite (confusion_tab b m Hb), kron_pow_tab. unfold obsM, row_wise_kron.
  rewrite map2_map_map. apply map_ext_in. intros x Hx.
  apply all_states_In in Hx. destruct Hx as [Hl _].
  replace (all_states 2 (length pre * n)) with (all_states 2 (length (obs_fs b pre x)))
    by (rewrite obs_fs_length, Hl; reflexivity).
  rewrite kron_vec_prod_over, obs_fs_length, Hl.
  unfold obs_fs at 2. rewrite flat_map_app. cbn [flat_map]. rewrite app_nil_r.
  rewrite app_length. cbn [length].
  replace ((length pre + 1) * n)%nat with (length pre * n + n)%nat by lia. reflexivity.
Qed.

Lemma obs_fold b n mods : base_ok b = true -> forall pre,
  fold_left (fun (O : mat) m => row_wise_kron O (kron_pow (confusion_matrix b m) n)) mods (obsM b n pre)
  = obsM b n (pre ++ mods).
Proof.
  intros Hb. induction mods as [|m mods IH]; intros pre; cbn [fold_left].
  - rewrite app_nil_r. reflexivity.
  - rewrite obs_step by exact Hb. rewrite IH, <- app_assoc. reflexivity.
Qed.

Lemma observation_entries : C06_observation_entries_stmt.
Proof.
  intros mods n b Hb. unfold generate_observation.
  replace (repeat [1] (b ^ n)) with (obsM b n []).
  2:{ unfold obsM. cbn [length Nat.mul all_states map obs_fs flat_map prod_over].
      rewrite map_const_repeat, all_states_length. reflexivity. }
  rewrite obs_fold by exact Hb. cbn [app].
  unfold obsM, obs_spec_matrix, obs_list. apply map_ext_in. intros x Hx.
  apply map_ext. intros z. symmetry. apply obs_spec_prod_over.
  apply all_states_In in Hx. apply Hx.
Qed.

(** * Row sums, unit interval, micro rules, shape *)
Lemma obs_row_sums : C06_row_sums_stmt.
Proof.
  intros mods n b x Hb Hx. apply all_states_In in Hx. destruct Hx as [Hl Hf].
  rewrite (map_ext _ _ (obs_spec_prod_over b n mods x Hl)).
  unfold obs_list. replace (length mods * n)%nat with (length (obs_fs b mods x))
    by (rewrite obs_fs_length, Hl; reflexivity).
  rewrite sum_prod_states. apply prodQ_all_one. intros a Ha.
  apply in_map_iff in Ha. destruct Ha as [f [<- Hf']].
  unfold obs_fs in Hf'. apply in_flat_map in Hf'. destruct Hf' as [m [_ Hm]].
  apply in_map_iff in Hm. destruct Hm as [s [<- Hs]].
  cbn [seq map sumQ]. rewrite <- (conf_row_sum b m s Hb).
  - ring.
  - rewrite Forall_forall in Hf. apply Hf. exact Hs.
Qed.

Lemma obs_entries_in_unit_interval : C06_entries_in_unit_interval_stmt.
Proof.
  intros mods n b x z _ Hu _ _. unfold obs_spec. apply prodQ_unit. intros a Ha.
  apply in_map_iff in Ha. destruct Ha as [[m zm] [<- Hin]].
  apply in_combine_l in Hin. destruct (Hu m Hin) as [Hsp Hse].
  apply prodQ_unit. intros a Ha.
  apply in_map_iff in Ha. destruct Ha as [[s o] [<- _]].
  apply conf_unit; assumption.
Qed.

Lemma micro_rules : C06_micro_rules_stmt.
Proof.
  intros m z. unfold conf, mget, confusion_matrix. cbn [Nat.eqb].
  split; intros ->; reflexivity.
Qed.

Lemma obs_shape : C06_shape_stmt.
Proof.
  intros mods n b Hb. rewrite (observation_entries mods n b Hb). unfold obs_spec_matrix, obs_list. split.
  - rewrite map_length. apply all_states_length.
  - apply Forall_forall. intros r Hr. apply in_map_iff in Hr. destruct Hr as [x [<- _]].
    rewrite map_length. apply all_states_length.
Qed.

(** * [diagnosis_prob] is a marginal of the observation matrix *)
Definition patof (d : diagnosis) (name : string) : pattern :=
  match diag_get name d with Some p => p | None => [] end.
Definition okb (pat : pattern) (l : string) (o : nat) : bool :=
  match pat_get l pat with None => true | Some i => matches_ind 2 i o end.
Definition hfac (b : nat) (pat : pattern) (m : modality) (ls : string * nat) : nat -> Qc :=
  fun o => if okb pat (fst ls) o then conf b m (snd ls) o else 0.
Definition hs (b : nat) (d : diagnosis) (lnl : list string) (x : state) (mods : list (string * modality))
  : list (nat -> Qc) :=
  flat_map (fun nm => map (hfac b (patof d (fst nm)) (snd nm)) (combine lnl x)) mods.
Definition gfac (b : nat) (pat : pattern) (m : modality) (ls : string * nat) : Qc :=
  match pat_get (fst ls) pat with
  | None => 1
  | Some ind => conf b m (snd ls) (obs_of_indicator ind)
  end.

Lemma block_compat b pat m : forall lnl x zm, length x = length lnl ->
  (if matches_pattern lnl pat 2 zm
   then prodQ (map (fun '(s, o) => conf b m s o) (combine x zm)) else 0)
  = prod_over (map (hfac b pat m) (combine lnl x)) zm.
Proof.
  unfold matches_pattern.
  induction lnl as [|l lnl IH]; intros [|s x] zm Hl; try discriminate.
  - reflexivity.
  - destruct zm as [|o zm]; cbn [combine map prod_over forallb prodQ]; [reflexivity|].
    rewrite <- IH by (cbn [length] in Hl; lia).
    unfold hfac, okb. cbn [fst snd].
    destruct (match pat_get l pat with None => true | Some i => matches_ind 2 i o end);
      destruct (forallb _ (combine lnl zm)); cbn [andb]; ring.
Qed.

Lemma hs_length b d lnl x mods : length x = length lnl ->
  length (hs b d lnl x mods) = (length mods * length lnl)%nat.
Proof.
  intros Hl. unfold hs. apply flat_map_length_const. intros a _.
  rewrite map_length, combine_length, Hl. apply Nat.min_id.
Qed.

Lemma compat_prod_over b d lnl x : length x = length lnl -> forall mods z,
  (if compatible (map fst mods) lnl d z then obs_spec (map snd mods) (length lnl) b x z else 0)
  = prod_over (hs b d lnl x mods) z.
Proof.
  intros Hl. unfold compatible, obs_spec, hs.
  induction mods as [|[name m] mods IH]; intros z.
  - reflexivity.
  - cbn [map fst snd length chunk combine forallb prodQ flat_map].
    rewrite !map_length in IH. rewrite prod_over_app, !map_length, combine_length, Hl, Nat.min_id.
    rewrite <- IH. rewrite <- (block_compat b (patof d name) m lnl x (firstn (length lnl) z) Hl).
    unfold patof.
    destruct (matches_pattern lnl _ 2 (firstn (length lnl) z));
      destruct (forallb _ (combine (map fst mods) _)); cbn [andb]; ring.
Qed.

Lemma diagnosis_prob_prod b mods lnl x d :
  diagnosis_prob b mods lnl x d
  = prodQ (map (fun nm => prodQ (map (gfac b (patof d (fst nm)) (snd nm)) (combine lnl x))) mods).
Proof.
  unfold diagnosis_prob. rewrite fold_mul with
    (h := fun nm => prodQ (map (gfac b (patof d (fst nm)) (snd nm)) (combine lnl x))).
  - ring.
  - intros acc [name m]. cbn [fst snd]. unfold patof. destruct (diag_get name d) as [pat|].
    + apply fold_mul. intros acc' [l s]. unfold gfac. cbn [fst snd].
      destruct (pat_get l pat); ring.
    + rewrite prodQ_all_one; [ring|]. intros a Ha. apply in_map_iff in Ha.
      destruct Ha as [[l s] [<- _]]. reflexivity.
Qed.

Lemma binary_pat_get pat l : binary_pattern pat = true -> binary_ind (pat_get l pat) = true.
Proof.
  unfold binary_pattern. induction pat as [|[k v] pat IH]; cbn [forallb pat_get snd]; intros H; [reflexivity|].
  apply andb_true_iff in H. destruct H as [Hv Hp]. destruct (str_eqb l k); auto.
Qed.
Lemma binary_patof d name :
  forallb (fun kv : string * pattern => binary_pattern (snd kv)) d = true -> binary_pattern (patof d name) = true.
Proof.
  unfold patof. induction d as [|[k p] d IH]; cbn [forallb diag_get snd]; intros H; [reflexivity|].
  apply andb_true_iff in H. destruct H as [Hp Hd]. destruct (str_eqb name k); auto.
Qed.

Lemma diagnosis_prob_is_marginal : C06_diagnosis_prob_is_marginal_stmt.
Proof.
  intros b mods lnl x d Hb _ _ Hx Hbin.
  apply all_states_In in Hx. destruct Hx as [Hl Hf]. rewrite Forall_forall in Hf.
  rewrite (map_ext _ _ (compat_prod_over b d lnl x Hl mods)).
  unfold obs_list. rewrite <- (hs_length b d lnl x mods Hl).
  rewrite sum_prod_states, diagnosis_prob_prod. unfold hs. rewrite prodQ_map_flat_map.
  apply prodQ_map_ext. intros [name m] _. cbn [fst snd].
  rewrite map_map. apply prodQ_map_ext. intros [l s] Hin.
  apply in_combine_r in Hin. apply Hf in Hin.
  pose proof (binary_pat_get (patof d name) l (binary_patof d name Hbin)) as Hbi.
  cbn [seq map sumQ]. unfold hfac, okb, gfac. cbn [fst snd].
  destruct (pat_get l (patof d name)) as [[| | | |]|]; try discriminate Hbi;
    cbn [matches_ind element Nat.eqb nth obs_of_indicator].
  - ring.
  - ring.
  - rewrite <- (conf_row_sum b m s Hb Hin). ring.
Qed.
