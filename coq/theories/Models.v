(** Models: the composite model records shared by the numerical core
    (Bilateral.v, Midline.v) and the parameter plumbing (Params.v). *)
From LymphModel Require Import Base States Linalg Graph Transition Observation Dist Unilateral.

(** models.Bilateral: two unilateral models and the symmetry flags *)
Record bilateral := { b_ipsi : uni; b_contra : uni; b_symT : bool; b_symL : bool }.

(** models.Midline: ext / noext (/ central / unknown) bilateral models, the mixing
    parameter ([None] iff use_mixing = False), midext_prob, use_midext_evo and the
    LNL-spread symmetry flag (tumor spread is never symmetric in a midline model) *)
Record midline := { ml_ext : bilateral; ml_noext : bilateral;
                    ml_central : option bilateral; ml_unknown : option bilateral;
                    ml_mixing : option Qc; ml_midext : Qc; ml_evo : bool; ml_symL : bool }.

(** models.HPVUnilateral *)
Record hpvmodel := { h_hpv : uni; h_nohpv : uni }.
