(** NumpyBilateral: the numerical pipelines of [lymph.models.Bilateral] ([state_dist], [obs_dist], [patient_likelihoods],
    [_bn_likelihood], [_hmm_likelihood]) read with numpy's shape semantics, line by line as the Python code is written
    ([np_bi_<function>]), and the STATIC proofs that these readings equal the hand-written model of Bilateral.v.

    Same architecture as NumpyPipelines.v (whose primitives and lemmas are reused): the model states every transpose with
    an explicit width ([transpose_w w M]); numpy's [M.T] has no such argument.  The [np_bi_...] definitions use
    [np_transpose] (width = length of the first row), [np_matmul] ([A @ B], width = number of columns of [B]), [np_diag],
    [np_outer], [np_fast_trace_nc] ([matrix.fast_trace], the reading [NumpyMatrix.np_fast_trace] of its body with the width
    of [left] read off its first row) and Python's evaluation order of calls that may raise (the [res] monad: the first
    exception wins).  The lemmas prove, under hypotheses that all follow from [wf_bilateral b = true], that the widths the
    model writes down are the widths numpy computes.

    The source translator (harness/translate6.py) re-generates every [np_bi_...] term from the Python source on every run
    and checks the generated term against the definition here by [reflexivity] (conversion); the equality with the model
    then follows from the static theorem.

    What is NOT modelled (as in NumpyPipelines.v): numpy raises when the shapes of the operands of [@], [*] or
    [np.outer] do not fit; the list primitives truncate instead.  Under the hypotheses of the lemmas all shapes fit.
    A 2-D array with zero rows is the empty list (its width is forgotten); the only place where this occurs is the
    diagnosis matrix of zero patients, for which [fast_trace] is the empty vector in numpy, in the reading and in the
    model. *)
From LymphModel Require Import Base States Linalg Graph Transition Observation Dist Unilateral UniStatements Models
  Bilateral Midline BiStatements Numpy NumpyTransition TransitionProofs ObservationProofs PriorProofs LikelihoodProofs
  BilateralProofs NumpyMatrix NumpyPipelines.
Local Open Scope nat_scope.
Open Scope Qc_scope.

(** * numpy primitives (the translator's reading; trusted base) *)
(** [A @ B] for two 2-D arrays: every row of [A] times [B] *)
Definition np_matmul (A B : mat) : mat := map (fun r => NumpyPipelines.np_vecmat r B) A.
(** [np.diag(v)] for a 1-D [v] *)
Definition np_diag (v : vec) : mat :=
  map (fun i => map (fun j => if Nat.eqb i j then nth i v 0 else 0) (seq 0 (length v))) (seq 0 (length v)).
(** [np.outer(u, v)] for two 1-D arrays *)
Definition np_outer (u v : vec) : mat := map (fun a => map (fun b => a * b) v) u.
(** [A * B] for two 2-D arrays of equal shape; [np.sum(M)] of a 2-D array; [M / z] for a scalar [z] *)
Definition np_sum2 (M : mat) : Qc := sumQ (map sumQ M).
(** [matrix.fast_trace(left, right)]: the reading of its body in NumpyMatrix.v, [left] of shape (len(left), ncols left) *)
Definition np_fast_trace_nc (left right : mat) : vec := np_fast_trace (ncols left) left right.

Lemma np_matmul_eq A B : np_matmul A B = matmul A B.
Proof. reflexivity. Qed.
Lemma np_diag_eq v : np_diag v = diag v.
Proof. reflexivity. Qed.
Lemma np_outer_eq u v : np_outer u v = outer u v.
Proof. reflexivity. Qed.
Lemma np_transpose_w (M : mat) : np_transpose 0 M = transpose_w (ncols M) M.
Proof. reflexivity. Qed.

(** * the pipelines, line by line *)
(** if mode == "HMM":
        ipsi_state_evo = self.ipsi.state_dist_evo(); contra_state_evo = self.contra.state_dist_evo()
        time_marg_matrix = np.diag(self.get_distribution(t_stage).pmf)
        result = ipsi_state_evo.T @ time_marg_matrix @ contra_state_evo
    elif mode == "BN":
        ipsi_state_dist = self.ipsi.state_dist(mode=mode); contra_state_dist = self.contra.state_dist(mode=mode)
        result = np.outer(ipsi_state_dist, contra_state_dist)
    else: raise ValueError(...)
    return result
    [ipsi_evo], [contra_evo] = self.ipsi / self.contra .state_dist_evo(); [ipsi_sd t hmm], [contra_sd t hmm] =
    self.ipsi / self.contra .state_dist(t_stage=t, mode="HMM" if hmm else "BN") *)
Definition np_bi_state_dist (ipsi_evo contra_evo : mat) (pmf_of : string -> res vec)
  (ipsi_sd contra_sd : string -> bool -> res vec) (t_stage : string) (hmm : bool) : res mat :=
  if hmm then
    let ipsi_state_evo := ipsi_evo in
    let contra_state_evo := contra_evo in
    bind (pmf_of t_stage) (fun x =>
    let time_marg_matrix := np_diag x in
    let result := np_matmul (np_matmul (np_transpose 0 ipsi_state_evo) time_marg_matrix) contra_state_evo in
    inr result)
  else if negb hmm then
    bind (ipsi_sd "early"%string hmm) (fun ipsi_state_dist =>
    bind (contra_sd "early"%string hmm) (fun contra_state_dist =>
    let result := np_outer ipsi_state_dist contra_state_dist in
    inr result))
  else inl MValue.

(** if given_state_dist is None: given_state_dist = self.state_dist(t_stage=t_stage, mode=mode)
    return self.ipsi.observation_matrix().T @ given_state_dist @ self.contra.observation_matrix() *)
Definition np_bi_obs_dist (ipsi_evo contra_evo : mat) (pmf_of : string -> res vec)
  (ipsi_sd contra_sd : string -> bool -> res vec) (ipsi_obs contra_obs : mat)
  (given_state_dist : option mat) (t_stage : string) (hmm : bool) : res mat :=
  bind (match given_state_dist with
        | None => np_bi_state_dist ipsi_evo contra_evo pmf_of ipsi_sd contra_sd t_stage hmm
        | Some given_state_dist => inr given_state_dist
        end) (fun given_state_dist =>
  inr (np_matmul (np_matmul (np_transpose 0 ipsi_obs) given_state_dist) contra_obs)).

(** joint_state_dist = self.state_dist(t_stage=t_stage, mode=mode)
    return matrix.fast_trace(self.ipsi.diagnosis_matrix(t_stage),
                             joint_state_dist @ self.contra.diagnosis_matrix(t_stage).T) *)
Definition np_bi_patient_likelihoods (ipsi_evo contra_evo : mat) (pmf_of : string -> res vec)
  (ipsi_sd contra_sd : string -> bool -> res vec) (ipsi_dm contra_dm : option string -> res mat)
  (t_stage : string) (hmm : bool) : res vec :=
  bind (np_bi_state_dist ipsi_evo contra_evo pmf_of ipsi_sd contra_sd t_stage hmm) (fun joint_state_dist =>
  bind (ipsi_dm (Some t_stage)) (fun x =>
  bind (contra_dm (Some t_stage)) (fun x0 =>
  inr (np_fast_trace_nc x (np_matmul joint_state_dist (np_transpose 0 x0)))))).

(** joint_state_dist = self.state_dist(mode="BN")
    patient_llhs = matrix.fast_trace(self.ipsi.diagnosis_matrix(t_stage),
                                     joint_state_dist @ self.contra.diagnosis_matrix(t_stage).T)
    return np.sum(np.log(patient_llhs)) if log else np.prod(patient_llhs)          (the factors [patient_llhs]) *)
Definition np_bi_bn_likelihood (ipsi_evo contra_evo : mat) (pmf_of : string -> res vec)
  (ipsi_sd contra_sd : string -> bool -> res vec) (ipsi_dm contra_dm : option string -> res mat)
  (t_stage : option string) : res vec :=
  bind (np_bi_state_dist ipsi_evo contra_evo pmf_of ipsi_sd contra_sd "early"%string false) (fun joint_state_dist =>
  bind (ipsi_dm t_stage) (fun x =>
  bind (contra_dm t_stage) (fun x0 =>
  let patient_llhs := np_fast_trace_nc x (np_matmul joint_state_dist (np_transpose 0 x0)) in
  inr patient_llhs))).

(** llh = 0.0 if log else 1.0
    ipsi_dist_evo = self.ipsi.state_dist_evo(); contra_dist_evo = self.contra.state_dist_evo()
    if t_stage is None: t_stages = self.t_stages else: t_stages = [t_stage]
    for stage in t_stages:
        diag_time_matrix = np.diag(self.get_distribution(stage).pmf)
        joint_state_dist = ipsi_dist_evo.T @ diag_time_matrix @ contra_dist_evo
        patient_llhs = matrix.fast_trace(self.ipsi.diagnosis_matrix(stage),
                                         joint_state_dist @ self.contra.diagnosis_matrix(stage).T)
        llh = utils.add_or_mult(llh, patient_llhs, log)
    return llh
    [llh] is kept as the list of its factors: the neutral start value is the empty list, add_or_mult appends *)
Definition np_bi_hmm_likelihood (ipsi_evo contra_evo : mat) (pmf_of : string -> res vec)
  (ipsi_dm contra_dm : option string -> res mat) (all_t_stages : list string) (t_stage : option string) : res vec :=
  let llh : vec := [] in
  let ipsi_dist_evo := ipsi_evo in
  let contra_dist_evo := contra_evo in
  let t_stages := match t_stage with None => all_t_stages | Some t_stage => [t_stage] end in
  bind (fold_left (fun (acc : res vec) (stage : string) => bind acc (fun llh =>
          bind (pmf_of stage) (fun x =>
          let diag_time_matrix := np_diag x in
          let joint_state_dist := np_matmul (np_matmul (np_transpose 0 ipsi_dist_evo) diag_time_matrix) contra_dist_evo in
          bind (ipsi_dm (Some stage)) (fun x0 =>
          bind (contra_dm (Some stage)) (fun x1 =>
          let patient_llhs := np_fast_trace_nc x0 (np_matmul joint_state_dist (np_transpose 0 x1)) in
          let llh := llh ++ patient_llhs in
          inr llh)))))
        t_stages (inr llh)) (fun llh =>
  inr llh).

(** * well-formedness: what the lemmas need follows from [wf_bilateral] *)
Lemma wf_bilateral_graphs b : wf_bilateral b = true ->
  wf_graphb (u_graph (b_ipsi b)) = true /\ wf_graphb (u_graph (b_contra b)) = true.
Proof. intros H. destruct (wf_bi_parts b H) as (Hi & Hc & _). split; apply wf_uni_graph; assumption. Qed.

(** * shapes *)
Lemma ncols_state_dist_evo u : ncols (state_dist_evo u) = nstates u.
Proof. unfold state_dist_evo. rewrite ncols_evo_rows, onehot0_length. reflexivity. Qed.

Lemma nstates_pos_u u : wf_graphb (u_graph u) = true -> (0 < nstates u)%nat.
Proof. intros H. exact (nstates_pos _ H). Qed.

Lemma ncols_observation_matrix u : wf_graphb (u_graph u) = true ->
  ncols (observation_matrix u) = (2 ^ (length (u_mods u) * u_n u))%nat.
Proof. intros Hwf. exact (ncols_shape _ _ _ (observation_matrix_shape u Hwf) (nstates_pos _ Hwf)). Qed.

Lemma transpose_w_shape w (M : mat) : (0 < w)%nat ->
  ncols (transpose_w w M) = length M /\ Forall (fun r => length r = length M) (transpose_w w M).
Proof.
  intros Hw. unfold transpose_w. split.
  - destruct w as [|w]; [lia|]. cbn [seq map ncols]. unfold mcol. apply map_length.
  - apply Forall_forall. intros r Hr. apply in_map_iff in Hr. destruct Hr as [j [<- _]]. unfold mcol. apply map_length.
Qed.

Lemma diagnosis_matrix_length u data t DM : diagnosis_matrix u data t = inr DM -> length DM = length (select data t).
Proof.
  unfold diagnosis_matrix. destruct (data_matrix u data t) as [e|D] eqn:ED; cbn [bind]; [discriminate|].
  intros H. injection H as <-. rewrite map_length. unfold data_matrix in ED.
  pose proof (sequence_length _ _ ED) as H. rewrite map_length in H. exact H.
Qed.

Lemma bi_diagnosis_matrices_length b data t DMi DMc :
  diagnosis_matrix (b_ipsi b) (map ipsi_patient data) t = inr DMi ->
  diagnosis_matrix (b_contra b) (map contra_patient data) t = inr DMc -> length DMi = length DMc.
Proof.
  intros Hi Hc. rewrite (diagnosis_matrix_length _ _ _ _ Hi), (diagnosis_matrix_length _ _ _ _ Hc).
  rewrite select_ipsi, select_contra, !map_length. reflexivity.
Qed.

Lemma bi_state_dist_length b t hmm J : bi_state_dist b t hmm = inr J -> length J = nstates (b_ipsi b).
Proof.
  unfold bi_state_dist. destruct hmm.
  - destruct (get_pmf (b_ipsi b) t) as [e|pm]; cbn [bind]; [discriminate|]. intros H. injection H as <-.
    unfold joint_of_evos, matmul, transpose_w. rewrite !map_length. apply seq_length.
  - destruct (state_dist_bn (u_graph (b_ipsi b))) as [e|si] eqn:Ei; cbn [bind]; [discriminate|].
    destruct (state_dist_bn (u_graph (b_contra b))) as [e|sc]; cbn [bind]; [discriminate|]. intros H. injection H as <-.
    unfold outer. rewrite map_length. exact (state_dist_bn_length _ _ Ei).
Qed.

(** * state_dist *)
Lemma np_joint_of_evos u pm ce :
  np_matmul (np_matmul (np_transpose 0 (state_dist_evo u)) (np_diag pm)) ce
  = joint_of_evos (nstates u) (state_dist_evo u) pm ce.
Proof. unfold joint_of_evos. rewrite np_transpose_w, ncols_state_dist_evo. reflexivity. Qed.

(** no hypothesis: the first row of [state_dist_evo] always has [nstates] entries *)
Theorem np_bi_state_dist_model b t hmm :
  np_bi_state_dist (state_dist_evo (b_ipsi b)) (state_dist_evo (b_contra b)) (get_pmf (b_ipsi b))
                   (state_dist (b_ipsi b)) (state_dist (b_contra b)) t hmm
  = bi_state_dist b t hmm.
Proof.
  unfold np_bi_state_dist, bi_state_dist. destruct hmm; cbn [negb]; cbv zeta.
  - destruct (get_pmf (b_ipsi b) t) as [e|pm]; cbn [bind]; [reflexivity|]. rewrite np_joint_of_evos. reflexivity.
  - unfold state_dist. reflexivity.
Qed.

(** * obs_dist *)
Lemma np_bi_obs_dist_of b sd : wf_graphb (u_graph (b_ipsi b)) = true ->
  np_matmul (np_matmul (np_transpose 0 (observation_matrix (b_ipsi b))) sd) (observation_matrix (b_contra b))
  = bi_obs_dist_of b sd.
Proof. intros Hwf. unfold bi_obs_dist_of. cbv zeta. rewrite np_transpose_w, (ncols_observation_matrix _ Hwf). reflexivity. Qed.

Theorem np_bi_obs_dist_model b t hmm : wf_graphb (u_graph (b_ipsi b)) = true ->
  np_bi_obs_dist (state_dist_evo (b_ipsi b)) (state_dist_evo (b_contra b)) (get_pmf (b_ipsi b))
                 (state_dist (b_ipsi b)) (state_dist (b_contra b))
                 (observation_matrix (b_ipsi b)) (observation_matrix (b_contra b)) None t hmm
  = bind (bi_state_dist b t hmm) (fun sd => inr (bi_obs_dist_of b sd))
  /\ forall sd,
  np_bi_obs_dist (state_dist_evo (b_ipsi b)) (state_dist_evo (b_contra b)) (get_pmf (b_ipsi b))
                 (state_dist (b_ipsi b)) (state_dist (b_contra b))
                 (observation_matrix (b_ipsi b)) (observation_matrix (b_contra b)) (Some sd) t hmm
  = inr (bi_obs_dist_of b sd).
Proof.
  intros Hwf. unfold np_bi_obs_dist. split.
  - rewrite np_bi_state_dist_model. destruct (bi_state_dist b t hmm) as [e|sd]; cbn [bind]; [reflexivity|].
    rewrite (np_bi_obs_dist_of b sd Hwf). reflexivity.
  - intros sd. cbn [bind]. rewrite (np_bi_obs_dist_of b sd Hwf). reflexivity.
Qed.

(** * fast_trace(ipsi.diagnosis_matrix(t), joint @ contra.diagnosis_matrix(t).T) *)
Lemma np_trace_core b data t joint DMi DMc :
  wf_graphb (u_graph (b_ipsi b)) = true -> wf_graphb (u_graph (b_contra b)) = true ->
  length joint = nstates (b_ipsi b) ->
  diagnosis_matrix (b_ipsi b) (map ipsi_patient data) t = inr DMi ->
  diagnosis_matrix (b_contra b) (map contra_patient data) t = inr DMc ->
  np_fast_trace_nc DMi (np_matmul joint (np_transpose 0 DMc))
  = fast_trace DMi (matmul joint (transpose_w (nstates (b_contra b)) DMc)).
Proof.
  intros Hgi Hgc HJ Ei Ec.
  pose proof (bi_diagnosis_matrices_length b data t DMi DMc Ei Ec) as Hlen.
  pose proof (diagnosis_matrix_rows _ _ _ _ Hgi Ei) as Hri.
  pose proof (diagnosis_matrix_rows _ _ _ _ Hgc Ec) as Hrc.
  destruct DMc as [|rc DMc'] eqn:EDc.
  - destruct DMi; [reflexivity|discriminate].
  - rewrite <- EDc in *.
    assert (Hnc : ncols DMc = nstates (b_contra b)) by (rewrite EDc in *; inversion Hrc; assumption).
    assert (Hni : ncols DMi = nstates (b_ipsi b)).
    { destruct DMi as [|ri DMi']; [rewrite EDc in Hlen; discriminate|]. inversion Hri; assumption. }
    rewrite np_transpose_w, Hnc, np_matmul_eq. unfold np_fast_trace_nc. rewrite Hni.
    destruct (transpose_w_shape (nstates (b_contra b)) DMc (nstates_pos_u _ Hgc)) as [Hc1 Hc2].
    apply np_fast_trace_eq.
    + exact Hri.
    + unfold matmul. rewrite map_length. exact HJ.
    + unfold matmul. apply Forall_forall. intros r Hr. apply in_map_iff in Hr. destruct Hr as [v [<- _]].
      rewrite Hc1, Hlen. apply vecmat_w_length. exact Hc2.
Qed.

Lemma np_llhs_of_joint {B} b data t joint (k : vec -> res B) :
  wf_graphb (u_graph (b_ipsi b)) = true -> wf_graphb (u_graph (b_contra b)) = true ->
  length joint = nstates (b_ipsi b) ->
  bind (diagnosis_matrix (b_ipsi b) (map ipsi_patient data) t) (fun x =>
  bind (diagnosis_matrix (b_contra b) (map contra_patient data) t) (fun x0 =>
  k (np_fast_trace_nc x (np_matmul joint (np_transpose 0 x0)))))
  = bind (bi_llhs_of_joint b data t joint) k.
Proof.
  intros Hgi Hgc HJ. unfold bi_llhs_of_joint.
  destruct (diagnosis_matrix (b_ipsi b) (map ipsi_patient data) t) as [e|DMi] eqn:Ei; cbn [bind]; [reflexivity|].
  destruct (diagnosis_matrix (b_contra b) (map contra_patient data) t) as [e|DMc] eqn:Ec; cbn [bind]; [reflexivity|].
  rewrite (np_trace_core b data t joint DMi DMc Hgi Hgc HJ Ei Ec). reflexivity.
Qed.

(** * patient_likelihoods *)
Theorem np_bi_patient_likelihoods_model b data t hmm :
  wf_graphb (u_graph (b_ipsi b)) = true -> wf_graphb (u_graph (b_contra b)) = true ->
  np_bi_patient_likelihoods (state_dist_evo (b_ipsi b)) (state_dist_evo (b_contra b)) (get_pmf (b_ipsi b))
                            (state_dist (b_ipsi b)) (state_dist (b_contra b))
                            (diagnosis_matrix (b_ipsi b) (map ipsi_patient data))
                            (diagnosis_matrix (b_contra b) (map contra_patient data)) t hmm
  = Bilateral.bi_patient_likelihoods b data t hmm.
Proof.
  intros Hgi Hgc. unfold np_bi_patient_likelihoods, Bilateral.bi_patient_likelihoods. rewrite np_bi_state_dist_model.
  destruct (bi_state_dist b t hmm) as [e|J] eqn:EJ; cbn [bind]; [reflexivity|].
  rewrite (np_llhs_of_joint b data (Some t) J (fun v => inr v) Hgi Hgc (bi_state_dist_length b t hmm J EJ)).
  apply bind_inr_id.
Qed.

(** * _bn_likelihood *)
Theorem np_bi_bn_likelihood_model b data t :
  wf_graphb (u_graph (b_ipsi b)) = true -> wf_graphb (u_graph (b_contra b)) = true ->
  np_bi_bn_likelihood (state_dist_evo (b_ipsi b)) (state_dist_evo (b_contra b)) (get_pmf (b_ipsi b))
                      (state_dist (b_ipsi b)) (state_dist (b_contra b))
                      (diagnosis_matrix (b_ipsi b) (map ipsi_patient data))
                      (diagnosis_matrix (b_contra b) (map contra_patient data)) t
  = bi_bn_likelihood_factors b data t.
Proof.
  intros Hgi Hgc. unfold np_bi_bn_likelihood, bi_bn_likelihood_factors. rewrite np_bi_state_dist_model.
  change (bi_state_dist b "early"%string false) with (bi_state_dist b ""%string false).
  destruct (bi_state_dist b ""%string false) as [e|J] eqn:EJ; cbn [bind]; [reflexivity|]. cbv zeta.
  rewrite (np_llhs_of_joint b data t J (fun v => inr v) Hgi Hgc (bi_state_dist_length b "" false J EJ)).
  apply bind_inr_id.
Qed.

(** * _hmm_likelihood *)
Theorem np_bi_hmm_likelihood_model b data t :
  wf_graphb (u_graph (b_ipsi b)) = true -> wf_graphb (u_graph (b_contra b)) = true ->
  np_bi_hmm_likelihood (state_dist_evo (b_ipsi b)) (state_dist_evo (b_contra b)) (get_pmf (b_ipsi b))
                       (diagnosis_matrix (b_ipsi b) (map ipsi_patient data))
                       (diagnosis_matrix (b_contra b) (map contra_patient data)) (bi_t_stages b) t
  = bi_hmm_likelihood_factors b data t.
Proof.
  intros Hgi Hgc. unfold np_bi_hmm_likelihood, bi_hmm_likelihood_factors. cbv zeta. rewrite bind_inr_id.
  rewrite (fold_left_ext2 _ (fun (acc : res vec) (ts : string) => bind acc (fun llh =>
             bind (Bilateral.bi_patient_likelihoods b data ts true) (fun x => inr (llh ++ x))))).
  - rewrite fold_bind_sequence. reflexivity.
  - intros [e|llh] ts; cbn [bind]; [reflexivity|]. unfold Bilateral.bi_patient_likelihoods.
    destruct (bi_state_dist b ts true) as [e|J] eqn:EJ.
    + unfold bi_state_dist in EJ. destruct (get_pmf (b_ipsi b) ts) as [e'|pm]; cbn [bind] in *; [|discriminate].
      injection EJ as <-. reflexivity.
    + pose proof (bi_state_dist_length b ts true J EJ) as HJ.
      unfold bi_state_dist in EJ. destruct (get_pmf (b_ipsi b) ts) as [e'|pm]; cbn [bind] in *; [discriminate|].
      injection EJ as EJ. rewrite np_joint_of_evos, EJ.
      apply (np_llhs_of_joint b data (Some ts) J (fun x => inr (llh ++ x)) Hgi Hgc HJ).
Qed.

(** * the same theorems under the model's own well-formedness predicate *)
Corollary np_bi_patient_likelihoods_wf b data t hmm : wf_bilateral b = true ->
  np_bi_patient_likelihoods (state_dist_evo (b_ipsi b)) (state_dist_evo (b_contra b)) (get_pmf (b_ipsi b))
                            (state_dist (b_ipsi b)) (state_dist (b_contra b))
                            (diagnosis_matrix (b_ipsi b) (map ipsi_patient data))
                            (diagnosis_matrix (b_contra b) (map contra_patient data)) t hmm
  = Bilateral.bi_patient_likelihoods b data t hmm.
Proof. intros H. destruct (wf_bilateral_graphs b H). apply np_bi_patient_likelihoods_model; assumption. Qed.
Corollary np_bi_bn_likelihood_wf b data t : wf_bilateral b = true ->
  np_bi_bn_likelihood (state_dist_evo (b_ipsi b)) (state_dist_evo (b_contra b)) (get_pmf (b_ipsi b))
                      (state_dist (b_ipsi b)) (state_dist (b_contra b))
                      (diagnosis_matrix (b_ipsi b) (map ipsi_patient data))
                      (diagnosis_matrix (b_contra b) (map contra_patient data)) t
  = bi_bn_likelihood_factors b data t.
Proof. intros H. destruct (wf_bilateral_graphs b H). apply np_bi_bn_likelihood_model; assumption. Qed.
Corollary np_bi_hmm_likelihood_wf b data t : wf_bilateral b = true ->
  np_bi_hmm_likelihood (state_dist_evo (b_ipsi b)) (state_dist_evo (b_contra b)) (get_pmf (b_ipsi b))
                       (diagnosis_matrix (b_ipsi b) (map ipsi_patient data))
                       (diagnosis_matrix (b_contra b) (map contra_patient data)) (bi_t_stages b) t
  = bi_hmm_likelihood_factors b data t.
Proof. intros H. destruct (wf_bilateral_graphs b H). apply np_bi_hmm_likelihood_model; assumption. Qed.
