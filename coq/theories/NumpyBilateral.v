(** NumpyBilateral: the numerical pipelines of [lymph.models.Bilateral] ([state_dist], [obs_dist], [patient_likelihoods],
    [_bn_likelihood], [_hmm_likelihood], and, in the second half of the file, [posterior_state_dist], [marginalize],
    [risk]) read with numpy's shape semantics, line by line as the Python code is written
    ([np_bi_<function>]), and the STATIC proofs that these readings equal the hand-written model of Bilateral.v.

    Same architecture as NumpyPipelines.v (whose primitives and lemmas are reused): the model states every transpose with
    an explicit width ([transpose_w w M]); numpy's [M.T] has no such argument.  The [np_bi_...] definitions use
    [np_transpose] (width = length of the first row), [np_matmul] ([A @ B], width = number of columns of [B]), [np_diag],
    [np_outer], [np_fast_trace_nc] ([matrix.fast_trace], the reading [NumpyMatrix.np_fast_trace] of its body with the width
    of [left] read off its first row) and Python's evaluation order of calls that may raise (the [res] monad: the first
    exception wins).  The lemmas prove, under hypotheses that all follow from [wf_bilateral b = true], that the widths the
    model writes down are the widths numpy computes.

    The source translator (harness/translate6.py) re-generates every [np_bi_...] term from the Python source on every run
    and checks the generated term against the definition here by [reflexivity] (conversion); the equality with the model
    then follows from the static theorem.

    What is NOT modelled (as in NumpyPipelines.v): numpy raises when the shapes of the operands of [@], [*] or
    [np.outer] do not fit; the list primitives truncate instead.  Under the hypotheses of the lemmas all shapes fit.
    A 2-D array with zero rows is the empty list (its width is forgotten); the only place where this occurs is the
    diagnosis matrix of zero patients, for which [fast_trace] is the empty vector in numpy, in the reading and in the
    model. *)
From LymphModel Require Import Base States Linalg Graph Transition Observation Dist Unilateral UniStatements Models
  Bilateral Midline BiStatements Numpy NumpyTransition TransitionProofs ObservationProofs PriorProofs LikelihoodProofs
  BilateralProofs NumpyMatrix NumpyPipelines.
Local Open Scope nat_scope.
Open Scope Qc_scope.

(** * numpy primitives (the translator's reading; trusted base) *)
(** [A @ B] for two 2-D arrays: every row of [A] times [B] *)
Definition np_matmul (A B : mat) : mat := map (fun r => NumpyPipelines.np_vecmat r B) A.
(** [np.diag(v)] for a 1-D [v] *)
Definition np_diag (v : vec) : mat :=
  map (fun i => map (fun j => if Nat.eqb i j then nth i v 0 else 0) (seq 0 (length v))) (seq 0 (length v)).
(** [np.outer(u, v)] for two 1-D arrays *)
Definition np_outer (u v : vec) : mat := map (fun a => map (fun b => a * b) v) u.
(** [np.sum(M)] of a 2-D array *)
Definition np_sum2 (M : mat) : Qc := sumQ (map sumQ M).
(** [matrix.fast_trace(left, right)]: the reading of its body in NumpyMatrix.v, [left] of shape (len(left), ncols left) *)
Definition np_fast_trace_nc (left right : mat) : vec := np_fast_trace (ncols left) left right.

Lemma np_matmul_eq A B : np_matmul A B = matmul A B.
Proof. reflexivity. Qed.
Lemma np_diag_eq v : np_diag v = diag v.
Proof. reflexivity. Qed.
Lemma np_outer_eq u v : np_outer u v = outer u v.
Proof. reflexivity. Qed.
Lemma np_transpose_w (M : mat) : np_transpose 0 M = transpose_w (ncols M) M.
Proof. reflexivity. Qed.

(** * the pipelines, line by line *)
(** if mode == "HMM":
        ipsi_state_evo = self.ipsi.state_dist_evo(); contra_state_evo = self.contra.state_dist_evo()
        time_marg_matrix = np.diag(self.get_distribution(t_stage).pmf)
        result = ipsi_state_evo.T @ time_marg_matrix @ contra_state_evo
    elif mode == "BN":
        ipsi_state_dist = self.ipsi.state_dist(mode=mode); contra_state_dist = self.contra.state_dist(mode=mode)
        result = np.outer(ipsi_state_dist, contra_state_dist)
    else: raise ValueError(...)
    return result
    [ipsi_evo], [contra_evo] = self.ipsi / self.contra .state_dist_evo(); [ipsi_sd t hmm], [contra_sd t hmm] =
    self.ipsi / self.contra .state_dist(t_stage=t, mode="HMM" if hmm else "BN") *)
Definition np_bi_state_dist (ipsi_evo contra_evo : mat) (pmf_of : string -> res vec)
  (ipsi_sd contra_sd : string -> bool -> res vec) (t_stage : string) (hmm : bool) : res mat :=
  if hmm then
    let ipsi_state_evo := ipsi_evo in
    let contra_state_evo := contra_evo in
    bind (pmf_of t_stage) (fun x =>
    let time_marg_matrix := np_diag x in
    let result := np_matmul (np_matmul (np_transpose 0 ipsi_state_evo) time_marg_matrix) contra_state_evo in
    inr result)
  else if negb hmm then
    bind (ipsi_sd "early"%string hmm) (fun ipsi_state_dist =>
    bind (contra_sd "early"%string hmm) (fun contra_state_dist =>
    let result := np_outer ipsi_state_dist contra_state_dist in
    inr result))
  else inl MValue.

(** if given_state_dist is None: given_state_dist = self.state_dist(t_stage=t_stage, mode=mode)
    return self.ipsi.observation_matrix().T @ given_state_dist @ self.contra.observation_matrix() *)
Definition np_bi_obs_dist (ipsi_evo contra_evo : mat) (pmf_of : string -> res vec)
  (ipsi_sd contra_sd : string -> bool -> res vec) (ipsi_obs contra_obs : mat)
  (given_state_dist : option mat) (t_stage : string) (hmm : bool) : res mat :=
  bind (match given_state_dist with
        | None => np_bi_state_dist ipsi_evo contra_evo pmf_of ipsi_sd contra_sd t_stage hmm
        | Some given_state_dist => inr given_state_dist
        end) (fun given_state_dist =>
  inr (np_matmul (np_matmul (np_transpose 0 ipsi_obs) given_state_dist) contra_obs)).

(** joint_state_dist = self.state_dist(t_stage=t_stage, mode=mode)
    return matrix.fast_trace(self.ipsi.diagnosis_matrix(t_stage),
                             joint_state_dist @ self.contra.diagnosis_matrix(t_stage).T) *)
Definition np_bi_patient_likelihoods (ipsi_evo contra_evo : mat) (pmf_of : string -> res vec)
  (ipsi_sd contra_sd : string -> bool -> res vec) (ipsi_dm contra_dm : option string -> res mat)
  (t_stage : string) (hmm : bool) : res vec :=
  bind (np_bi_state_dist ipsi_evo contra_evo pmf_of ipsi_sd contra_sd t_stage hmm) (fun joint_state_dist =>
  bind (ipsi_dm (Some t_stage)) (fun x =>
  bind (contra_dm (Some t_stage)) (fun x0 =>
  inr (np_fast_trace_nc x (np_matmul joint_state_dist (np_transpose 0 x0)))))).

(** joint_state_dist = self.state_dist(mode="BN")
    patient_llhs = matrix.fast_trace(self.ipsi.diagnosis_matrix(t_stage),
                                     joint_state_dist @ self.contra.diagnosis_matrix(t_stage).T)
    return np.sum(np.log(patient_llhs)) if log else np.prod(patient_llhs)          (the factors [patient_llhs]) *)
Definition np_bi_bn_likelihood (ipsi_evo contra_evo : mat) (pmf_of : string -> res vec)
  (ipsi_sd contra_sd : string -> bool -> res vec) (ipsi_dm contra_dm : option string -> res mat)
  (t_stage : option string) : res vec :=
  bind (np_bi_state_dist ipsi_evo contra_evo pmf_of ipsi_sd contra_sd "early"%string false) (fun joint_state_dist =>
  bind (ipsi_dm t_stage) (fun x =>
  bind (contra_dm t_stage) (fun x0 =>
  let patient_llhs := np_fast_trace_nc x (np_matmul joint_state_dist (np_transpose 0 x0)) in
  inr patient_llhs))).

(** llh = 0.0 if log else 1.0
    ipsi_dist_evo = self.ipsi.state_dist_evo(); contra_dist_evo = self.contra.state_dist_evo()
    if t_stage is None: t_stages = self.t_stages else: t_stages = [t_stage]
    for stage in t_stages:
        diag_time_matrix = np.diag(self.get_distribution(stage).pmf)
        joint_state_dist = ipsi_dist_evo.T @ diag_time_matrix @ contra_dist_evo
        patient_llhs = matrix.fast_trace(self.ipsi.diagnosis_matrix(stage),
                                         joint_state_dist @ self.contra.diagnosis_matrix(stage).T)
        llh = utils.add_or_mult(llh, patient_llhs, log)
    return llh
    [llh] is kept as the list of its factors: the neutral start value is the empty list, add_or_mult appends *)
Definition np_bi_hmm_likelihood (ipsi_evo contra_evo : mat) (pmf_of : string -> res vec)
  (ipsi_dm contra_dm : option string -> res mat) (all_t_stages : list string) (t_stage : option string) : res vec :=
  let llh : vec := [] in
  let ipsi_dist_evo := ipsi_evo in
  let contra_dist_evo := contra_evo in
  let t_stages := match t_stage with None => all_t_stages | Some t_stage => [t_stage] end in
  bind (fold_left (fun (acc : res vec) (stage : string) => bind acc (fun llh =>
          bind (pmf_of stage) (fun x =>
          let diag_time_matrix := np_diag x in
          let joint_state_dist := np_matmul (np_matmul (np_transpose 0 ipsi_dist_evo) diag_time_matrix) contra_dist_evo in
          bind (ipsi_dm (Some stage)) (fun x0 =>
          bind (contra_dm (Some stage)) (fun x1 =>
          let patient_llhs := np_fast_trace_nc x0 (np_matmul joint_state_dist (np_transpose 0 x1)) in
          let llh := llh ++ patient_llhs in
          inr llh)))))
        t_stages (inr llh)) (fun llh =>
  inr llh).

(** * well-formedness: what the lemmas need follows from [wf_bilateral] *)
Lemma wf_bilateral_graphs b : wf_bilateral b = true ->
  wf_graphb (u_graph (b_ipsi b)) = true /\ wf_graphb (u_graph (b_contra b)) = true.
Proof. intros H. destruct (wf_bi_parts b H) as (Hi & Hc & _). split; apply wf_uni_graph; assumption. Qed.

(** * shapes *)
Lemma ncols_state_dist_evo u : ncols (state_dist_evo u) = nstates u.
Proof. unfold state_dist_evo. rewrite ncols_evo_rows, onehot0_length. reflexivity. Qed.

Lemma nstates_pos_u u : wf_graphb (u_graph u) = true -> (0 < nstates u)%nat.
Proof. intros H. exact (nstates_pos _ H). Qed.

Lemma ncols_observation_matrix u : wf_graphb (u_graph u) = true ->
  ncols (observation_matrix u) = (2 ^ (length (u_mods u) * u_n u))%nat.
Proof. intros Hwf. exact (ncols_shape _ _ _ (observation_matrix_shape u Hwf) (nstates_pos _ Hwf)). Qed.

Lemma transpose_w_shape w (M : mat) : (0 < w)%nat ->
  ncols (transpose_w w M) = length M /\ Forall (fun r => length r = length M) (transpose_w w M).
Proof.
  intros Hw. unfold transpose_w. split.
  - destruct w as [|w]; [lia|]. cbn [seq map ncols]. unfold mcol. apply map_length.
  - apply Forall_forall. intros r Hr. apply in_map_iff in Hr. destruct Hr as [j [<- _]]. unfold mcol. apply map_length.
Qed.

Lemma diagnosis_matrix_length u data t DM : diagnosis_matrix u data t = inr DM -> length DM = length (select data t).
Proof.
  unfold diagnosis_matrix. destruct (data_matrix u data t) as [e|D] eqn:ED; cbn [bind]; [discriminate|].
  intros H. injection H as <-. rewrite map_length. unfold data_matrix in ED.
  pose proof (sequence_length _ _ ED) as H. rewrite map_length in H. exact H.
Qed.

Lemma bi_diagnosis_matrices_length b data t DMi DMc :
  diagnosis_matrix (b_ipsi b) (map ipsi_patient data) t = inr DMi ->
  diagnosis_matrix (b_contra b) (map contra_patient data) t = inr DMc -> length DMi = length DMc.
Proof.
  intros Hi Hc. rewrite (diagnosis_matrix_length _ _ _ _ Hi), (diagnosis_matrix_length _ _ _ _ Hc).
  rewrite select_ipsi, select_contra, !map_length. reflexivity.
Qed.

Lemma bi_state_dist_length b t hmm J : bi_state_dist b t hmm = inr J -> length J = nstates (b_ipsi b).
Proof.
  unfold bi_state_dist. destruct hmm.
  - destruct (get_pmf (b_ipsi b) t) as [e|pm]; cbn [bind]; [discriminate|]. intros H. injection H as <-.
    unfold joint_of_evos, matmul, transpose_w. rewrite !map_length. apply seq_length.
  - destruct (state_dist_bn (u_graph (b_ipsi b))) as [e|si] eqn:Ei; cbn [bind]; [discriminate|].
    destruct (state_dist_bn (u_graph (b_contra b))) as [e|sc]; cbn [bind]; [discriminate|]. intros H. injection H as <-.
    unfold outer. rewrite map_length. exact (state_dist_bn_length _ _ Ei).
Qed.

(** * state_dist *)
Lemma np_joint_of_evos u pm ce :
  np_matmul (np_matmul (np_transpose 0 (state_dist_evo u)) (np_diag pm)) ce
  = joint_of_evos (nstates u) (state_dist_evo u) pm ce.
Proof. unfold joint_of_evos. rewrite np_transpose_w, ncols_state_dist_evo. reflexivity. Qed.

(** no hypothesis: the first row of [state_dist_evo] always has [nstates] entries *)
Theorem np_bi_state_dist_model b t hmm :
  np_bi_state_dist (state_dist_evo (b_ipsi b)) (state_dist_evo (b_contra b)) (get_pmf (b_ipsi b))
                   (state_dist (b_ipsi b)) (state_dist (b_contra b)) t hmm
  = bi_state_dist b t hmm.
Proof.
  unfold np_bi_state_dist, bi_state_dist. destruct hmm; cbn [negb]; cbv zeta.
  - destruct (get_pmf (b_ipsi b) t) as [e|pm]; cbn [bind]; [reflexivity|]. rewrite np_joint_of_evos. reflexivity.
  - unfold state_dist. reflexivity.
Qed.

(** * obs_dist *)
Lemma np_bi_obs_dist_of b sd : wf_graphb (u_graph (b_ipsi b)) = true ->
  np_matmul (np_matmul (np_transpose 0 (observation_matrix (b_ipsi b))) sd) (observation_matrix (b_contra b))
  = bi_obs_dist_of b sd.
Proof. intros Hwf. unfold bi_obs_dist_of. cbv zeta. rewrite np_transpose_w, (ncols_observation_matrix _ Hwf). reflexivity. Qed.

Theorem np_bi_obs_dist_model b t hmm : wf_graphb (u_graph (b_ipsi b)) = true ->
  np_bi_obs_dist (state_dist_evo (b_ipsi b)) (state_dist_evo (b_contra b)) (get_pmf (b_ipsi b))
                 (state_dist (b_ipsi b)) (state_dist (b_contra b))
                 (observation_matrix (b_ipsi b)) (observation_matrix (b_contra b)) None t hmm
  = bind (bi_state_dist b t hmm) (fun sd => inr (bi_obs_dist_of b sd))
  /\ forall sd,
  np_bi_obs_dist (state_dist_evo (b_ipsi b)) (state_dist_evo (b_contra b)) (get_pmf (b_ipsi b))
                 (state_dist (b_ipsi b)) (state_dist (b_contra b))
                 (observation_matrix (b_ipsi b)) (observation_matrix (b_contra b)) (Some sd) t hmm
  = inr (bi_obs_dist_of b sd).
Proof.
  intros Hwf. unfold np_bi_obs_dist. split.
  - rewrite np_bi_state_dist_model. destruct (bi_state_dist b t hmm) as [e|sd]; cbn [bind]; [reflexivity|].
    rewrite (np_bi_obs_dist_of b sd Hwf). reflexivity.
  - intros sd. cbn [bind]. rewrite (np_bi_obs_dist_of b sd Hwf). reflexivity.
Qed.

(** * fast_trace(ipsi.diagnosis_matrix(t), joint @ contra.diagnosis_matrix(t).T) *)
Lemma np_trace_core b data t joint DMi DMc :
  wf_graphb (u_graph (b_ipsi b)) = true -> wf_graphb (u_graph (b_contra b)) = true ->
  length joint = nstates (b_ipsi b) ->
  diagnosis_matrix (b_ipsi b) (map ipsi_patient data) t = inr DMi ->
  diagnosis_matrix (b_contra b) (map contra_patient data) t = inr DMc ->
  np_fast_trace_nc DMi (np_matmul joint (np_transpose 0 DMc))
  = fast_trace DMi (matmul joint (transpose_w (nstates (b_contra b)) DMc)).
Proof.
  intros Hgi Hgc HJ Ei Ec.
  pose proof (bi_diagnosis_matrices_length b data t DMi DMc Ei Ec) as Hlen.
  pose proof (diagnosis_matrix_rows _ _ _ _ Hgi Ei) as Hri.
  pose proof (diagnosis_matrix_rows _ _ _ _ Hgc Ec) as Hrc.
  destruct DMc as [|rc DMc'] eqn:EDc.
  - destruct DMi; [reflexivity|discriminate].
  - rewrite <- EDc in *.
    assert (Hnc : ncols DMc = nstates (b_contra b)) by (rewrite EDc in *; inversion Hrc; assumption).
    assert (Hni : ncols DMi = nstates (b_ipsi b)).
    { destruct DMi as [|ri DMi']; [rewrite EDc in Hlen; discriminate|]. inversion Hri; assumption. }
    rewrite np_transpose_w, Hnc, np_matmul_eq. unfold np_fast_trace_nc. rewrite Hni.
    destruct (transpose_w_shape (nstates (b_contra b)) DMc (nstates_pos_u _ Hgc)) as [Hc1 Hc2].
    apply np_fast_trace_eq.
    + exact Hri.
    + unfold matmul. rewrite map_length. exact HJ.
    + unfold matmul. apply Forall_forall. intros r Hr. apply in_map_iff in Hr. destruct Hr as [v [<- _]].
      rewrite Hc1, Hlen. apply vecmat_w_length. exact Hc2.
Qed.

Lemma np_llhs_of_joint {B} b data t joint (k : vec -> res B) :
  wf_graphb (u_graph (b_ipsi b)) = true -> wf_graphb (u_graph (b_contra b)) = true ->
  length joint = nstates (b_ipsi b) ->
  bind (diagnosis_matrix (b_ipsi b) (map ipsi_patient data) t) (fun x =>
  bind (diagnosis_matrix (b_contra b) (map contra_patient data) t) (fun x0 =>
  k (np_fast_trace_nc x (np_matmul joint (np_transpose 0 x0)))))
  = bind (bi_llhs_of_joint b data t joint) k.
Proof.
  intros Hgi Hgc HJ. unfold bi_llhs_of_joint.
  destruct (diagnosis_matrix (b_ipsi b) (map ipsi_patient data) t) as [e|DMi] eqn:Ei; cbn [bind]; [reflexivity|].
  destruct (diagnosis_matrix (b_contra b) (map contra_patient data) t) as [e|DMc] eqn:Ec; cbn [bind]; [reflexivity|].
  rewrite (np_trace_core b data t joint DMi DMc Hgi Hgc HJ Ei Ec). reflexivity.
Qed.

(** * patient_likelihoods *)
Theorem np_bi_patient_likelihoods_model b data t hmm :
  wf_graphb (u_graph (b_ipsi b)) = true -> wf_graphb (u_graph (b_contra b)) = true ->
  np_bi_patient_likelihoods (state_dist_evo (b_ipsi b)) (state_dist_evo (b_contra b)) (get_pmf (b_ipsi b))
                            (state_dist (b_ipsi b)) (state_dist (b_contra b))
                            (diagnosis_matrix (b_ipsi b) (map ipsi_patient data))
                            (diagnosis_matrix (b_contra b) (map contra_patient data)) t hmm
  = Bilateral.bi_patient_likelihoods b data t hmm.
Proof.
  intros Hgi Hgc. unfold np_bi_patient_likelihoods, Bilateral.bi_patient_likelihoods. rewrite np_bi_state_dist_model.
  destruct (bi_state_dist b t hmm) as [e|J] eqn:EJ; cbn [bind]; [reflexivity|].
  rewrite (np_llhs_of_joint b data (Some t) J (fun v => inr v) Hgi Hgc (bi_state_dist_length b t hmm J EJ)).
  apply bind_inr_id.
Qed.

(** * _bn_likelihood *)
Theorem np_bi_bn_likelihood_model b data t :
  wf_graphb (u_graph (b_ipsi b)) = true -> wf_graphb (u_graph (b_contra b)) = true ->
  np_bi_bn_likelihood (state_dist_evo (b_ipsi b)) (state_dist_evo (b_contra b)) (get_pmf (b_ipsi b))
                      (state_dist (b_ipsi b)) (state_dist (b_contra b))
                      (diagnosis_matrix (b_ipsi b) (map ipsi_patient data))
                      (diagnosis_matrix (b_contra b) (map contra_patient data)) t
  = bi_bn_likelihood_factors b data t.
Proof.
  intros Hgi Hgc. unfold np_bi_bn_likelihood, bi_bn_likelihood_factors. rewrite np_bi_state_dist_model.
  change (bi_state_dist b "early"%string false) with (bi_state_dist b ""%string false).
  destruct (bi_state_dist b ""%string false) as [e|J] eqn:EJ; cbn [bind]; [reflexivity|]. cbv zeta.
  rewrite (np_llhs_of_joint b data t J (fun v => inr v) Hgi Hgc (bi_state_dist_length b "" false J EJ)).
  apply bind_inr_id.
Qed.

(** * _hmm_likelihood *)
Theorem np_bi_hmm_likelihood_model b data t :
  wf_graphb (u_graph (b_ipsi b)) = true -> wf_graphb (u_graph (b_contra b)) = true ->
  np_bi_hmm_likelihood (state_dist_evo (b_ipsi b)) (state_dist_evo (b_contra b)) (get_pmf (b_ipsi b))
                       (diagnosis_matrix (b_ipsi b) (map ipsi_patient data))
                       (diagnosis_matrix (b_contra b) (map contra_patient data)) (bi_t_stages b) t
  = bi_hmm_likelihood_factors b data t.
Proof.
  intros Hgi Hgc. unfold np_bi_hmm_likelihood, bi_hmm_likelihood_factors. cbv zeta. rewrite bind_inr_id.
  rewrite (fold_left_ext2 _ (fun (acc : res vec) (ts : string) => bind acc (fun llh =>
             bind (Bilateral.bi_patient_likelihoods b data ts true) (fun x => inr (llh ++ x))))).
  - rewrite fold_bind_sequence. reflexivity.
  - intros [e|llh] ts; cbn [bind]; [reflexivity|]. unfold Bilateral.bi_patient_likelihoods.
    destruct (bi_state_dist b ts true) as [e|J] eqn:EJ.
    + unfold bi_state_dist in EJ. destruct (get_pmf (b_ipsi b) ts) as [e'|pm]; cbn [bind] in *; [|discriminate].
      injection EJ as <-. reflexivity.
    + pose proof (bi_state_dist_length b ts true J EJ) as HJ.
      unfold bi_state_dist in EJ. destruct (get_pmf (b_ipsi b) ts) as [e'|pm]; cbn [bind] in *; [discriminate|].
      injection EJ as EJ. rewrite np_joint_of_evos, EJ.
      apply (np_llhs_of_joint b data (Some ts) J (fun x => inr (llh ++ x)) Hgi Hgc HJ).
Qed.

(** * the same theorems under the model's own well-formedness predicate *)
Corollary np_bi_patient_likelihoods_wf b data t hmm : wf_bilateral b = true ->
  np_bi_patient_likelihoods (state_dist_evo (b_ipsi b)) (state_dist_evo (b_contra b)) (get_pmf (b_ipsi b))
                            (state_dist (b_ipsi b)) (state_dist (b_contra b))
                            (diagnosis_matrix (b_ipsi b) (map ipsi_patient data))
                            (diagnosis_matrix (b_contra b) (map contra_patient data)) t hmm
  = Bilateral.bi_patient_likelihoods b data t hmm.
Proof. intros H. destruct (wf_bilateral_graphs b H). apply np_bi_patient_likelihoods_model; assumption. Qed.
Corollary np_bi_bn_likelihood_wf b data t : wf_bilateral b = true ->
  np_bi_bn_likelihood (state_dist_evo (b_ipsi b)) (state_dist_evo (b_contra b)) (get_pmf (b_ipsi b))
                      (state_dist (b_ipsi b)) (state_dist (b_contra b))
                      (diagnosis_matrix (b_ipsi b) (map ipsi_patient data))
                      (diagnosis_matrix (b_contra b) (map contra_patient data)) t
  = bi_bn_likelihood_factors b data t.
Proof. intros H. destruct (wf_bilateral_graphs b H). apply np_bi_bn_likelihood_model; assumption. Qed.
Corollary np_bi_hmm_likelihood_wf b data t : wf_bilateral b = true ->
  np_bi_hmm_likelihood (state_dist_evo (b_ipsi b)) (state_dist_evo (b_contra b)) (get_pmf (b_ipsi b))
                       (diagnosis_matrix (b_ipsi b) (map ipsi_patient data))
                       (diagnosis_matrix (b_contra b) (map contra_patient data)) (bi_t_stages b) t
  = bi_hmm_likelihood_factors b data t.
Proof. intros H. destruct (wf_bilateral_graphs b H). apply np_bi_hmm_likelihood_model; assumption. Qed.

(** * posterior_state_dist, marginalize, risk *)
(** ** Python / numpy primitives (the translator's reading; trusted base) *)
(** [matrix.compute_encoding(lnls, pattern, base)]: [Observation.compute_encoding], its ValueError = [inl MValue]
    (tied to the source by the pieces [element] / [compute_encoding] of translate.py / translate2.py) *)
Definition np_encoding_res (lnl_names : list string) (p : pattern) (b : nat) : res bvec :=
  match compute_encoding lnl_names p b with None => inl MValue | Some e => inr e end.
(** a boolean array used in [@] is promoted to 0.0 / 1.0 *)
Definition np_b2q (e : bvec) : vec := map b2q e.
(** [M / z] for a 2-D array and a scalar: [None] = NaN / inf entries when z = 0 (neither is a rational) *)
Definition np_div2 (M : mat) (z : Qc) : option mat :=
  if Qc_eqb z 0 then None else Some (map (map (fun a => a / z)) M).
(** [enc @ M] for a boolean 1-D array and a 2-D array that may be NaN ([None]); [v @ enc] for a 1-D array that may be
    NaN and a boolean 1-D array: every product with a NaN array is NaN *)
Definition np_bvecmat_nan (enc : bvec) (M : option mat) : option vec :=
  match M with None => None | Some M => Some (NumpyPipelines.np_vecmat (np_b2q enc) M) end.
Definition np_dotb_nan (v : option vec) (enc : bvec) : option Qc :=
  match v with None => None | Some v => Some (dot v (np_b2q enc)) end.

(** ** posterior_state_dist
    if given_state_dist is None:
        utils.safe_set_params(self, given_params)                    (the model [b] is the model after this call)
        given_state_dist = self.state_dist(t_stage=t_stage, mode=mode)
    if given_diagnosis is None: given_diagnosis = {}
    diagnosis_given_state = {}
    for side in ["ipsi", "contra"]:                                  (unrolled)
        if side not in given_diagnosis: warnings.warn(...)
        diagnosis_encoding = getattr(self, side).compute_encoding(given_diagnosis.get(side, {}))
        observation_matrix = getattr(self, side).observation_matrix()
        diagnosis_given_state[side] = diagnosis_encoding @ observation_matrix.T
    joint_diagnosis_and_state = np.outer(diagnosis_given_state["ipsi"], diagnosis_given_state["contra"]) * given_state_dist
    return joint_diagnosis_and_state / np.sum(joint_diagnosis_and_state)
    [ipsi_enc d], [contra_enc d] = self.ipsi / self.contra .compute_encoding(d);
    [given_diagnosis_ipsi], [given_diagnosis_contra] = given_diagnosis.get(side, {}) after the None default *)
Definition np_bi_posterior_state_dist (ipsi_evo contra_evo : mat) (pmf_of : string -> res vec)
  (ipsi_sd contra_sd : string -> bool -> res vec) (ipsi_obs contra_obs : mat) (ipsi_enc contra_enc : diagnosis -> res bvec)
  (given_state_dist : option mat) (given_diagnosis_ipsi given_diagnosis_contra : diagnosis)
  (t_stage : string) (hmm : bool) : res (option mat) :=
  bind (match given_state_dist with
        | None => np_bi_state_dist ipsi_evo contra_evo pmf_of ipsi_sd contra_sd t_stage hmm
        | Some given_state_dist => inr given_state_dist
        end) (fun given_state_dist =>
  bind (ipsi_enc given_diagnosis_ipsi) (fun diagnosis_encoding =>
  let observation_matrix := ipsi_obs in
  let dgs_ipsi := NumpyPipelines.np_vecmat (np_b2q diagnosis_encoding) (np_transpose 0 observation_matrix) in
  bind (contra_enc given_diagnosis_contra) (fun diagnosis_encoding =>
  let observation_matrix := contra_obs in
  let dgs_contra := NumpyPipelines.np_vecmat (np_b2q diagnosis_encoding) (np_transpose 0 observation_matrix) in
  let joint_diagnosis_and_state := np_mul2 (np_outer dgs_ipsi dgs_contra) given_state_dist in
  inr (np_div2 joint_diagnosis_and_state (np_sum2 joint_diagnosis_and_state))))).

(** ** marginalize
    if given_state_dist is None: given_state_dist = self.state_dist(t_stage=t_stage, mode=mode)
    marginalize_over_states = {}
    for side in ["ipsi", "contra"]:                                  (unrolled)
        side_graph = getattr(self, side).graph
        marginalize_over_states[side] = matrix.compute_encoding(lnls=side_graph.lnls.keys(),
            pattern=involvement.get(side, {}), base=3 if self.is_trinary else 2)
    return marginalize_over_states["ipsi"] @ given_state_dist @ marginalize_over_states["contra"]
    [given_state_dist] = Python None, or an array that may be NaN *)
Definition np_bi_marginalize (ipsi_evo contra_evo : mat) (pmf_of : string -> res vec)
  (ipsi_sd contra_sd : string -> bool -> res vec) (ipsi_lnls contra_lnls : list string) (is_trinary : bool)
  (involvement_ipsi involvement_contra : pattern) (given_state_dist : option (option mat))
  (t_stage : string) (hmm : bool) : res (option Qc) :=
  bind (match given_state_dist with
        | None => bind (np_bi_state_dist ipsi_evo contra_evo pmf_of ipsi_sd contra_sd t_stage hmm) (fun x => inr (Some x))
        | Some given_state_dist => inr given_state_dist
        end) (fun given_state_dist =>
  bind (np_encoding_res ipsi_lnls involvement_ipsi (if is_trinary then 3 else 2)%nat) (fun mos_ipsi =>
  bind (np_encoding_res contra_lnls involvement_contra (if is_trinary then 3 else 2)%nat) (fun mos_contra =>
  inr (np_dotb_nan (np_bvecmat_nan mos_ipsi given_state_dist) mos_contra)))).

(** ** risk
    posterior_state_dist = self.posterior_state_dist(given_params=given_params, given_state_dist=given_state_dist,
                                                     given_diagnosis=given_diagnosis, t_stage=t_stage, mode=mode)
    return self.marginalize(involvement, posterior_state_dist)          (t_stage="early", mode="HMM": unused) *)
Definition np_bi_risk (ipsi_evo contra_evo : mat) (pmf_of : string -> res vec)
  (ipsi_sd contra_sd : string -> bool -> res vec) (ipsi_obs contra_obs : mat) (ipsi_enc contra_enc : diagnosis -> res bvec)
  (ipsi_lnls contra_lnls : list string) (is_trinary : bool)
  (involvement_ipsi involvement_contra : pattern) (given_state_dist : option mat)
  (given_diagnosis_ipsi given_diagnosis_contra : diagnosis) (t_stage : string) (hmm : bool) : res (option Qc) :=
  bind (np_bi_posterior_state_dist ipsi_evo contra_evo pmf_of ipsi_sd contra_sd ipsi_obs contra_obs ipsi_enc contra_enc
          given_state_dist given_diagnosis_ipsi given_diagnosis_contra t_stage hmm) (fun posterior_state_dist =>
  bind (np_bi_marginalize ipsi_evo contra_evo pmf_of ipsi_sd contra_sd ipsi_lnls contra_lnls is_trinary
          involvement_ipsi involvement_contra (Some posterior_state_dist) "early"%string true) (fun x =>
  inr x)).

(** ** shapes *)
Lemma bi_compute_encoding_len lnls p b e : base_ok b = true -> compute_encoding lnls p b = Some e ->
  length e = (b ^ length lnls)%nat.
Proof.
  intros Hb. rewrite compute_encoding_gen by exact Hb. destruct (forallb (enc_okb b p) lnls); [|discriminate].
  intros E. inversion E. rewrite map_length. apply all_states_length.
Qed.
Lemma bi_kron_bvec_len u v : length (kron_bvec u v) = (length u * length v)%nat.
Proof. unfold kron_bvec. apply flat_map_length_const. intros a _. apply map_length. Qed.
Lemma bi_fold_res_inl {A B} (f : A -> B -> res A) e : forall l,
  fold_left (fun (acc : res A) (b : B) => bind acc (fun a => f a b)) l (inl e) = inl e.
Proof. induction l as [|b l IH]; [reflexivity|]. exact IH. Qed.

(** the encoding of a diagnosis has one entry per column of the observation matrix *)
Lemma bi_diagnosis_encoding_len u d enc : diagnosis_encoding u d = inr enc ->
  length enc = (2 ^ (length (u_mods u) * u_n u))%nat.
Proof.
  unfold diagnosis_encoding, u_mod_names. rewrite <- (map_length fst (u_mods u)).
  change (u_n u) with (length (u_lnls u)).
  generalize (map fst (u_mods u)) as names. intros names.
  assert (G : forall acc0, fold_left (fun (acc : res bvec) m =>
      bind acc (fun enc =>
        let pat := match diag_get m d with None => [] | Some p => p end in
        match compute_encoding (u_lnls u) pat 2 with
        | None => inl MValue
        | Some e => inr (kron_bvec enc e)
        end)) names (inr acc0) = inr enc -> length enc = (length acc0 * 2 ^ (length names * length (u_lnls u)))%nat).
  { induction names as [|m names IH]; intros acc0; cbn [fold_left length bind].
    - intros E. inversion E. cbn [Nat.mul Nat.pow]. lia.
    - cbv zeta.
      destruct (compute_encoding (u_lnls u) match diag_get m d with None => [] | Some p => p end 2) as [e'|] eqn:Ec.
      + intros E. rewrite (IH _ E), bi_kron_bvec_len, (bi_compute_encoding_len _ _ 2 _ eq_refl Ec).
        cbn [Nat.mul]. rewrite Nat.pow_add_r. lia.
      + rewrite (bi_fold_res_inl (fun enc0 m0 =>
          match compute_encoding (u_lnls u) match diag_get m0 d with None => [] | Some p => p end 2 with
          | None => inl MValue | Some e => inr (kron_bvec enc0 e) end)). discriminate. }
  intros E. rewrite (G [true] E). cbn [length]. lia.
Qed.

Lemma bi_dot_comm : forall u v : vec, dot u v = dot v u.
Proof. induction u as [|a u IH]; intros [|b v]; cbn [dot]; try reflexivity. rewrite IH. ring. Qed.

(** [enc @ O.T] = the rows of the observation matrix dotted with the encoding *)
Lemma bi_np_vecmat_obs_T u enc : wf_graphb (u_graph u) = true ->
  length enc = (2 ^ (length (u_mods u) * u_n u))%nat ->
  NumpyPipelines.np_vecmat (np_b2q enc) (np_transpose 0 (observation_matrix u)) = matvec (observation_matrix u) (map b2q enc).
Proof.
  intros Hwf Hl. unfold np_b2q.
  rewrite (np_vecmat_transpose (2 ^ (length (u_mods u) * u_n u)) (map b2q enc) (observation_matrix u)).
  - unfold matvec. apply map_ext. intros r. apply bi_dot_comm.
  - assert (2 ^ (length (u_mods u) * u_n u) <> 0)%nat by (apply Nat.pow_nonzero; lia). lia.
  - rewrite map_length. exact Hl.
  - apply (observation_matrix_shape u Hwf).
Qed.

Lemma bi_is_trinary_base g : wf_graphb g = true -> (if Nat.eqb (g_base g) 3 then 3 else 2)%nat = g_base g.
Proof. intros Hwf. destruct (wfb_base g Hwf) as [-> | ->]; reflexivity. Qed.

(** the joint prior of a well-formed model is an [nstates ipsi] x [nstates contra] array *)
Lemma bi_state_dist_shape b t hmm J :
  wf_graphb (u_graph (b_ipsi b)) = true -> wf_graphb (u_graph (b_contra b)) = true ->
  bi_state_dist b t hmm = inr J -> is_shape (nstates (b_ipsi b)) (nstates (b_contra b)) J.
Proof.
  intros Hgi Hgc E. split; [exact (bi_state_dist_length b t hmm J E)|].
  unfold bi_state_dist in E. destruct hmm.
  - destruct (get_pmf (b_ipsi b) t) as [e|pm]; cbn [bind] in E; [discriminate|]. injection E as <-.
    unfold joint_of_evos. unfold matmul at 1. apply Forall_forall. intros r Hr. apply in_map_iff in Hr.
    destruct Hr as [v [<- _]]. rewrite ncols_state_dist_evo. apply vecmat_w_length. exact (state_dist_evo_rows _ Hgc).
  - destruct (state_dist_bn (u_graph (b_ipsi b))) as [e|si]; cbn [bind] in E; [discriminate|].
    destruct (state_dist_bn (u_graph (b_contra b))) as [e|sc] eqn:Ec; cbn [bind] in E; [discriminate|]. injection E as <-.
    unfold outer. apply Forall_forall. intros r Hr. apply in_map_iff in Hr. destruct Hr as [a [<- _]].
    unfold vscale. rewrite map_length. exact (state_dist_bn_length _ _ Ec).
Qed.

(** ** posterior_state_dist *)
Lemma np_bi_posterior_core b prior di dc :
  wf_graphb (u_graph (b_ipsi b)) = true -> wf_graphb (u_graph (b_contra b)) = true ->
  bind (diagnosis_encoding (b_ipsi b) di) (fun de_i =>
  let om_i := observation_matrix (b_ipsi b) in
  let dgs_ipsi := NumpyPipelines.np_vecmat (np_b2q de_i) (np_transpose 0 om_i) in
  bind (diagnosis_encoding (b_contra b) dc) (fun de_c =>
  let om_c := observation_matrix (b_contra b) in
  let dgs_contra := NumpyPipelines.np_vecmat (np_b2q de_c) (np_transpose 0 om_c) in
  let joint_diagnosis_and_state := np_mul2 (np_outer dgs_ipsi dgs_contra) prior in
  inr (np_div2 joint_diagnosis_and_state (np_sum2 joint_diagnosis_and_state))))
  = bi_posterior_of b prior di dc.
Proof.
  intros Hgi Hgc. unfold bi_posterior_of.
  destruct (diagnosis_encoding (b_ipsi b) di) as [e|ei] eqn:Ei; cbn [bind]; [reflexivity|].
  destruct (diagnosis_encoding (b_contra b) dc) as [e|ec] eqn:Ec; cbn [bind]; [reflexivity|]. cbv zeta.
  rewrite (bi_np_vecmat_obs_T _ ei Hgi (bi_diagnosis_encoding_len _ _ _ Ei)).
  rewrite (bi_np_vecmat_obs_T _ ec Hgc (bi_diagnosis_encoding_len _ _ _ Ec)).
  unfold np_div2, np_sum2.
  change (np_mul2 (np_outer (matvec (observation_matrix (b_ipsi b)) (map b2q ei))
                            (matvec (observation_matrix (b_contra b)) (map b2q ec))) prior)
    with (hadamard (outer (matvec (observation_matrix (b_ipsi b)) (map b2q ei))
                          (matvec (observation_matrix (b_contra b)) (map b2q ec))) prior).
  destruct (Qc_eqb _ 0); reflexivity.
Qed.

Theorem np_bi_posterior_state_dist_model b given di dc t hmm :
  wf_graphb (u_graph (b_ipsi b)) = true -> wf_graphb (u_graph (b_contra b)) = true ->
  np_bi_posterior_state_dist (state_dist_evo (b_ipsi b)) (state_dist_evo (b_contra b)) (get_pmf (b_ipsi b))
    (state_dist (b_ipsi b)) (state_dist (b_contra b)) (observation_matrix (b_ipsi b)) (observation_matrix (b_contra b))
    (diagnosis_encoding (b_ipsi b)) (diagnosis_encoding (b_contra b)) given di dc t hmm
  = bind (match given with None => bi_state_dist b t hmm | Some sd => inr sd end)
         (fun prior => bi_posterior_of b prior di dc).
Proof.
  intros Hgi Hgc. unfold np_bi_posterior_state_dist. rewrite np_bi_state_dist_model.
  destruct given as [prior|]; cbn [bind]; [exact (np_bi_posterior_core b prior di dc Hgi Hgc)|].
  destruct (bi_state_dist b t hmm) as [e|prior]; cbn [bind]; [reflexivity|].
  exact (np_bi_posterior_core b prior di dc Hgi Hgc).
Qed.

(** ** marginalize *)
(** the code, for an array that may be NaN: the involvement patterns are encoded (and may raise ValueError) even when
    the array is NaN *)
Definition bi_marginalize_code (b : bilateral) (ii ic : pattern) (sd : option mat) : res (option Qc) :=
  match compute_encoding (u_lnls (b_ipsi b)) ii (u_base (b_ipsi b)),
        compute_encoding (u_lnls (b_contra b)) ic (u_base (b_ipsi b)) with
  | Some ei, Some ec =>
      inr (match sd with None => None | Some sd => Some (dot (vecmat_w (length ec) (map b2q ei) sd) (map b2q ec)) end)
  | _, _ => inl MValue
  end.
Lemma bi_marginalize_code_some b ii ic sd :
  bi_marginalize_code b ii ic (Some sd) = bind (bi_marginalize_of b ii ic sd) (fun r => inr (Some r)).
Proof.
  unfold bi_marginalize_code, bi_marginalize_of.
  destruct (compute_encoding (u_lnls (b_ipsi b)) ii (u_base (b_ipsi b)));
    destruct (compute_encoding (u_lnls (b_contra b)) ic (u_base (b_ipsi b))); reflexivity.
Qed.

(** what the lemma needs of a given array: its rows are as long as the contralateral encoding *)
Definition contra_width (b : bilateral) : nat := (u_base (b_ipsi b) ^ u_n (b_contra b))%nat.
Lemma contra_width_wf b : wf_bilateral b = true -> contra_width b = nstates (b_contra b).
Proof. intros H. destruct (wf_bi_parts b H) as (_ & _ & _ & Hb). unfold contra_width, nstates. rewrite Hb. reflexivity. Qed.

Lemma np_bi_marginalize_core b ii ic (sd : option mat) : wf_graphb (u_graph (b_ipsi b)) = true ->
  (forall M, sd = Some M -> ncols M = contra_width b) ->
  bind (np_encoding_res (u_lnls (b_ipsi b)) ii (if Nat.eqb (u_base (b_ipsi b)) 3 then 3 else 2)%nat) (fun mos_ipsi =>
  bind (np_encoding_res (u_lnls (b_contra b)) ic (if Nat.eqb (u_base (b_ipsi b)) 3 then 3 else 2)%nat) (fun mos_contra =>
  inr (np_dotb_nan (np_bvecmat_nan mos_ipsi sd) mos_contra)))
  = bi_marginalize_code b ii ic sd.
Proof.
  intros Hgi Hsd. unfold bi_marginalize_code, np_encoding_res. unfold u_base at 1 2. rewrite (bi_is_trinary_base _ Hgi).
  fold (u_base (b_ipsi b)).
  destruct (compute_encoding (u_lnls (b_ipsi b)) ii (u_base (b_ipsi b))) as [ei|]; cbn [bind]; [|reflexivity].
  destruct (compute_encoding (u_lnls (b_contra b)) ic (u_base (b_ipsi b))) as [ec|] eqn:Ec; cbn [bind]; [|reflexivity].
  destruct sd as [M|]; cbn [np_bvecmat_nan np_dotb_nan]; [|reflexivity].
  unfold NumpyPipelines.np_vecmat, np_b2q. rewrite (Hsd M eq_refl).
  rewrite (bi_compute_encoding_len _ _ _ _ (wf_base_ok _ Hgi) Ec). reflexivity.
Qed.

Theorem np_bi_marginalize_given_model b ii ic sd t hmm : wf_graphb (u_graph (b_ipsi b)) = true ->
  (forall M, sd = Some M -> ncols M = contra_width b) ->
  np_bi_marginalize (state_dist_evo (b_ipsi b)) (state_dist_evo (b_contra b)) (get_pmf (b_ipsi b))
    (state_dist (b_ipsi b)) (state_dist (b_contra b)) (u_lnls (b_ipsi b)) (u_lnls (b_contra b))
    (Nat.eqb (u_base (b_ipsi b)) 3) ii ic (Some sd) t hmm
  = bi_marginalize_code b ii ic sd.
Proof. intros Hgi Hsd. unfold np_bi_marginalize. cbn [bind]. exact (np_bi_marginalize_core b ii ic sd Hgi Hsd). Qed.

Theorem np_bi_marginalize_model b ii ic t hmm : wf_bilateral b = true ->
  (forall sd, ncols sd = nstates (b_contra b) ->
   np_bi_marginalize (state_dist_evo (b_ipsi b)) (state_dist_evo (b_contra b)) (get_pmf (b_ipsi b))
     (state_dist (b_ipsi b)) (state_dist (b_contra b)) (u_lnls (b_ipsi b)) (u_lnls (b_contra b))
     (Nat.eqb (u_base (b_ipsi b)) 3) ii ic (Some (Some sd)) t hmm
   = bind (bi_marginalize_of b ii ic sd) (fun r => inr (Some r)))
  /\
   np_bi_marginalize (state_dist_evo (b_ipsi b)) (state_dist_evo (b_contra b)) (get_pmf (b_ipsi b))
     (state_dist (b_ipsi b)) (state_dist (b_contra b)) (u_lnls (b_ipsi b)) (u_lnls (b_contra b))
     (Nat.eqb (u_base (b_ipsi b)) 3) ii ic None t hmm
   = bind (bi_state_dist b t hmm) (fun sd => bind (bi_marginalize_of b ii ic sd) (fun r => inr (Some r))).
Proof.
  intros Hwf. destruct (wf_bilateral_graphs b Hwf) as [Hgi Hgc]. split.
  - intros sd Hsd. rewrite (np_bi_marginalize_given_model b ii ic (Some sd) t hmm Hgi).
    + apply bi_marginalize_code_some.
    + intros M E. injection E as <-. rewrite (contra_width_wf b Hwf). exact Hsd.
  - unfold np_bi_marginalize. rewrite np_bi_state_dist_model.
    destruct (bi_state_dist b t hmm) as [e|J] eqn:EJ; cbn [bind]; [reflexivity|].
    rewrite (np_bi_marginalize_core b ii ic (Some J) Hgi).
    + apply bi_marginalize_code_some.
    + intros M E. injection E as <-. rewrite (contra_width_wf b Hwf).
      exact (ncols_shape _ _ _ (bi_state_dist_shape b t hmm J Hgi Hgc EJ) (nstates_pos_u _ Hgi)).
Qed.

(** ** risk *)
(** the code, exactly: the involvement patterns are encoded even when the posterior is NaN *)
Definition bi_risk_code (b : bilateral) (ii ic : pattern) (prior : res mat) (di dc : diagnosis) : res (option Qc) :=
  bind prior (fun prior => bind (bi_posterior_of b prior di dc) (fun po => bi_marginalize_code b ii ic po)).

(** the posterior has the width of the prior *)
Lemma bi_posterior_ncols b prior di dc post :
  wf_graphb (u_graph (b_ipsi b)) = true -> wf_graphb (u_graph (b_contra b)) = true ->
  is_shape (nstates (b_ipsi b)) (nstates (b_contra b)) prior ->
  bi_posterior_of b prior di dc = inr (Some post) -> ncols post = nstates (b_contra b).
Proof.
  intros Hgi Hgc [Hl Hr] E. unfold bi_posterior_of in E.
  destruct (diagnosis_encoding (b_ipsi b) di) as [e|ei]; cbn [bind] in E; [discriminate|].
  destruct (diagnosis_encoding (b_contra b) dc) as [e|ec]; cbn [bind] in E; [discriminate|]. cbv zeta in E.
  destruct (Qc_eqb _ 0); [discriminate|]. injection E as <-.
  pose proof (nstates_pos_u _ Hgi) as Hp.
  pose proof (proj1 (observation_matrix_shape _ Hgi)) as HOi.
  pose proof (proj1 (observation_matrix_shape _ Hgc)) as HOc.
  unfold matvec.
  destruct (observation_matrix (b_ipsi b)) as [|ri Oi]; [cbn [length] in HOi; unfold nstates in Hp; lia|].
  destruct prior as [|p0 prior]; [cbn [length] in Hl; lia|].
  cbn [map outer hadamard map2 ncols]. unfold vmul, vscale. rewrite map_length, map2_length, !map_length.
  inversion Hr as [|? ? Hp0 _]; subst. rewrite Hp0, HOc. apply Nat.min_id.
Qed.

Theorem np_bi_risk_code b ii ic given di dc t hmm : wf_bilateral b = true ->
  (forall sd, given = Some sd -> is_shape (nstates (b_ipsi b)) (nstates (b_contra b)) sd) ->
  np_bi_risk (state_dist_evo (b_ipsi b)) (state_dist_evo (b_contra b)) (get_pmf (b_ipsi b))
    (state_dist (b_ipsi b)) (state_dist (b_contra b)) (observation_matrix (b_ipsi b)) (observation_matrix (b_contra b))
    (diagnosis_encoding (b_ipsi b)) (diagnosis_encoding (b_contra b)) (u_lnls (b_ipsi b)) (u_lnls (b_contra b))
    (Nat.eqb (u_base (b_ipsi b)) 3) ii ic given di dc t hmm
  = bi_risk_code b ii ic (match given with None => bi_state_dist b t hmm | Some sd => inr sd end) di dc.
Proof.
  intros Hwf Hgiven. destruct (wf_bilateral_graphs b Hwf) as [Hgi Hgc]. unfold np_bi_risk, bi_risk_code.
  rewrite (np_bi_posterior_state_dist_model b given di dc t hmm Hgi Hgc).
  assert (G : forall pr : res mat,
    (forall prior, pr = inr prior -> is_shape (nstates (b_ipsi b)) (nstates (b_contra b)) prior) ->
    bind (bind pr (fun prior => bi_posterior_of b prior di dc)) (fun posterior_state_dist =>
      bind (np_bi_marginalize (state_dist_evo (b_ipsi b)) (state_dist_evo (b_contra b)) (get_pmf (b_ipsi b))
              (state_dist (b_ipsi b)) (state_dist (b_contra b)) (u_lnls (b_ipsi b)) (u_lnls (b_contra b))
              (Nat.eqb (u_base (b_ipsi b)) 3) ii ic (Some posterior_state_dist) "early"%string true) (fun x => inr x))
    = bind pr (fun prior => bind (bi_posterior_of b prior di dc) (fun po => bi_marginalize_code b ii ic po))).
  { intros pr Hshape. destruct pr as [e|prior]; cbn [bind]; [reflexivity|]. specialize (Hshape prior eq_refl).
    destruct (bi_posterior_of b prior di dc) as [e|po] eqn:Epo; cbn [bind]; [reflexivity|].
    rewrite bind_inr_id. apply np_bi_marginalize_given_model; [exact Hgi|].
    intros M ->. rewrite (contra_width_wf b Hwf). exact (bi_posterior_ncols b prior di dc M Hgi Hgc Hshape Epo). }
  apply G. intros prior Ep. destruct given as [sd|].
  - injection Ep as <-. apply Hgiven. reflexivity.
  - exact (bi_state_dist_shape b t hmm prior Hgi Hgc Ep).
Qed.

(** the code agrees with the model's [bi_risk] whenever both involvement patterns can be encoded in the model's base
    (for invalid patterns and a NaN posterior the model answers NaN, the code raises ValueError) *)
Lemma bi_risk_code_model b ii ic prior di dc :
  compute_encoding (u_lnls (b_ipsi b)) ii (u_base (b_ipsi b)) <> None ->
  compute_encoding (u_lnls (b_contra b)) ic (u_base (b_ipsi b)) <> None ->
  bi_risk_code b ii ic prior di dc
  = bind prior (fun prior => bind (bi_posterior_of b prior di dc) (fun po =>
      match po with None => inr None | Some post => bind (bi_marginalize_of b ii ic post) (fun r => inr (Some r)) end)).
Proof.
  intros Hi Hc. unfold bi_risk_code. destruct prior as [e|prior]; cbn [bind]; [reflexivity|].
  destruct (bi_posterior_of b prior di dc) as [e|[post|]]; cbn [bind]; [reflexivity|apply bi_marginalize_code_some|].
  unfold bi_marginalize_code.
  destruct (compute_encoding (u_lnls (b_ipsi b)) ii (u_base (b_ipsi b))); [|congruence].
  destruct (compute_encoding (u_lnls (b_contra b)) ic (u_base (b_ipsi b))); [reflexivity|congruence].
Qed.

Theorem np_bi_risk_model b ii ic di dc t hmm : wf_bilateral b = true ->
  compute_encoding (u_lnls (b_ipsi b)) ii (u_base (b_ipsi b)) <> None ->
  compute_encoding (u_lnls (b_contra b)) ic (u_base (b_ipsi b)) <> None ->
  np_bi_risk (state_dist_evo (b_ipsi b)) (state_dist_evo (b_contra b)) (get_pmf (b_ipsi b))
    (state_dist (b_ipsi b)) (state_dist (b_contra b)) (observation_matrix (b_ipsi b)) (observation_matrix (b_contra b))
    (diagnosis_encoding (b_ipsi b)) (diagnosis_encoding (b_contra b)) (u_lnls (b_ipsi b)) (u_lnls (b_contra b))
    (Nat.eqb (u_base (b_ipsi b)) 3) ii ic None di dc t hmm
  = bi_risk b ii ic di dc t hmm.
Proof.
  intros Hwf Hi Hc. rewrite (np_bi_risk_code b ii ic None di dc t hmm Hwf) by (intros sd E; discriminate E).
  unfold bi_risk. apply bi_risk_code_model; assumption.
Qed.
