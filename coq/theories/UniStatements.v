(** Statements of the theorems for C06, C07, C01, C02 (unilateral part).
    Proved in ObservationProofs.v / PriorProofs.v / LikelihoodProofs.v /
    PosteriorProofs.v and closed by [exact] in properties/Cxx.v. *)
From LymphModel Require Import Base States Linalg Graph Transition Observation Dist Unilateral.
Local Open Scope nat_scope.
Open Scope Qc_scope.

(** * Well-formedness (boolean) *)
Definition base_ok (b : nat) : bool := Nat.eqb b 2 || Nat.eqb b 3.
Definition wf_uni (u : uni) : bool :=
  wf_graphb (u_graph u) && nodupb (map fst (u_mods u)).
Definition binary_ind (i : option indicator) : bool :=
  match i with None | Some IHealthy | Some IInvolved => true | _ => false end.
Definition binary_pattern (p : pattern) : bool := forallb (fun kv => binary_ind (snd kv)) p.
Definition wf_patient (p : patient) : bool := forallb (fun kv => binary_pattern (snd kv)) (p_find p).
Definition mods_in_unit (mods : list modality) : Prop :=
  forall m, In m mods -> 0 <= m_spec m <= 1 /\ 0 <= m_sens m <= 1.

(** * C06 *)
Definition C06_observation_entries_stmt : Prop :=
  forall mods n b, base_ok b = true -> generate_observation mods n b = obs_spec_matrix mods n b.
Definition C06_row_sums_stmt : Prop :=
  forall mods n b x, base_ok b = true -> In x (all_states b n) ->
    sumQ (map (obs_spec mods n b x) (obs_list (length mods) n)) = 1.
Definition C06_entries_in_unit_interval_stmt : Prop :=
  forall mods n b x z, base_ok b = true -> mods_in_unit mods ->
    In x (all_states b n) -> In z (obs_list (length mods) n) -> 0 <= obs_spec mods n b x z <= 1.
Definition C06_micro_rules_stmt : Prop :=
  forall m z, (m_path m = false -> conf 3 m 1 z = conf 3 m 0 z)
           /\ (m_path m = true -> conf 3 m 1 z = conf 3 m 2 z).
Definition C06_shape_stmt : Prop :=
  forall mods n b, base_ok b = true ->
    length (generate_observation mods n b) = Nat.pow b n /\
    Forall (fun r => length r = Nat.pow 2 (length mods * n)) (generate_observation mods n b).
(** the finding columns compatible with a (partial) diagnosis *)
Definition compatible (mod_names lnl_names : list string) (d : diagnosis) (z : state) : bool :=
  forallb (fun '(m, zm) => matches_pattern lnl_names (match diag_get m d with Some p => p | None => [] end) 2 zm)
          (combine mod_names (chunk (length lnl_names) (length mod_names) z)).
Definition C06_diagnosis_prob_is_marginal_stmt : Prop :=
  forall b (mods : list (string * modality)) lnl_names x d,
    base_ok b = true -> nodupb (map fst mods) = true -> nodupb lnl_names = true ->
    In x (all_states b (length lnl_names)) ->
    forallb (fun kv => binary_pattern (snd kv)) d = true ->
    diagnosis_prob b mods lnl_names x d
    = sumQ (map (fun z => if compatible (map fst mods) lnl_names d z
                          then obs_spec (map snd mods) (length lnl_names) b x z else 0)
                (obs_list (length mods) (length lnl_names))).

(** * C07 *)
Definition C07_evo_length_stmt : Prop := forall u, length (state_dist_evo u) = S (u_maxt u).
Definition C07_evo_spec_stmt : Prop :=
  forall u t, wf_graphb (u_graph u) = true -> (t <= u_maxt u)%nat ->
    nth t (state_dist_evo u) [] = map (evo_spec (u_graph u) t) (u_states u).
Definition C07_evo_sum_one_stmt : Prop :=
  forall g t, wf_graphb g = true -> sumQ (map (evo_spec g t) (state_list g)) = 1.
Definition C07_evo_nonneg_stmt : Prop :=
  forall g t x, wf_graphb g = true -> params_in_unit g -> In x (state_list g) -> 0 <= evo_spec g t x.
Definition C07_evolve_additive_stmt : Prop :=
  forall T v a b, evolve T (evolve T v a) b = evolve T v (a + b).
Definition C07_state_dist_spec_stmt : Prop :=
  forall u t pm, wf_graphb (u_graph u) = true -> get_pmf u t = inr pm -> length pm = S (u_maxt u) ->
    state_dist u t true = inr (map (prior_spec u pm) (u_states u)).
Definition C07_state_dist_sum_one_stmt : Prop :=
  forall u pm, wf_graphb (u_graph u) = true -> length pm = S (u_maxt u) -> sumQ pm = 1 ->
    sumQ (map (prior_spec u pm) (u_states u)) = 1.
(** Bayesian network: product over LNLs of the noisy-or of the LNL's own status *)
Definition bn_spec (g : graph) (x : state) : Qc :=
  prodQ (map (fun '(i, lnl) =>
      let stay := prodQ (map (fun e => 1 - match e_kind e with
                                            | ETumor => e_spread e
                                            | ELnl => if Nat.eqb (parent_digit g e x) 0 then 0 else e_spread e
                                            | EGrowth => 0 end) (inc_edges g lnl)) in
      if Nat.eqb (digit i x) 0 then stay else 1 - stay)
    (combine (seq 0 (nlnls g)) (lnls g))).
Definition C07_bn_spec_stmt : Prop :=
  forall g, wf_graphb g = true -> g_base g = 2 -> state_dist_bn g = inr (map (bn_spec g) (state_list g)).
Definition C07_bn_trinary_not_implemented_stmt : Prop :=
  forall g, g_base g = 3 -> state_dist_bn g = inl MNotImpl.
Definition C07_obs_dist_spec_stmt : Prop :=
  forall u sd, base_ok (u_base u) = true -> length sd = Nat.pow (u_base u) (u_n u) ->
    obs_dist_of u sd
    = map (fun z => sumQ (map (fun '(x, p) => p * obs_spec (map snd (u_mods u)) (u_n u) (u_base u) x z)
                              (combine (u_states u) sd)))
          (u_obs_list u).

(** * C01 *)
(** the heart: a row of the diagnosis matrix is P(recorded findings | state) *)
Definition C01_diagnosis_matrix_entry_stmt : Prop :=
  forall u data t, wf_uni u = true -> forallb wf_patient data = true ->
    diagnosis_matrix u data t
    = inr (map (fun p => map (findings_prob u p) (u_states u)) (select data t)).
Definition C01_patient_likelihoods_stmt : Prop :=
  forall u data t pm, wf_uni u = true -> forallb wf_patient data = true ->
    get_pmf u t = inr pm -> length pm = S (u_maxt u) ->
    hmm_patient_llhs u data t = inr (map (patient_lik_spec u pm) (select data (Some t))).
(** patients whose T-stage has no distribution are not scored; restricting to one
    T-stage scores exactly that stage's patients; all stages = concatenation *)
Definition C01_all_stages_is_concat_stmt : Prop :=
  forall u data, hmm_likelihood_factors u data None
    = bind (sequence (map (hmm_patient_llhs u data) (valid_t_stages u data))) (fun ls => inr (concat ls)).
Definition C01_unscored_t_stage_stmt : Prop :=
  forall u data t, dict_get t (u_dists u) = None -> ~ In t (valid_t_stages u data).
Definition C01_t_stage_restriction_stmt : Prop :=
  forall u data t v, hmm_likelihood_factors u data (Some t) = inr v ->
    length v = length (select data (Some t)).
(** an unrecorded finding contributes the factor 1: deleting an unknown entry from a
    patient's findings does not change P(findings | x) *)
Definition C01_unrecorded_is_factor_one_stmt : Prop :=
  forall b m s, finding_factor b m s None = 1.

(** * C02 (unilateral) *)
Definition C02_encoding_spec_stmt : Prop :=
  forall lnl_names p b enc, base_ok b = true -> nodupb lnl_names = true ->
    compute_encoding lnl_names p b = Some enc ->
    enc = map (matches_pattern lnl_names p b) (all_states b (length lnl_names)).
Definition joint_spec (u : uni) (prior : vec) (d : diagnosis) : list Qc :=
  map (fun '(x, px) => px * findings_prob u {| p_tstage := ""; p_find := d |} x) (combine (u_states u) prior).
Definition C02_posterior_bayes_stmt : Prop :=
  forall u prior d post, wf_uni u = true -> wf_patient {| p_tstage := ""; p_find := d |} = true ->
    length prior = length (u_states u) ->
    posterior_of u prior (Some d) = inr (Some post) ->
    sumQ (joint_spec u prior d) <> 0 /\
    post = map (fun j => j / sumQ (joint_spec u prior d)) (joint_spec u prior d).
Definition C02_posterior_sum_one_stmt : Prop :=
  forall u prior d post, posterior_of u prior (Some d) = inr (Some post) -> sumQ post = 1.
Definition C02_risk_bayes_stmt : Prop :=
  forall u prior d inv post r, wf_uni u = true -> wf_patient {| p_tstage := ""; p_find := d |} = true ->
    length prior = length (u_states u) ->
    posterior_of u prior (Some d) = inr (Some post) -> marginalize_of u inv post = inr r ->
    r = sumQ (map (fun '(x, j) => if matches_pattern (u_lnls u) inv (u_base u) x then j else 0)
                  (combine (u_states u) (joint_spec u prior d)))
        / sumQ (joint_spec u prior d).
Definition C02_risk_in_unit_interval_stmt : Prop :=
  forall u inv post r, (forall a, In a post -> 0 <= a) -> sumQ post = 1 ->
    marginalize_of u inv post = inr r -> 0 <= r <= 1.
Definition C02_risk_empty_pattern_stmt : Prop :=
  forall u post, wf_uni u = true -> length post = length (u_states u) ->
    marginalize_of u [] post = inr (sumQ post).
(** risks of patterns whose encodings partition the states add up to the total mass *)
Definition C02_risk_partition_stmt : Prop :=
  forall u (invs : list pattern) post, wf_uni u = true -> length post = length (u_states u) ->
    (forall x, In x (u_states u) ->
       length (filter (fun inv => matches_pattern (u_lnls u) inv (u_base u) x) invs) = 1%nat) ->
    (forall inv, In inv invs -> exists enc, compute_encoding (u_lnls u) inv (u_base u) = Some enc) ->
    exists rs, sequence (map (fun inv => marginalize_of u inv post) invs) = inr rs /\ sumQ rs = sumQ post.
