(** Graph: the graph dictionary, [graph.Representation.__init__]
    ([check_unique_names], [_init_nodes], [_init_edges]), [to_dict],
    [state_list], and the edge parameters.  Executable definitions only. *)
From LymphModel Require Import Base States.
Local Open Scope nat_scope.
Local Open Scope string_scope.

(** * The dictionary the user passes *)
(** A connection container is a list (ordered) or a set (rejected with TypeError). *)
Inductive conns := CList (l : list string) | CSet (l : list string).
Definition conns_items (c : conns) : list string := match c with CList l | CSet l => l end.
(** key = (node_type, node_name); node_type is "tumor", "lnl" or anything else *)
Definition gdict := list ((string * string) * conns).

Inductive gerr :=
| EConnSet        (* TypeError: a connection container is a set *)
| EDupConn        (* ValueError: duplicate connections *)
| ESelfConn       (* ValueError: node connected to itself *)
| EDupName        (* ValueError: node names not unique *)
| ENoTumor        (* ValueError *)
| ENoLnl          (* ValueError *)
| EUnknownNode    (* KeyError: start or end name is no node *)
| EArcIntoTumor.  (* TypeError: child must be an LNL *)

Definition str_eqb := String.eqb.
Fixpoint mem (s : string) (l : list string) : bool :=
  match l with [] => false | a :: r => str_eqb s a || mem s r end.
Fixpoint nodupb (l : list string) : bool :=
  match l with [] => true | a :: r => negb (mem a r) && nodupb r end.
(** set(l) has as many elements as there are distinct strings *)
Fixpoint dedup (l : list string) : list string :=
  match l with [] => [] | a :: r => if mem a r then dedup r else a :: dedup r end.

(** utils.check_unique_names: first failing check in iteration order wins *)
Fixpoint check_conns (d : gdict) : option gerr :=
  match d with
  | [] => None
  | ((_, name), c) :: r =>
      match c with
      | CSet _ => Some EConnSet
      | CList l =>
          if negb (nodupb l) then Some EDupConn
          else if mem name l then Some ESelfConn
          else check_conns r
      end
  end.
Definition check_unique_names (d : gdict) : option gerr :=
  match check_conns d with
  | Some e => Some e
  | None => if Nat.eqb (length (dedup (map (fun e => snd (fst e)) d))) (length d)
            then None else Some EDupName
  end.

(** * The representation *)
Inductive ekind := ETumor | ELnl | EGrowth.
Record node := { n_tumor : bool; n_name : string }.
Record edge := { e_name : string; e_parent : string; e_child : string; e_kind : ekind;
                 e_spread : Qc; e_micro : Qc }.
Record graph := { g_base : nat; g_nodes : list node; g_edges : list edge }.

(** dict assignment d[k] = v on an insertion-ordered association list *)
Fixpoint dict_set {V} (k : string) (v : V) (d : list (string * V)) : list (string * V) :=
  match d with
  | [] => [(k, v)]
  | (k', v') :: r => if str_eqb k k' then (k, v) :: r else (k', v') :: dict_set k v r
  end.
Fixpoint dict_get {V} (k : string) (d : list (string * V)) : option V :=
  match d with [] => None | (k', v) :: r => if str_eqb k k' then Some v else dict_get k r end.

(** _init_nodes: unknown node types are silently skipped *)
Fixpoint init_nodes (d : gdict) (acc : list (string * node)) : list (string * node) :=
  match d with
  | [] => acc
  | ((ty, name), _) :: r =>
      if str_eqb ty "tumor" then init_nodes r (dict_set name {| n_tumor := true; n_name := name |} acc)
      else if str_eqb ty "lnl" then init_nodes r (dict_set name {| n_tumor := false; n_name := name |} acc)
      else init_nodes r acc
  end.

Definition edge_name (parent child : string) : string := parent ++ "to" ++ child.

(** _init_edges.  New edges start with spread 0 and micro_mod 1. *)
Definition mk_edge (trinary : bool) (p c : node) : edge :=
  if n_tumor p then {| e_name := edge_name (n_name p) (n_name c); e_parent := n_name p; e_child := n_name c;
                       e_kind := ETumor; e_spread := 0; e_micro := 1 |}
  else {| e_name := edge_name (n_name p) (n_name c); e_parent := n_name p; e_child := n_name c;
          e_kind := ELnl; e_spread := 0; e_micro := 1 |}.
Definition mk_growth (p : node) : edge :=
  {| e_name := n_name p; e_parent := n_name p; e_child := n_name p; e_kind := EGrowth; e_spread := 0; e_micro := 1 |}.

Fixpoint init_conn_edges (trinary : bool) (nodes : list (string * node)) (start : node) (ends : list string)
  (acc : list (string * edge)) : gerr + list (string * edge) :=
  match ends with
  | [] => inr acc
  | en :: r =>
      match dict_get en nodes with
      | None => inl EUnknownNode
      | Some c => if n_tumor c then inl EArcIntoTumor
                  else let e := mk_edge trinary start c in
                       init_conn_edges trinary nodes start r (dict_set (e_name e) e acc)
      end
  end.

Fixpoint init_edges (trinary : bool) (nodes : list (string * node)) (d : gdict) (acc : list (string * edge))
  : gerr + list (string * edge) :=
  match d with
  | [] => inr acc
  | ((_, sname), c) :: r =>
      match dict_get sname nodes with
      | None => inl EUnknownNode
      | Some start =>
          let acc1 := if negb (n_tumor start) && trinary
                      then let ge := mk_growth start in dict_set (e_name ge) ge acc else acc in
          match init_conn_edges trinary nodes start (conns_items c) acc1 with
          | inl e => inl e
          | inr acc2 => init_edges trinary nodes r acc2
          end
      end
  end.

(** graph.Representation(graph_dict, allowed_states = range(base)) *)
Definition build_graph (base : nat) (d : gdict) : gerr + graph :=
  match check_unique_names d with
  | Some e => inl e
  | None =>
      let nodes := init_nodes d [] in
      if Nat.eqb (length (filter (fun kv => n_tumor (snd kv)) nodes)) 0 then inl ENoTumor
      else if Nat.eqb (length (filter (fun kv => negb (n_tumor (snd kv))) nodes)) 0 then inl ENoLnl
      else match init_edges (Nat.eqb base 3) nodes d [] with
           | inl e => inl e
           | inr es => inr {| g_base := base; g_nodes := map snd nodes; g_edges := map snd es |}
           end
  end.

(** * Accessors *)
Definition tumors (g : graph) : list string := map n_name (filter n_tumor (g_nodes g)).
Definition lnls (g : graph) : list string := map n_name (filter (fun n => negb (n_tumor n)) (g_nodes g)).
Definition nlnls (g : graph) : nat := length (lnls g).
Definition is_growth (e : edge) : bool := match e_kind e with EGrowth => true | _ => false end.
Definition is_tumor_spread (e : edge) : bool := match e_kind e with ETumor => true | _ => false end.
Definition tumor_edges (g : graph) : list edge := filter is_tumor_spread (g_edges g).
Definition lnl_edges (g : graph) : list edge := filter (fun e => negb (is_tumor_spread e)) (g_edges g).
Definition growth_edges (g : graph) : list edge := filter is_growth (g_edges g).
(** lnl.inc in creation order *)
Definition inc_edges (g : graph) (lnl : string) : list edge :=
  filter (fun e => str_eqb (e_child e) lnl) (g_edges g).
(** node.out (non-growth) in creation order *)
Definition out_children (g : graph) (name : string) : list string :=
  map e_child (filter (fun e => str_eqb (e_parent e) name && negb (is_growth e)) (g_edges g)).

Definition to_dict (g : graph) : list ((string * string) * list string) :=
  map (fun n => ((if n_tumor n then "tumor" else "lnl", n_name n), out_children g (n_name n))) (g_nodes g).

Definition state_list (g : graph) : list state := all_states (g_base g) (nlnls g).

Fixpoint index_of (s : string) (l : list string) : nat :=
  match l with [] => O | a :: r => if str_eqb s a then O else S (index_of s r) end.

(** what the correspondence check prints for a built graph *)
Definition kind_tag (k : ekind) : nat := match k with ETumor => 0 | ELnl => 1 | EGrowth => 2 end.
Definition graph_view (g : graph) :=
  (map (fun n => (n_tumor n, n_name n)) (g_nodes g),
   map (fun e => (e_name e, (e_parent e, e_child e), kind_tag (e_kind e))) (g_edges g),
   map e_name (growth_edges g),
   to_dict g,
   state_list g).
Definition err_tag (e : gerr) : nat :=
  match e with EConnSet => 1 | EDupConn => 2 | ESelfConn => 3 | EDupName => 4 | ENoTumor => 5
             | ENoLnl => 6 | EUnknownNode => 7 | EArcIntoTumor => 8 end.

(** Assign the numeric parameters of edges by edge name (what the keyword form of
    set_params does edge by edge; the plumbing itself is modelled in Params.v). *)
Definition set_edge (ps : list (string * (Qc * Qc))) (e : edge) : edge :=
  match dict_get (e_name e) ps with
  | None => e
  | Some (sp, mi) => {| e_name := e_name e; e_parent := e_parent e; e_child := e_child e;
                        e_kind := e_kind e; e_spread := sp; e_micro := mi |}
  end.
Definition set_edges (g : graph) (ps : list (string * (Qc * Qc))) : graph :=
  {| g_base := g_base g; g_nodes := g_nodes g; g_edges := map (set_edge ps) (g_edges g) |}.
Definition empty_graph : graph := {| g_base := 2; g_nodes := []; g_edges := [] |}.
Definition force_graph (r : gerr + graph) : graph := match r with inr g => g | inl _ => empty_graph end.
