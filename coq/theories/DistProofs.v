(** DistProofs: proofs of the C18 statements (DistStatements.v). *)
From LymphModel Require Import Base States Linalg Graph Dist DistModel DistStatements.
Local Open Scope nat_scope.
Open Scope Qc_scope.

(** * normalize *)
Lemma normalize_length w : length (normalize w) = length w.
Proof. unfold normalize. apply map_length. Qed.

Lemma Qcinv_pos s : 0 < s -> 0 < / s.
Proof.
  unfold Qclt. intros H. unfold Qcinv. cbn [this Q2Qc].
  assert (E : (Qred (/ this s) == / this s)%Q) by apply Qred_correct.
  rewrite E. apply Qinv_lt_0_compat. exact H.
Qed.

Lemma Qc_div_nonneg a s : 0 <= a -> 0 < s -> 0 <= a / s.
Proof.
  intros Ha Hs. unfold Qcdiv.
  assert (Hi : 0 < / s) by (apply Qcinv_pos; exact Hs).
  revert Ha Hi. generalize (/ s). intros i Ha Hi. qc2q.
  revert Ha Hi. generalize (this a) (this i). intros; nra.
Qed.

Lemma normalize_nonneg w : (forall x, In x w -> 0 <= x) -> 0 < sumQ w ->
  forall x, In x (normalize w) -> 0 <= x.
Proof.
  intros Hw Hs x Hx. unfold normalize in Hx. apply in_map_iff in Hx. destruct Hx as [a [<- Ha]].
  apply Qc_div_nonneg; auto.
Qed.

Lemma sumQ_map_div (w : vec) s : sumQ (map (fun a => a / s) w) = sumQ w / s.
Proof.
  induction w as [|a w IH]; cbn [map sumQ].
  - unfold Qcdiv. ring.
  - rewrite IH. unfold Qcdiv. ring.
Qed.

Lemma normalize_sum w : 0 < sumQ w -> sumQ (normalize w) = 1.
Proof.
  intros Hs. unfold normalize. rewrite sumQ_map_div. unfold Qcdiv. apply Qcmult_inv_r.
  intros E. rewrite E in Hs. discriminate.
Qed.

Lemma normalize_is_pmf m w :
  length w = S m -> (forall x, In x w -> 0 <= x) -> 0 < sumQ w -> is_pmf m (normalize w).
Proof.
  intros Hl Hn Hs. split; [rewrite normalize_length; exact Hl|]. split; [apply normalize_nonneg; assumption|].
  apply normalize_sum; exact Hs.
Qed.

(** * The two concrete families are distributions *)
Lemma Qc_mul_nonneg a b : 0 <= a -> 0 <= b -> 0 <= a * b.
Proof. intros Ha Hb. qc2q. revert Ha Hb. generalize (this a) (this b). intros; nra. Qed.
Lemma Qc_mul_pos a b : 0 < a -> 0 < b -> 0 < a * b.
Proof. intros Ha Hb. qc2q. revert Ha Hb. generalize (this a) (this b). intros; nra. Qed.
Lemma Qc_add_nonneg_pos a b : 0 <= a -> 0 < b -> 0 < a + b.
Proof. intros Ha Hb. qc2q. revert Ha Hb. generalize (this a) (this b). intros; lra. Qed.
Lemma Qc_add_pos_nonneg a b : 0 < a -> 0 <= b -> 0 < a + b.
Proof. intros Ha Hb. qc2q. revert Ha Hb. generalize (this a) (this b). intros; lra. Qed.
Lemma Qc_lt_le a b : a < b -> a <= b.
Proof. apply Qclt_le_weak. Qed.

Lemma sumQ_pos_ex l : (forall x, In x l -> 0 <= x) -> (exists x, In x l /\ 0 < x) -> 0 < sumQ l.
Proof.
  induction l as [|a l IH]; intros Hn [x [Hx Hp]]; [destruct Hx|]. cbn [sumQ].
  destruct Hx as [->|Hx].
  - apply Qc_add_pos_nonneg; [exact Hp|]. apply sumQ_nonneg. intros y Hy. apply Hn. right. exact Hy.
  - apply Qc_add_nonneg_pos; [apply Hn; left; reflexivity|].
    apply IH; [intros y Hy; apply Hn; right; exact Hy|]. exists x. split; assumption.
Qed.

Lemma qnat_nonneg n : 0 <= qnat n.
Proof.
  unfold qnat, Qcle. rewrite this0. cbn [this Q2Qc].
  assert (E : (Qred (inject_Z (Z.of_nat n)) == inject_Z (Z.of_nat n))%Q) by apply Qred_correct.
  rewrite E. unfold Qle, inject_Z. cbn [Qnum Qden]. lia.
Qed.
Lemma qnat_1 : qnat 1 = 1.
Proof. apply Qc_is_canon. reflexivity. Qed.
Lemma qnat_0 : qnat 0 = 0.
Proof. apply Qc_is_canon. reflexivity. Qed.

Lemma qpow_nonneg q n : 0 <= q -> 0 <= qpow q n.
Proof. intros Hq. induction n as [|n IH]; cbn [qpow]; [discriminate|]. apply Qc_mul_nonneg; assumption. Qed.
Lemma qpow_pos q n : 0 < q -> 0 < qpow q n.
Proof. intros Hq. induction n as [|n IH]; cbn [qpow]; [reflexivity|]. apply Qc_mul_pos; assumption. Qed.
Lemma qpow_1 n : qpow 1 n = 1.
Proof. induction n as [|n IH]; cbn [qpow]; [reflexivity|]. rewrite IH. ring. Qed.

Lemma binom_n_0 n : binom n 0 = 1%nat.
Proof. destruct n; reflexivity. Qed.
Lemma binom_gt n : forall k, (n < k)%nat -> binom n k = 0%nat.
Proof.
  induction n as [|n IH]; intros k Hk; destruct k as [|k]; try lia; cbn [binom]; [reflexivity|].
  rewrite (IH k), (IH (S k)) by lia. reflexivity.
Qed.
Lemma binom_n_n n : binom n n = 1%nat.
Proof.
  induction n as [|n IH]; [reflexivity|]. cbn [binom]. rewrite IH, (binom_gt n (S n)) by lia. reflexivity.
Qed.

Lemma Some_inj {A} (a b : A) : Some a = Some b -> a = b.
Proof. intros H. injection H. auto. Qed.

Lemma fam_weights_good : W_good fam_weights.
Proof.
  intros f m kw w H. unfold fam_weights in H. destruct f as [|f].
  - set (p := kw_get "p" kw (qc 1 2)) in *.
    destruct (Qc_leb 0 p && Qc_leb p 1) eqn:E; [|discriminate]. apply Some_inj in H. subst w.
    apply andb_prop in E. destruct E as [E0 E1]. apply Qc_leb_spec in E0, E1.
    assert (H1p : 0 <= 1 - p).
    { revert E1. clear. intros E1. qc2q. revert E1. generalize (this p). intros; lra. }
    assert (Hnn : forall x, In x (map (fun k => qnat (binom m k) * qpow p k * qpow (1 - p) (m - k)) (seq 0 (S m))) -> 0 <= x).
    { intros x Hx. apply in_map_iff in Hx. destruct Hx as [k [<- _]].
      apply Qc_mul_nonneg; [apply Qc_mul_nonneg|]; [apply qnat_nonneg|apply qpow_nonneg; exact E0|apply qpow_nonneg; exact H1p]. }
    split; [rewrite map_length, seq_length; reflexivity|]. split; [exact Hnn|].
    apply sumQ_pos_ex; [exact Hnn|].
    destruct (Qc_eq_dec p 1) as [Ep|Ep].
    + exists 1. split; [|reflexivity]. apply in_map_iff. exists m. split.
      * rewrite binom_n_n, qnat_1, Ep, qpow_1, Nat.sub_diag. cbn [qpow]. ring.
      * apply in_seq. lia.
    + exists (qpow (1 - p) m). split.
      * apply in_map_iff. exists 0%nat. split; [|apply in_seq; lia].
        rewrite binom_n_0, qnat_1, Nat.sub_0_r. cbn [qpow]. ring.
      * apply qpow_pos.
        assert (Hlt : p < 1).
        { destruct (Qclt_le_dec p 1) as [Hl|Hl]; [exact Hl|]. exfalso. apply Ep. apply Qcle_antisym; assumption. }
        revert Hlt. clear. intros Hlt. qc2q. revert Hlt. generalize (this p). intros; lra.
  - set (a := kw_get "a" kw (qc 1 2)) in *. set (b := kw_get "b" kw 1) in *.
    destruct (Qc_leb 0 a && Qc_leb a (qc 100 1) && negb (Qc_leb b 0) && Qc_leb b (qc 100 1)) eqn:E; [|discriminate].
    apply Some_inj in H. subst w.
    apply andb_prop in E. destruct E as [E _]. apply andb_prop in E. destruct E as [E Eb].
    apply andb_prop in E. destruct E as [Ea _]. apply Qc_leb_spec in Ea.
    assert (Hb : 0 < b).
    { apply negb_true_iff in Eb. destruct (Qclt_le_dec 0 b) as [Hl|Hl]; [exact Hl|].
      apply Qc_leb_spec in Hl. rewrite Hl in Eb. discriminate. }
    assert (Hpos : forall k, 0 < a * qnat k + b).
    { intros k. apply Qc_add_nonneg_pos; [|exact Hb]. apply Qc_mul_nonneg; [exact Ea|apply qnat_nonneg]. }
    split; [rewrite map_length, seq_length; reflexivity|]. split.
    + intros x Hx. apply in_map_iff in Hx. destruct Hx as [k [<- _]]. apply Qc_lt_le, Hpos.
    + apply sumQ_pos_ex.
      * intros x Hx. apply in_map_iff in Hx. destruct Hx as [k [<- _]]. apply Qc_lt_le, Hpos.
      * exists (a * qnat 0 + b). split; [|apply Hpos]. apply in_map_iff. exists 0%nat. split; [reflexivity|apply in_seq; lia].
Qed.

Lemma W_good_len W : W_good W -> W_len W.
Proof. intros H f m kw w E. apply (H f m kw w E). Qed.

(** * pmf_length, pmf_nonneg, pmf_sum_one, length_mismatch_rejected *)
Lemma weights_okb_spec w : weights_okb w = true -> (forall x, In x w -> 0 <= x) /\ 0 < sumQ w.
Proof.
  unfold weights_okb. intros H. apply andb_prop in H. destruct H as [H1 H2]. split.
  - intros x Hx. rewrite forallb_forall in H1. apply Qc_leb_spec, H1, Hx.
  - apply negb_true_iff in H2. destruct (Qclt_le_dec 0 (sumQ w)) as [Hl|Hl]; [exact Hl|].
    apply Qc_leb_spec in Hl. rewrite Hl in H2. discriminate.
Qed.

Lemma mk_frozen_spec m w d : mk_frozen m w = Some d -> length w = S m /\ d = Frozen (normalize w).
Proof.
  unfold mk_frozen. destruct (Nat.eqb (length w) (S m)) eqn:E; [|discriminate].
  intros H. apply Some_inj in H. apply Nat.eqb_eq in E. auto.
Qed.
Lemma mk_frozen_mismatch m w : length w <> S m -> mk_frozen m w = None.
Proof. intros H. unfold mk_frozen. apply Nat.eqb_neq in H. rewrite H. reflexivity. Qed.

Lemma mk_frozen_is_pmf m w p : weights_okb w = true -> mk_frozen m w = Some (Frozen p) -> is_pmf m p.
Proof.
  intros Hw H. apply mk_frozen_spec in H. destruct H as [Hl E]. injection E as ->.
  apply weights_okb_spec in Hw. destruct Hw. apply normalize_is_pmf; assumption.
Qed.

Lemma pmf_w_param_is_pmf (W : famW) : W_good W -> forall m f kw p, pmf_w W m (Param f kw) = Some p -> is_pmf m p.
Proof.
  intros HW m f kw p H. cbn [pmf_w] in H. destruct (W f m kw) as [w|] eqn:E; [|discriminate].
  cbn [option_map] in H. apply Some_inj in H. subst p. destruct (HW f m kw w E) as [Hl [Hn Hs]].
  apply normalize_is_pmf; assumption.
Qed.

Theorem pmf_length : C18_pmf_length_stmt.
Proof.
  split; [|split; [|split]].
  - intros m w d H. apply mk_frozen_spec in H. destruct H as [Hl ->]. exists (normalize w). split; [reflexivity|].
    rewrite normalize_length. exact Hl.
  - intros W HW m f kw p H. cbn [pmf_w] in H. destruct (W f m kw) as [w|] eqn:E; [|discriminate].
    cbn [option_map] in H. apply Some_inj in H. subst p. rewrite normalize_length. apply (HW f m kw w E).
  - apply W_good_len, fam_weights_good.
  - intros m d. destruct d; reflexivity.
Qed.

Theorem pmf_nonneg : C18_pmf_nonneg_stmt.
Proof.
  split.
  - intros m w p Hw H. apply (mk_frozen_is_pmf m w p Hw H).
  - intros W HW m f kw p H. apply (pmf_w_param_is_pmf W HW m f kw p H).
Qed.

Theorem pmf_sum_one : C18_pmf_sum_one_stmt.
Proof.
  split; [|split].
  - intros m w p Hw H. apply (mk_frozen_is_pmf m w p Hw H).
  - intros W HW m f kw p H. apply (pmf_w_param_is_pmf W HW m f kw p H).
  - exact fam_weights_good.
Qed.

Theorem length_mismatch_rejected : C18_length_mismatch_rejected_stmt.
Proof.
  split; [exact mk_frozen_mismatch|]. split.
  - intros W D s m w kw H. cbn [dist_new]. rewrite (mk_frozen_mismatch m w H). reflexivity.
  - intros W D s m ds ts w H. unfold leaf_set_distribution. cbn [snd dist_new].
    rewrite (mk_frozen_mismatch m w H). reflexivity.
Qed.

(** * set_params_semantics *)
Definition pick (kwargs : list (string * Qc)) (args : list (option Qc)) (ik : nat * (string * Qc)) : string * Qc :=
  (fst (snd ik),
   match dict_get (fst (snd ik)) kwargs with
   | Some x => x
   | None => match nth_error args (fst ik) with Some (Some v) => v | _ => snd (snd ik) end
   end).

Lemma combine_seq_shift {A} (r : list A) : forall k,
  combine (seq (S k) (length r)) r = map (fun ik => (S (fst ik), snd ik)) (combine (seq k (length r)) r).
Proof.
  induction r as [|x r IH]; intros k; [reflexivity|].
  cbn [length seq combine map fst snd]. rewrite IH. reflexivity.
Qed.

Lemma set_kw_is_spec kw : forall args kwargs, set_kw kw args kwargs = set_kw_spec kw args kwargs.
Proof.
  induction kw as [|[name value] r IH]; intros args kwargs.
  - unfold set_kw_spec. cbn [set_kw length seq combine map skipn]. reflexivity.
  - cbn [set_kw]. unfold set_kw_spec. cbv zeta. fold (pick kwargs args).
    cbn [length seq combine map]. rewrite combine_seq_shift, map_map.
    destruct args as [|a args']; cbn [popfirst].
    + rewrite IH. unfold set_kw_spec. cbv zeta. fold (pick kwargs (@nil (option Qc))). cbn [skipn].
      f_equal.
      * f_equal. apply map_ext. intros [i x]. unfold pick. cbn [fst snd].
        destruct i; reflexivity.
      * destruct (length r); reflexivity.
    + rewrite IH. unfold set_kw_spec. cbv beta iota zeta. fold (pick kwargs args'). cbn [skipn].
      reflexivity.
Qed.

Lemma set_kw_ext kw : forall args kwargs kwargs',
  (forall n, In n (map fst kw) -> dict_get n kwargs = dict_get n kwargs') ->
  set_kw kw args kwargs = set_kw kw args kwargs'.
Proof.
  induction kw as [|[name value] r IH]; intros args kwargs kwargs' H; [reflexivity|].
  cbn [set_kw]. destruct (popfirst args) as [first args'].
  rewrite (H name) by (left; reflexivity).
  rewrite (IH args' kwargs kwargs') by (intros n Hn; apply H; right; exact Hn). reflexivity.
Qed.

Theorem set_params_semantics : C18_set_params_semantics_stmt.
Proof.
  split; [intros; apply set_kw_is_spec|]. split; [intros; apply set_kw_ext; assumption|]. split.
  - intros W c f kw args kwargs c' rest Hc H. cbv zeta. unfold cell_set_params in H. rewrite Hc in H.
    rewrite set_kw_is_spec in H. unfold set_kw_spec in H |- *. cbv zeta in H |- *. cbn [fst].
    match type of H with context [W f (c_maxt c) ?k] => set (kw' := k) in * end.
    destruct (W f (c_maxt c) kw') as [w|] eqn:E; [|discriminate].
    injection H as <- <-. cbn [c_dist c_maxt]. split; [reflexivity|]. split; [reflexivity|]. split; [reflexivity|].
    exists w. split; [reflexivity|]. unfold cell_pmf. cbn [c_dist c_maxt]. rewrite E. reflexivity.
  - intros W c p args kwargs Hc. unfold cell_set_params. rewrite Hc. reflexivity.
Qed.

(** * failed_update_restores *)
Lemma cell_set_params_fail (W : famW) c args kwargs c' : cell_set_params W c args kwargs = inl c' -> c' = c.
Proof.
  unfold cell_set_params. destruct (c_dist c) as [p|f kw]; [discriminate|].
  destruct (set_kw kw args kwargs) as [kw' rest]. destruct (W f (c_maxt c) kw'); [discriminate|].
  intros H. injection H as <-. reflexivity.
Qed.

Lemma upd_same {A} (l : list A) : forall i a, nth_error l i = Some a -> upd l i a = l.
Proof.
  induction l as [|x l IH]; intros i a H; [reflexivity|]. destruct i as [|i]; cbn [upd nth_error] in *.
  - injection H as ->. reflexivity.
  - rewrite (IH i a H). reflexivity.
Qed.

Theorem failed_update_restores : C18_failed_update_restores_stmt.
Proof.
  split; [exact cell_set_params_fail|].
  intros W ts args kwargs s t s' t' e H. unfold comp_cell_set_params in H.
  destruct (comp_get_distribution ts t) as [e0|i]; [injection H as <- <- _; auto|].
  destruct (nth_error s i) as [c|] eqn:Ec; [|injection H as <- <- _; auto].
  destruct (cell_set_params W c args kwargs) as [c'|[c' rest]] eqn:Ep; [|discriminate].
  apply cell_set_params_fail in Ep. subst c'. injection H as <- <- _. split; [apply upd_same; exact Ec|reflexivity].
Qed.

(** * store lemmas *)
Lemma upd_length {A} (l : list A) : forall i a, length (upd l i a) = length l.
Proof. induction l as [|x l IH]; intros [|i] a; cbn [upd length]; auto. Qed.
Lemma nth_error_upd_eq {A} (l : list A) : forall i a, (i < length l)%nat -> nth_error (upd l i a) i = Some a.
Proof.
  induction l as [|x l IH]; intros [|i] a H; cbn [upd nth_error length] in *; try lia; [reflexivity|].
  apply IH. lia.
Qed.
Lemma nth_error_upd_neq {A} (l : list A) : forall i j a, i <> j -> nth_error (upd l i a) j = nth_error l j.
Proof.
  induction l as [|x l IH]; intros [|i] [|j] a H; cbn [upd nth_error]; try reflexivity; try congruence.
  apply IH. congruence.
Qed.
Lemma nth_error_lt {A} (l : list A) i a : nth_error l i = Some a -> (i < length l)%nat.
Proof. intros H. apply nth_error_Some. rewrite H. discriminate. Qed.

(** * max_time_reevaluates *)
Scheme ctree_mut := Induction for ctree Sort Prop
  with forest_mut := Induction for forest Sort Prop.
Combined Scheme ctree_forest_ind from ctree_mut, forest_mut.

(** unfolding equations of the traversal *)
Section EachEq.
  Context {X R : Type}.
  Variable lo : X -> store -> nat -> list (string * nat) -> store * leafT * dres R.
  Variable de : list string -> string -> X -> X.
  Lemma each_tree_leaf x s m ds :
    each_tree lo de x s (Leaf m ds)
    = let '(s', (m', ds'), r) := lo x s m ds in
      (s', Leaf m' ds', match r with inl e => inl e | inr v => inr [v] end).
  Proof. reflexivity. Qed.
  Lemma each_tree_nil x s : each_tree lo de x s (Branch FNil) = (s, Branch FNil, inl DAttr).
  Proof. reflexivity. Qed.
  Lemma each_tree_cons x s n t r :
    each_tree lo de x s (Branch (FCons n t r))
    = let '(s', f', r') := each_forest lo de (forest_keys (FCons n t r)) x s (FCons n t r) in (s', Branch f', r').
  Proof. reflexivity. Qed.
  Lemma each_forest_nil keys x s : each_forest lo de keys x s FNil = (s, FNil, inr []).
  Proof. reflexivity. Qed.
  Lemma each_forest_cons keys x s n t r :
    each_forest lo de keys x s (FCons n t r)
    = let '(s1, t1, r1) := each_tree lo de (de keys n x) s t in
      match r1 with
      | inl e => (s1, FCons n t1 r, inl e)
      | inr v1 =>
          let '(s2, r2', r2) := each_forest lo de keys x s1 r in
          (s2, FCons n t1 r2', match r2 with inl e => inl e | inr v2 => inr (v1 ++ v2) end)
      end.
  Proof. reflexivity. Qed.
End EachEq.

Lemma cell_set_maxt_idem c v : cell_set_maxt (cell_set_maxt c v) v = cell_set_maxt c v.
Proof. unfold cell_set_maxt, cell_updateable. cbn [c_dist c_maxt]. reflexivity. Qed.

(** [s'] is [s] with [g] applied to exactly the cells [ids] *)
Definition app_ids (g : cell -> cell) (ids : list nat) (s s' : store) : Prop :=
  length s' = length s
  /\ (forall i, ~ In i ids -> nth_error s' i = nth_error s i)
  /\ (forall i, In i ids -> nth_error s' i = option_map g (nth_error s i)).

Lemma app_ids_nil g s : app_ids g [] s s.
Proof. split; [reflexivity|]. split; [reflexivity|]. intros i []. Qed.

Lemma app_ids_trans g ids1 ids2 s s1 s2 :
  (forall c, g (g c) = g c) ->
  app_ids g ids1 s s1 -> app_ids g ids2 s1 s2 -> app_ids g (ids1 ++ ids2) s s2.
Proof.
  intros Hg [L1 [N1 I1]] [L2 [N2 I2]]. split; [congruence|]. split.
  - intros i Hi. rewrite N2, N1; [reflexivity| |]; intros Hc; apply Hi, in_or_app; auto.
  - intros i Hi. destruct (in_dec Nat.eq_dec i ids2) as [H2|H2].
    + rewrite (I2 i H2). destruct (in_dec Nat.eq_dec i ids1) as [H1|H1].
      * rewrite (I1 i H1). destruct (nth_error s i); cbn [option_map]; [rewrite Hg|]; reflexivity.
      * rewrite (N1 i H1). reflexivity.
    + rewrite (N2 i H2). apply in_app_or in Hi. destruct Hi as [H1|H1]; [|contradiction]. apply I1, H1.
Qed.

Lemma set_cells_maxt_app v ds : forall s, app_ids (fun c => cell_set_maxt c v) (map snd ds) s (set_cells_maxt s v ds).
Proof.
  induction ds as [|[t j] r IH]; intros s; [apply app_ids_nil|].
  cbn [set_cells_maxt map snd].
  change (j :: map snd r) with ([j] ++ map snd r).
  apply app_ids_trans with (s1 := match nth_error s j with Some c => upd s j (cell_set_maxt c v) | None => s end);
    [intros c; apply cell_set_maxt_idem| |apply IH].
  destruct (nth_error s j) as [c|] eqn:E.
  - split; [apply upd_length|]. split.
    + intros i Hi. apply nth_error_upd_neq. intros ->. apply Hi. left. reflexivity.
    + intros i [<-|[]]. rewrite E. cbn [option_map]. apply nth_error_upd_eq. apply (nth_error_lt _ _ _ E).
  - split; [reflexivity|]. split; [reflexivity|]. intros i [<-|[]]. rewrite E. reflexivity.
Qed.

Lemma leaf_set_max_time_nat (v : nat) s m ds :
  leaf_set_max_time (Z.of_nat v) s m ds = (set_cells_maxt s v ds, (v, ds), inr tt).
Proof.
  unfold leaf_set_max_time. assert (E : (Z.of_nat v <? 0)%Z = false) by (apply Z.ltb_ge; lia).
  rewrite E, Nat2Z.id. reflexivity.
Qed.

Lemma each_set_max_time_app (v : nat) :
  (forall t s s' t' r, each_tree leaf_set_max_time same (Z.of_nat v) s t = (s', t', inr r) ->
      tree_ids t' = tree_ids t /\ app_ids (fun c => cell_set_maxt c v) (tree_ids t) s s')
  /\ (forall f keys s s' f' r, each_forest leaf_set_max_time same keys (Z.of_nat v) s f = (s', f', inr r) ->
      forest_ids f' = forest_ids f /\ app_ids (fun c => cell_set_maxt c v) (forest_ids f) s s').
Proof.
  apply ctree_forest_ind.
  - intros m ds s s' t' r H. rewrite each_tree_leaf, leaf_set_max_time_nat in H.
    injection H as <- <- _. cbn [tree_ids]. split; [reflexivity|]. apply set_cells_maxt_app.
  - intros f IH s s' t' r H. destruct f as [|n t rest]; [rewrite each_tree_nil in H; discriminate|].
    rewrite each_tree_cons in H.
    destruct (each_forest leaf_set_max_time same (forest_keys (FCons n t rest)) (Z.of_nat v) s (FCons n t rest))
      as [[s1 f1] r1] eqn:E.
    injection H as <- <- ->. cbn [tree_ids]. apply (IH _ _ _ _ _ E).
  - intros keys s s' f' r H. rewrite each_forest_nil in H. injection H as <- <- _. split; [reflexivity|apply app_ids_nil].
  - intros n t IHt rest IHr keys s s' f' r H. rewrite each_forest_cons in H.
    change (same keys n (Z.of_nat v)) with (Z.of_nat v) in H.
    destruct (each_tree leaf_set_max_time same (Z.of_nat v) s t) as [[s1 t1] r1] eqn:E1.
    destruct r1 as [e|v1]; [discriminate|].
    destruct (each_forest leaf_set_max_time same keys (Z.of_nat v) s1 rest) as [[s2 f2] r2] eqn:E2.
    destruct r2 as [e|v2]; [discriminate|]. injection H as <- <- _.
    destruct (IHt _ _ _ _ E1) as [It At]. destruct (IHr _ _ _ _ _ E2) as [Ir Ar].
    cbn [forest_ids]. split; [rewrite It, Ir; reflexivity|].
    apply app_ids_trans with (s1 := s1); [intros c; apply cell_set_maxt_idem|exact At|exact Ar].
Qed.

Theorem max_time_reevaluates : C18_max_time_reevaluates_stmt.
Proof.
  split; [|split].
  - intros W c f kw v Hc. unfold cell_set_maxt, cell_kw, cell_pmf, cell_updateable. cbn [c_maxt c_dist]. rewrite Hc.
    split; [reflexivity|]. split; reflexivity.
  - intros W HW c f kw v p Hc H. unfold cell_set_maxt, cell_pmf in H. cbn [c_maxt c_dist] in H. rewrite Hc in H.
    destruct (W f v kw) as [w|] eqn:E; [|discriminate]. injection H as <-.
    destruct (HW f v kw w E) as [Hl [Hn Hs]]. apply normalize_is_pmf; assumption.
  - intros v s t s' t' Hlt H. unfold comp_set_max_time in H.
    destruct (each_tree leaf_set_max_time same (Z.of_nat v) s t) as [[s1 t1] r1] eqn:E.
    destruct r1 as [e|l]; [discriminate|]. injection H as <- <-.
    destruct (proj1 (each_set_max_time_app v) _ _ _ _ _ E) as [It [L [N I]]].
    split; [exact It|]. split; [exact L|]. split; [|exact N].
    intros i Hi. destruct (nth_error s i) as [c|] eqn:Ec.
    + exists c. split; [reflexivity|]. rewrite (I i Hi), Ec. reflexivity.
    + exfalso. apply nth_error_None in Ec. specialize (Hlt i Hi). lia.
Qed.

(** * Aliasing discipline: generic lemmas *)
Definition ids_lt (ids : list nat) (n : nat) : Prop := forall i, In i ids -> (i < n)%nat.

Lemma NoDup_app_disj {A} (l1 l2 : list A) : NoDup (l1 ++ l2) -> forall x, In x l1 -> In x l2 -> False.
Proof.
  induction l1 as [|a l1 IH]; intros H x H1 H2; [destruct H1|].
  cbn [app] in H. inversion H as [|? ? Hn Hd]; subst. destruct H1 as [->|H1].
  - apply Hn, in_or_app. right. exact H2.
  - apply (IH Hd x H1 H2).
Qed.
Lemma NoDup_app_l {A} (l1 l2 : list A) : NoDup (l1 ++ l2) -> NoDup l1.
Proof.
  induction l1 as [|a l1 IH]; intros H; [constructor|]. cbn [app] in H. inversion H as [|? ? Hn Hd]; subst.
  constructor; [|apply IH, Hd]. intros Hi. apply Hn, in_or_app. left. exact Hi.
Qed.
Lemma NoDup_app_r {A} (l1 l2 : list A) : NoDup (l1 ++ l2) -> NoDup l2.
Proof.
  induction l1 as [|a l1 IH]; intros H; [exact H|]. cbn [app] in H. inversion H; subst. auto.
Qed.
Lemma NoDup_app_intro {A} (l1 l2 : list A) :
  NoDup l1 -> NoDup l2 -> (forall x, In x l1 -> In x l2 -> False) -> NoDup (l1 ++ l2).
Proof.
  induction l1 as [|a l1 IH]; intros H1 H2 Hd; [exact H2|]. cbn [app]. inversion H1 as [|? ? Hn Hd1]; subst.
  constructor.
  - intros Hi. apply in_app_or in Hi. destruct Hi as [Hi|Hi]; [contradiction|]. apply (Hd a); [left; reflexivity|exact Hi].
  - apply IH; [exact Hd1|exact H2|]. intros x Hx1 Hx2. apply (Hd x); [right; exact Hx1|exact Hx2].
Qed.

Lemma same_off_refl ids s : same_off ids s s.
Proof. intros i _ _. reflexivity. Qed.
Lemma same_off_upd ids s i c : In i ids -> same_off ids s (upd s i c).
Proof. intros Hi j _ Hj. apply nth_error_upd_neq. intros ->. contradiction. Qed.
Lemma same_off_app ids s l : same_off ids s (s ++ l).
Proof. intros i Hi _. apply nth_error_app1. exact Hi. Qed.
Lemma same_off_trans ids s s1 s2 :
  (length s <= length s1)%nat -> same_off ids s s1 -> same_off ids s1 s2 -> same_off ids s s2.
Proof. intros L H1 H2 i Hi Hn. rewrite (H2 i) by (try lia; exact Hn). apply H1; assumption. Qed.
Lemma same_off_incl ids ids' s s' : incl ids ids' -> same_off ids s s' -> same_off ids' s s'.
Proof. intros Hi H i Hl Hn. apply H; [exact Hl|]. intros Hc. apply Hn, Hi, Hc. Qed.

(** what an operation on a region (a leaf, a subtree) owning [ids] may do *)
Definition tree_post (s : store) (ids : list nat) (s' : store) (ids' : list nat) : Prop :=
  (length s <= length s')%nat
  /\ same_off ids s s'
  /\ NoDup ids'
  /\ ids_lt ids' (length s')
  /\ (forall i, In i ids' -> In i ids \/ (length s <= i)%nat).

Lemma tree_post_refl s ids : NoDup ids -> ids_lt ids (length s) -> tree_post s ids s ids.
Proof. intros Hn Hl. split; [lia|]. split; [apply same_off_refl|]. split; [exact Hn|]. split; [exact Hl|]. auto. Qed.

Lemma tree_post_trans s ids s1 ids1 s2 ids2 :
  tree_post s ids s1 ids1 -> tree_post s1 ids1 s2 ids2 -> tree_post s ids s2 ids2.
Proof.
  intros [L1 [O1 [N1 [B1 P1]]]] [L2 [O2 [N2 [B2 P2]]]]. split; [lia|]. split; [|split; [exact N2|split; [exact B2|]]].
  - intros i Hi Hn. rewrite (O2 i); [apply O1; assumption|lia|].
    intros Hc. destruct (P1 i Hc) as [H|H]; [contradiction|lia].
  - intros i Hi. destruct (P2 i Hi) as [H|H]; [|right; lia]. destruct (P1 i H) as [H'|H']; [left; exact H'|right; lia].
Qed.

(** two disjoint regions, one after the other *)
Lemma tree_post_seq s A s1 A' B s2 B' :
  NoDup (A ++ B) -> ids_lt (A ++ B) (length s) ->
  tree_post s A s1 A' -> tree_post s1 B s2 B' -> tree_post s (A ++ B) s2 (A' ++ B').
Proof.
  intros Hnd Hlt [L1 [O1 [N1 [B1 P1]]]] [L2 [O2 [N2 [B2 P2]]]].
  split; [lia|]. split; [|split; [|split]].
  - intros i Hi Hn. rewrite (O2 i); [apply O1; [exact Hi|]|lia|]; intros Hc; apply Hn, in_or_app; auto.
  - apply NoDup_app_intro; [exact N1|exact N2|]. intros x Hx1 Hx2.
    specialize (B1 x Hx1). destruct (P2 x Hx2) as [HB|HB]; [|lia].
    assert (HxB : (x < length s)%nat) by (apply Hlt, in_or_app; right; exact HB).
    destruct (P1 x Hx1) as [HA|HA]; [|lia]. apply (NoDup_app_disj A B Hnd x HA HB).
  - intros i Hi. apply in_app_or in Hi. destruct Hi as [Hi|Hi]; [specialize (B1 i Hi); lia|apply B2, Hi].
  - intros i Hi. apply in_app_or in Hi. destruct Hi as [Hi|Hi].
    + destruct (P1 i Hi) as [H|H]; [left; apply in_or_app; left; exact H|right; exact H].
    + destruct (P2 i Hi) as [H|H]; [left; apply in_or_app; right; exact H|right; lia].
Qed.

Lemma ids_lt_app_l A B n : ids_lt (A ++ B) n -> ids_lt A n.
Proof. intros H i Hi. apply H, in_or_app. left. exact Hi. Qed.
Lemma ids_lt_app_r A B n : ids_lt (A ++ B) n -> ids_lt B n.
Proof. intros H i Hi. apply H, in_or_app. right. exact Hi. Qed.
Lemma ids_lt_mono A n n' : (n <= n')%nat -> ids_lt A n -> ids_lt A n'.
Proof. intros L H i Hi. specialize (H i Hi). lia. Qed.

(** ** the traversal preserves the discipline if the leaf operation does *)
Definition leaf_contract {X R} (lo : X -> store -> nat -> list (string * nat) -> store * leafT * dres R) : Prop :=
  forall x s m ds s' m' ds' r, lo x s m ds = (s', (m', ds'), r) ->
    NoDup (map snd ds) -> ids_lt (map snd ds) (length s) ->
    tree_post s (map snd ds) s' (map snd ds').

Section EachPost.
  Context {X R : Type}.
  Variable lo : X -> store -> nat -> list (string * nat) -> store * leafT * dres R.
  Variable de : list string -> string -> X -> X.
  Hypothesis Hlo : leaf_contract lo.

  Lemma each_post :
    (forall t x s s' t' r, each_tree lo de x s t = (s', t', r) ->
        NoDup (tree_ids t) -> ids_lt (tree_ids t) (length s) -> tree_post s (tree_ids t) s' (tree_ids t'))
    /\ (forall f keys x s s' f' r, each_forest lo de keys x s f = (s', f', r) ->
        NoDup (forest_ids f) -> ids_lt (forest_ids f) (length s) -> tree_post s (forest_ids f) s' (forest_ids f')).
  Proof.
    apply ctree_forest_ind.
    - intros m ds x s s' t' r H Hn Hl. rewrite each_tree_leaf in H.
      destruct (lo x s m ds) as [[s1 [m1 ds1]] r1] eqn:E. injection H as <- <- _.
      cbn [tree_ids] in *. apply (Hlo _ _ _ _ _ _ _ _ E Hn Hl).
    - intros f IH x s s' t' r H Hn Hl. destruct f as [|n t rest].
      + rewrite each_tree_nil in H. injection H as <- <- _. apply tree_post_refl; assumption.
      + rewrite each_tree_cons in H.
        destruct (each_forest lo de (forest_keys (FCons n t rest)) x s (FCons n t rest)) as [[s1 f1] r1] eqn:E.
        injection H as <- <- _. cbn [tree_ids] in *. apply (IH _ _ _ _ _ _ E Hn Hl).
    - intros keys x s s' f' r H Hn Hl. rewrite each_forest_nil in H. injection H as <- <- _.
      apply tree_post_refl; assumption.
    - intros n t IHt rest IHr keys x s s' f' r H Hn Hl. rewrite each_forest_cons in H.
      destruct (each_tree lo de (de keys n x) s t) as [[s1 t1] r1] eqn:E1.
      cbn [forest_ids] in Hn, Hl.
      assert (Pt : tree_post s (tree_ids t) s1 (tree_ids t1)).
      { apply (IHt _ _ _ _ _ E1); [apply (NoDup_app_l _ _ Hn)|apply (ids_lt_app_l _ _ _ Hl)]. }
      assert (Nr : NoDup (forest_ids rest)) by apply (NoDup_app_r _ _ Hn).
      assert (Lr : ids_lt (forest_ids rest) (length s1)).
      { apply ids_lt_mono with (n := length s); [apply Pt|apply (ids_lt_app_r _ _ _ Hl)]. }
      destruct r1 as [e|v1].
      + injection H as <- <- _. cbn [forest_ids]. apply (tree_post_seq s _ s1 _ _ s1 _ Hn Hl Pt).
        apply tree_post_refl; assumption.
      + destruct (each_forest lo de keys x s1 rest) as [[s2 f2] r2] eqn:E2. injection H as <- <- _.
        cbn [forest_ids]. apply (tree_post_seq s _ s1 _ _ s2 _ Hn Hl Pt). apply (IHr _ _ _ _ _ _ E2 Nr Lr).
  Qed.
End EachPost.

(** ** leaf operations respect the discipline *)
Lemma tree_post_same_ids s ids s' :
  length s' = length s -> same_off ids s s' -> NoDup ids -> ids_lt ids (length s) -> tree_post s ids s' ids.
Proof.
  intros L O N B. split; [lia|]. split; [exact O|]. split; [exact N|]. split; [rewrite L; exact B|]. auto.
Qed.

Lemma sync_cells_post m ids : forall it s, incl (map snd it) ids ->
  length (sync_cells s m it) = length s /\ same_off ids s (sync_cells s m it).
Proof.
  induction it as [|[t j] r IH]; intros s Hi; [split; [reflexivity|apply same_off_refl]|].
  cbn [sync_cells].
  assert (Hj : In j ids) by (apply Hi; left; reflexivity).
  assert (Hr : incl (map snd r) ids) by (intros x Hx; apply Hi; right; exact Hx).
  set (s1 := match nth_error s j with
             | Some c => if Nat.eqb (c_maxt c) m then s else upd s j (cell_set_maxt c m)
             | None => s end).
  assert (H1 : length s1 = length s /\ same_off ids s s1).
  { unfold s1. destruct (nth_error s j) as [c|]; [|split; [reflexivity|apply same_off_refl]].
    destruct (Nat.eqb (c_maxt c) m); [split; [reflexivity|apply same_off_refl]|].
    split; [apply upd_length|apply same_off_upd; exact Hj]. }
  destruct H1 as [L1 O1]. destruct (IH s1 Hr) as [L2 O2]. split; [congruence|].
  apply same_off_trans with (s1 := s1); [lia|exact O1|exact O2].
Qed.

Lemma contract_get_max_time : leaf_contract leaf_get_max_time.
Proof.
  intros x s m ds s' m' ds' r H N B. unfold leaf_get_max_time in H. injection H as <- <- <- _.
  destruct (sync_cells_post m (map snd ds) ds s (incl_refl _)) as [L O].
  apply tree_post_same_ids; assumption.
Qed.

Lemma contract_set_max_time : leaf_contract leaf_set_max_time.
Proof.
  intros v s m ds s' m' ds' r H N B. unfold leaf_set_max_time in H.
  destruct (v <? 0)%Z; injection H as <- <- <- _; [apply tree_post_refl; assumption|].
  destruct (set_cells_maxt_app (Z.to_nat v) ds s) as [L [O _]].
  apply tree_post_same_ids; [exact L| |exact N|exact B]. intros i _ Hi. apply O, Hi.
Qed.

Lemma dict_set_ids {V} (k : string) (v : V) : forall d x,
  In x (map snd (dict_set k v d)) -> x = v \/ In x (map snd d).
Proof.
  induction d as [|[k' v'] r IH]; intros x H; cbn [dict_set map snd] in *.
  - destruct H as [<-|[]]. left. reflexivity.
  - destruct (str_eqb k k'); cbn [map snd] in *.
    + destruct H as [<-|H]; [left; reflexivity|right; right; exact H].
    + destruct H as [<-|H]; [right; left; reflexivity|]. destruct (IH x H) as [->|H']; [left; reflexivity|right; right; exact H'].
Qed.
Lemma dict_set_nodup {V} (k : string) (v : V) : forall d,
  NoDup (map snd d) -> ~ In v (map snd d) -> NoDup (map snd (dict_set k v d)).
Proof.
  induction d as [|[k' v'] r IH]; intros N Hv; cbn [dict_set map snd] in *.
  - constructor; [intros []|constructor].
  - inversion N as [|? ? Hn Hd]; subst. destruct (str_eqb k k'); cbn [map snd].
    + constructor; [|exact Hd]. intros Hi. apply Hv. right. exact Hi.
    + constructor.
      * intros Hi. destruct (dict_set_ids k v r v' Hi) as [->|Hi']; [apply Hv; left; reflexivity|contradiction].
      * apply IH; [exact Hd|]. intros Hi. apply Hv. right. exact Hi.
Qed.
Lemma dict_remove_ids {V} (k : string) : forall (d : list (string * V)) x,
  In x (map snd (dict_remove k d)) -> In x (map snd d).
Proof.
  induction d as [|[k' v'] r IH]; intros x H; cbn [dict_remove map snd] in *; [exact H|].
  destruct (str_eqb k k'); cbn [map snd] in *; [right; exact H|].
  destruct H as [<-|H]; [left; reflexivity|right; apply IH, H].
Qed.
Lemma dict_remove_nodup {V} (k : string) : forall (d : list (string * V)),
  NoDup (map snd d) -> NoDup (map snd (dict_remove k d)).
Proof.
  induction d as [|[k' v'] r IH]; intros N; cbn [dict_remove map snd] in *; [exact N|].
  inversion N as [|? ? Hn Hd]; subst. destruct (str_eqb k k'); cbn [map snd]; [exact Hd|].
  constructor; [|apply IH, Hd]. intros Hi. apply Hn, (dict_remove_ids k r v' Hi).
Qed.

Section WithFamilies.
  Variable W : famW.
  Variable D : famD.

  Lemma contract_set_distribution : leaf_contract (leaf_set_distribution W D).
  Proof.
    intros [ts a] s m ds s' m' ds' r H N B. unfold leaf_set_distribution in H. cbn [fst snd] in H.
    destruct (sync_cells_post m (map snd ds) ds s (incl_refl _)) as [L O].
    set (s1 := sync_cells s m ds) in *.
    destruct (dist_new W D s1 a (Some m) []) as [e|c]; injection H as <- <- <- _.
    - apply tree_post_same_ids; assumption.
    - split; [rewrite app_length; lia|]. split; [|split; [|split]].
      + apply same_off_trans with (s1 := s1); [lia|exact O|apply same_off_app].
      + apply dict_set_nodup; [exact N|]. intros Hi. specialize (B _ Hi). lia.
      + intros i Hi. rewrite app_length. cbn [length].
        destruct (dict_set_ids _ _ _ _ Hi) as [->|Hi']; [lia|]. specialize (B _ Hi'). lia.
      + intros i Hi. destruct (dict_set_ids _ _ _ _ Hi) as [->|Hi']; [right; lia|left; exact Hi'].
  Qed.

  Lemma contract_del_distribution : leaf_contract leaf_del_distribution.
  Proof.
    intros ts s m ds s' m' ds' r H N B. unfold leaf_del_distribution in H.
    destruct (dict_get ts ds); injection H as <- <- <- _; [|apply tree_post_refl; assumption].
    split; [lia|]. split; [apply same_off_refl|]. split; [apply dict_remove_nodup, N|]. split.
    - intros i Hi. apply B, (dict_remove_ids _ _ _ Hi).
    - intros i Hi. left. apply (dict_remove_ids _ _ _ Hi).
  Qed.

  Lemma set_many_post : forall items s m ds s' m' ds' r,
    leaf_set_many W D items s m ds = (s', (m', ds'), r) ->
    NoDup (map snd ds) -> ids_lt (map snd ds) (length s) -> tree_post s (map snd ds) s' (map snd ds').
  Proof.
    induction items as [|x items IH]; intros s m ds s' m' ds' r H N B; cbn [leaf_set_many] in H.
    - injection H as <- <- <- _. apply tree_post_refl; assumption.
    - destruct (leaf_set_distribution W D x s m ds) as [[s1 [m1 ds1]] r1] eqn:E.
      pose proof (contract_set_distribution _ _ _ _ _ _ _ _ E N B) as P1.
      destruct r1 as [e|u]; [injection H as <- <- <- _; exact P1|].
      apply tree_post_trans with (s1 := s1) (ids1 := map snd ds1); [exact P1|].
      apply (IH _ _ _ _ _ _ _ H); apply P1.
  Qed.

  Lemma contract_replace_all : leaf_contract (leaf_replace_all W D).
  Proof.
    intros items s m ds s' m' ds' r H N B. unfold leaf_replace_all in H.
    apply tree_post_trans with (s1 := s) (ids1 := map snd (@nil (string * nat))).
    - split; [lia|]. split; [apply same_off_refl|]. cbn [map]. split; [constructor|]. split; intros i [].
    - apply (set_many_post _ _ _ _ _ _ _ _ H); cbn [map]; [constructor|intros i []].
  Qed.

  Lemma contract_clear : leaf_contract leaf_clear.
  Proof.
    intros x s m ds s' m' ds' r H N B. unfold leaf_clear in H. injection H as <- <- <- _.
    split; [lia|]. split; [apply same_off_refl|]. cbn [map]. split; [constructor|]. split; intros i [].
  Qed.

  Lemma params_loop_post ids : forall it split glob args s s' r, incl (map snd it) ids ->
    leaf_params_loop W it split glob args s = (s', r) -> length s' = length s /\ same_off ids s s'.
  Proof.
    induction it as [|[t j] it IH]; intros split glob args s s' r Hi H; cbn [leaf_params_loop] in H.
    - injection H as <- _. split; [reflexivity|apply same_off_refl].
    - assert (Hj : In j ids) by (apply Hi; left; reflexivity).
      assert (Hr : incl (map snd it) ids) by (intros x Hx; apply Hi; right; exact Hx).
      destruct (nth_error s j) as [c|]; [|injection H as <- _; split; [reflexivity|apply same_off_refl]].
      destruct (cell_updateable c); [|apply (IH _ _ _ _ _ _ Hr H)].
      destruct (cell_set_params W c args (dict_update glob (dict_get_or t split []))) as [c'|[c' rest]].
      + injection H as <- _. split; [apply upd_length|apply same_off_upd, Hj].
      + destruct (IH _ _ _ _ _ _ Hr H) as [L O]. rewrite upd_length in L. split; [exact L|].
        apply same_off_trans with (s1 := upd s j c'); [rewrite upd_length; lia|apply same_off_upd, Hj|exact O].
  Qed.

  Lemma contract_set_distribution_params : leaf_contract (leaf_set_distribution_params W).
  Proof.
    intros x s m ds s' m' ds' r H N B. unfold leaf_set_distribution_params in H.
    destruct (unflatten_and_split (snd x) (map fst ds)) as [split glob].
    destruct (leaf_params_loop W ds split glob (fst x) s) as [s1 r1] eqn:E. injection H as <- <- <- _.
    destruct (params_loop_post (map snd ds) _ _ _ _ _ _ _ (incl_refl _) E) as [L O].
    apply tree_post_same_ids; assumption.
  Qed.
End WithFamilies.

(** ** attribute paths *)
Lemma forest_get_put_ids n : forall f c, forest_get n f = Some c ->
  exists pre post, forest_ids f = pre ++ tree_ids c ++ post
                   /\ forall c', forest_ids (forest_put n c' f) = pre ++ tree_ids c' ++ post.
Proof.
  induction f as [|n' t r IH]; intros c H; cbn [forest_get] in H; [discriminate|].
  destruct (str_eqb n n') eqn:E.
  - injection H as ->. exists [], (forest_ids r). split; [reflexivity|].
    intros c'. cbn [forest_put]. rewrite E. reflexivity.
  - destruct (IH c H) as [pre [post [H1 H2]]]. exists (tree_ids t ++ pre), post. split.
    + cbn [forest_ids]. rewrite H1, app_assoc. reflexivity.
    + intros c'. cbn [forest_put]. rewrite E. cbn [forest_ids]. rewrite H2, app_assoc. reflexivity.
Qed.

Lemma get_put_ids : forall p t sub, get_sub p t = Some sub ->
  exists pre post, tree_ids t = pre ++ tree_ids sub ++ post
                   /\ forall sub', tree_ids (put_sub p sub' t) = pre ++ tree_ids sub' ++ post.
Proof.
  induction p as [|n p IH]; intros t sub H; cbn [get_sub] in H.
  - injection H as ->. exists [], []. split; [cbn [app]; rewrite app_nil_r; reflexivity|].
    intros sub'. cbn [put_sub app]. rewrite app_nil_r. reflexivity.
  - destruct t as [m ds|f]; [discriminate|]. destruct (forest_get n f) as [c|] eqn:E; [|discriminate].
    destruct (forest_get_put_ids n f c E) as [pre1 [post1 [F1 F2]]].
    destruct (IH c sub H) as [pre2 [post2 [G1 G2]]].
    exists (pre1 ++ pre2), (post2 ++ post1). split.
    + cbn [tree_ids]. rewrite F1, G1. rewrite <- !app_assoc. reflexivity.
    + intros sub'. cbn [put_sub]. rewrite E. cbn [tree_ids]. rewrite F2, G2. rewrite <- !app_assoc. reflexivity.
Qed.

(** an operation on the subtree at [p] that respects the discipline there respects it on the whole tree *)
Lemma at_path_post {R} (op : store -> ctree -> store * ctree * dres R) :
  (forall s sub s' sub' r, op s sub = (s', sub', r) -> NoDup (tree_ids sub) -> ids_lt (tree_ids sub) (length s) ->
     tree_post s (tree_ids sub) s' (tree_ids sub')) ->
  forall p s t s' t' r, at_path p op s t = (s', t', r) ->
    NoDup (tree_ids t) -> ids_lt (tree_ids t) (length s) ->
    tree_post s (tree_ids t) s' (tree_ids t') /\ same_off (sub_ids p t) s s'.
Proof.
  intros Hop p s t s' t' r H N B. unfold at_path in H. unfold sub_ids.
  destruct (get_sub p t) as [sub|] eqn:E.
  - destruct (get_put_ids p t sub E) as [pre [post [I1 I2]]].
    destruct (op s sub) as [[s1 sub1] r1] eqn:Eo. injection H as <- <- _.
    rewrite I1 in N, B.
    assert (Ps : tree_post s (tree_ids sub) s1 (tree_ids sub1)).
    { apply (Hop _ _ _ _ _ Eo); [apply (NoDup_app_l _ _ (NoDup_app_r _ _ N))|apply (ids_lt_app_l _ _ _ (ids_lt_app_r _ _ _ B))]. }
    split; [|apply Ps].
    rewrite I1, I2.
    apply (tree_post_seq s pre s (pre) (tree_ids sub ++ post) s1 (tree_ids sub1 ++ post) N B).
    + apply tree_post_refl; [apply (NoDup_app_l _ _ N)|apply (ids_lt_app_l _ _ _ B)].
    + apply (tree_post_seq s _ s1 _ _ s1 _ (NoDup_app_r _ _ N) (ids_lt_app_r _ _ _ B) Ps).
      apply tree_post_refl; [apply (NoDup_app_r _ _ (NoDup_app_r _ _ N))|].
      apply ids_lt_mono with (n := length s); [apply Ps|apply (ids_lt_app_r _ _ _ (ids_lt_app_r _ _ _ B))].
  - injection H as <- <- _. split; [apply tree_post_refl; assumption|apply same_off_refl].
Qed.

(** the composite operations *)
Section CompPost.
  Variable W : famW.
  Variable D : famD.

  Ltac comp_post lem :=
    let s := fresh "s" in let sub := fresh "sub" in let s' := fresh "s'" in let sub' := fresh "sub'" in
    let r := fresh "r" in let H := fresh "H" in let N := fresh "N" in let B := fresh "B" in
    intros s sub s' sub' r H N B;
    match type of H with
    | context [each_tree ?lo ?de ?x ?s0 ?t0] =>
        let E := fresh "E" in destruct (each_tree lo de x s0 t0) as [[? ?] ?] eqn:E; injection H as <- <- _;
        apply (proj1 (each_post _ _ lem) _ _ _ _ _ _ E N B)
    end.

  Lemma post_get_max_time : forall s sub s' sub' r, comp_get_max_time s sub = (s', sub', r) ->
    NoDup (tree_ids sub) -> ids_lt (tree_ids sub) (length s) -> tree_post s (tree_ids sub) s' (tree_ids sub').
  Proof. unfold comp_get_max_time. comp_post contract_get_max_time. Qed.
  Lemma post_set_max_time v : forall s sub s' sub' r, comp_set_max_time v s sub = (s', sub', r) ->
    NoDup (tree_ids sub) -> ids_lt (tree_ids sub) (length s) -> tree_post s (tree_ids sub) s' (tree_ids sub').
  Proof. unfold comp_set_max_time. comp_post contract_set_max_time. Qed.
  Lemma post_set_distribution ts a : forall s sub s' sub' r, comp_set_distribution W D ts a s sub = (s', sub', r) ->
    NoDup (tree_ids sub) -> ids_lt (tree_ids sub) (length s) -> tree_post s (tree_ids sub) s' (tree_ids sub').
  Proof. unfold comp_set_distribution. comp_post (contract_set_distribution W D). Qed.
  Lemma post_del_distribution ts : forall s sub s' sub' r, comp_del_distribution ts s sub = (s', sub', r) ->
    NoDup (tree_ids sub) -> ids_lt (tree_ids sub) (length s) -> tree_post s (tree_ids sub) s' (tree_ids sub').
  Proof. unfold comp_del_distribution. comp_post contract_del_distribution. Qed.
  Lemma post_replace_all items : forall s sub s' sub' r, comp_replace_all W D items s sub = (s', sub', r) ->
    NoDup (tree_ids sub) -> ids_lt (tree_ids sub) (length s) -> tree_post s (tree_ids sub) s' (tree_ids sub').
  Proof. unfold comp_replace_all. comp_post (contract_replace_all W D). Qed.
  Lemma post_clear : forall s sub s' sub' r, comp_clear s sub = (s', sub', r) ->
    NoDup (tree_ids sub) -> ids_lt (tree_ids sub) (length s) -> tree_post s (tree_ids sub) s' (tree_ids sub').
  Proof. unfold comp_clear. comp_post contract_clear. Qed.
  Lemma post_set_distribution_params args kwargs : forall s sub s' sub' r,
    comp_set_distribution_params W args kwargs s sub = (s', sub', r) ->
    NoDup (tree_ids sub) -> ids_lt (tree_ids sub) (length s) -> tree_post s (tree_ids sub) s' (tree_ids sub').
  Proof. unfold comp_set_distribution_params. comp_post (contract_set_distribution_params W). Qed.
End CompPost.

(** ** every step preserves the discipline and stays inside its footprint *)
Lemma wf_world_update (w : world) s' t' :
  wf_world w -> tree_post (w_store w) (tree_ids (w_tree w)) s' (tree_ids t') ->
  wf_world {| w_store := s'; w_tree := t'; w_objs := w_objs w |}.
Proof.
  intros [[N B] Ho] [L [O [N' [B' P]]]]. split; [split; assumption|]. cbn [w_store w_tree w_objs].
  intros k i Hk. destruct (Ho k i Hk) as [Hi Hn]. split; [lia|].
  intros Hc. destruct (P i Hc) as [H|H]; [contradiction|lia].
Qed.

Lemma first_leaf_ids : forall t m ds, first_leaf t = Some (m, ds) -> incl (map snd ds) (tree_ids t).
Proof.
  fix IH 1. intros t m ds H. destruct t as [m0 ds0|f]; cbn [first_leaf] in H.
  - injection H as <- <-. cbn [tree_ids]. apply incl_refl.
  - destruct f as [|n t' r]; [discriminate|]. cbn [tree_ids forest_ids]. intros x Hx.
    apply in_or_app. left. apply (IH t' m ds H x Hx).
Qed.

Lemma dict_get_in {V} (k : string) : forall (d : list (string * V)) v, dict_get k d = Some v -> In v (map snd d).
Proof.
  induction d as [|[k' v'] r IH]; intros v H; cbn [dict_get] in H; [discriminate|].
  destruct (str_eqb k k'); [injection H as ->; left; reflexivity|right; apply IH, H].
Qed.

Lemma comp_get_distribution_in ts t i : comp_get_distribution ts t = inr i -> In i (tree_ids t).
Proof.
  unfold comp_get_distribution. destruct (first_leaf t) as [[m ds]|] eqn:E; [|discriminate].
  destruct (dict_get ts ds) as [j|] eqn:Eg; [|discriminate]. intros H. injection H as <-.
  apply (first_leaf_ids t m ds E), (dict_get_in ts ds j Eg).
Qed.

Lemma cell_set_params_effect (W : famW) ts args kwargs s sub s' sub' r :
  comp_cell_set_params W ts args kwargs s sub = (s', sub', r) ->
  sub' = sub /\ length s' = length s
  /\ same_off (match comp_get_distribution ts sub with inr i => [i] | inl _ => [] end) s s'.
Proof.
  unfold comp_cell_set_params. destruct (comp_get_distribution ts sub) as [e|i].
  - intros H. injection H as <- <- _. split; [reflexivity|]. split; [reflexivity|apply same_off_refl].
  - destruct (nth_error s i) as [c|]; [|intros H; injection H as <- <- _; split; [reflexivity|]; split; [reflexivity|apply same_off_refl]].
    destruct (cell_set_params W c args kwargs) as [c'|[c' rest]]; intros H; injection H as <- <- _;
      (split; [reflexivity|]; split; [apply upd_length|apply same_off_upd; left; reflexivity]).
Qed.

Lemma same_off_nil_incl ids s s' : same_off [] s s' -> same_off ids s s'.
Proof. apply same_off_incl. intros x []. Qed.

Section StepWf.
  Variable W : famW.
  Variable D : famD.

  (** tree operations, packaged *)
  Lemma lift_tree_op {R} (w : world) (f : R -> oval) p (op : store -> ctree -> store * ctree * dres R) :
    (forall s sub s' sub' r, op s sub = (s', sub', r) -> NoDup (tree_ids sub) -> ids_lt (tree_ids sub) (length s) ->
       tree_post s (tree_ids sub) s' (tree_ids sub')) ->
    wf_world w ->
    let w' := fst (lift w f (at_path p op (w_store w) (w_tree w))) in
    wf_world w' /\ (length (w_store w) <= length (w_store w'))%nat
    /\ same_off (sub_ids p (w_tree w)) (w_store w) (w_store w').
  Proof.
    intros Hop Hw. destruct (at_path p op (w_store w) (w_tree w)) as [[s' t'] r] eqn:E.
    destruct Hw as [[N B] Ho].
    destruct (at_path_post op Hop p _ _ _ _ _ E N B) as [P O].
    cbn [lift fst w_store]. split; [|split; [apply P|exact O]].
    apply (wf_world_update w s' t'); [split; [split|]; assumption|exact P].
  Qed.

  Lemma objs_snoc_none (w : world) :
    wf_world w -> wf_world {| w_store := w_store w; w_tree := w_tree w; w_objs := w_objs w ++ [None] |}.
  Proof.
    intros [Ht Ho]. split; [exact Ht|]. cbn [w_store w_tree w_objs]. intros k i Hk.
    destruct (Nat.lt_ge_cases k (length (w_objs w))) as [Hl|Hl].
    - rewrite nth_error_app1 in Hk by exact Hl. apply (Ho k i Hk).
    - rewrite nth_error_app2 in Hk by exact Hl. destruct (k - length (w_objs w))%nat as [|[|n]]; cbn in Hk; discriminate.
  Qed.

  Lemma wf_same_len (w : world) s' :
    wf_world w -> length s' = length (w_store w) ->
    wf_world {| w_store := s'; w_tree := w_tree w; w_objs := w_objs w |}.
  Proof.
    intros [[N B] Ho] L. split; [split; [exact N|]|]; cbn [w_store w_tree w_objs].
    - intros i Hi. rewrite L. apply B, Hi.
    - intros k i Hk. rewrite L. apply (Ho k i Hk).
  Qed.

  Lemma world_eta (w : world) : {| w_store := w_store w; w_tree := w_tree w; w_objs := w_objs w |} = w.
  Proof. destruct w; reflexivity. Qed.

  Theorem step_wf_frame (w : world) (o : op) : wf_world w ->
    wf_world (fst (step W D w o))
    /\ (length (w_store w) <= length (w_store (fst (step W D w o))))%nat
    /\ same_off (footprint w o) (w_store w) (w_store (fst (step W D w o))).
  Proof.
    intros Hw.
    assert (Hsame : wf_world w /\ (length (w_store w) <= length (w_store w))%nat
                    /\ forall ids, same_off ids (w_store w) (w_store w)).
    { split; [exact Hw|]. split; [lia|]. intros ids. apply same_off_refl. }
    destruct o as [a mt kw|k args kwargs|k v|p ts a|p ts|p items|p|p v|p|p args kwargs|p ts args kwargs];
      cbn [step footprint].
    - (* ONew *)
      destruct (resolve (w_objs w) a) as [a'|]; [|cbn [fst]; split; [apply Hsame|split; [lia|apply same_off_refl]]].
      destruct (dist_new W D (w_store w) a' mt kw) as [e|c]; cbn [fst w_store].
      + split; [apply objs_snoc_none, Hw|]. split; [lia|apply same_off_refl].
      + split; [|split; [rewrite app_length; lia|apply same_off_app]].
        destruct Hw as [[N B] Ho]. split; [split; [exact N|]|]; cbn [w_store w_tree w_objs].
        * intros i Hi. rewrite app_length. specialize (B i Hi). lia.
        * intros k i Hk. rewrite app_length. cbn [length].
          destruct (Nat.lt_ge_cases k (length (w_objs w))) as [Hl|Hl].
          -- rewrite nth_error_app1 in Hk by exact Hl. destruct (Ho k i Hk). split; [lia|assumption].
          -- rewrite nth_error_app2 in Hk by exact Hl.
             destruct (k - length (w_objs w))%nat as [|[|n]]; cbn in Hk; try discriminate.
             injection Hk as <-. split; [lia|]. intros Hc. specialize (B _ Hc). lia.
    - (* OObjSetParams *)
      destruct (nth_error (w_objs w) k) as [[i|]|]; try (cbn [fst]; split; [apply Hsame|split; [lia|apply same_off_refl]]).
      destruct (nth_error (w_store w) i) as [c|]; [|cbn [fst]; split; [apply Hsame|split; [lia|apply same_off_refl]]].
      destruct (cell_set_params W c args kwargs) as [c'|[c' rest]]; cbn [fst w_store];
        (split; [apply wf_same_len; [exact Hw|apply upd_length]|split; [rewrite upd_length; lia|apply same_off_upd; left; reflexivity]]).
    - (* OObjSetMaxTime *)
      destruct (nth_error (w_objs w) k) as [[i|]|]; try (cbn [fst]; split; [apply Hsame|split; [lia|apply same_off_refl]]).
      destruct (nth_error (w_store w) i) as [c|]; [|cbn [fst]; split; [apply Hsame|split; [lia|apply same_off_refl]]].
      destruct (v <? 0)%Z; cbn [fst w_store]; [split; [apply Hsame|split; [lia|apply same_off_refl]]|].
      split; [apply wf_same_len; [exact Hw|apply upd_length]|split; [rewrite upd_length; lia|apply same_off_upd; left; reflexivity]].
    - (* OSetDist *)
      destruct (resolve (w_objs w) a) as [a'|]; [|cbn [fst]; split; [apply Hsame|split; [lia|apply same_off_refl]]].
      apply lift_tree_op; [apply post_set_distribution|exact Hw].
    - apply lift_tree_op; [apply post_del_distribution|exact Hw].
    - destruct (resolve_items (w_objs w) items) as [items'|]; [|cbn [fst]; split; [apply Hsame|split; [lia|apply same_off_refl]]].
      apply lift_tree_op; [apply post_replace_all|exact Hw].
    - apply lift_tree_op; [apply post_clear|exact Hw].
    - apply lift_tree_op; [apply post_set_max_time|exact Hw].
    - apply lift_tree_op; [apply post_get_max_time|exact Hw].
    - apply lift_tree_op; [apply post_set_distribution_params|exact Hw].
    - (* OCellSetParams *)
      unfold at_path. destruct (get_sub p (w_tree w)) as [sub|] eqn:E;
        [|cbn [lift fst w_store]; rewrite world_eta; split; [apply Hsame|split; [lia|apply same_off_refl]]].
      destruct (comp_cell_set_params W ts args kwargs (w_store w) sub) as [[s' sub'] r] eqn:Ec.
      destruct (cell_set_params_effect W _ _ _ _ _ _ _ _ Ec) as [-> [L O]].
      cbn [lift fst w_store]. split; [|split; [lia|exact O]].
      destruct (get_put_ids p _ _ E) as [pre [post [I1 I2]]].
      destruct Hw as [[N B] Ho]. split; [split|]; cbn [w_store w_tree w_objs].
      + rewrite I2, <- I1. exact N.
      + intros i Hi. rewrite I2, <- I1 in Hi. rewrite L. apply B, Hi.
      + intros k i Hk. rewrite L, I2, <- I1. apply (Ho k i Hk).
  Qed.
End StepWf.

(** ** set_distribution: fresh cells in every leaf, no existing cell touched *)
Lemma str_eqb_refl x : str_eqb x x = true.
Proof. apply String.eqb_refl. Qed.
Lemma dict_get_set_same {V} (k : string) (v : V) : forall d, dict_get k (dict_set k v d) = Some v.
Proof.
  induction d as [|[k' v'] r IH]; cbn [dict_set dict_get]; [rewrite str_eqb_refl; reflexivity|].
  destruct (str_eqb k k') eqn:E; cbn [dict_get]; [rewrite str_eqb_refl; reflexivity|]. rewrite E. exact IH.
Qed.
Lemma dict_get_set_other {V} (k k0 : string) (v : V) : k0 <> k -> forall d, dict_get k0 (dict_set k v d) = dict_get k0 d.
Proof.
  intros Hne. assert (Hf : str_eqb k0 k = false) by (apply String.eqb_neq; exact Hne).
  induction d as [|[k' v'] r IH]; cbn [dict_set dict_get]; [rewrite Hf; reflexivity|].
  destruct (str_eqb k k') eqn:E; cbn [dict_get].
  - apply String.eqb_eq in E. subst k'. rewrite Hf. reflexivity.
  - destruct (str_eqb k0 k'); [reflexivity|exact IH].
Qed.

Lemma sync_cells_synced m : forall ds s,
  (forall ts i c, In (ts, i) ds -> nth_error s i = Some c -> c_maxt c = m) -> sync_cells s m ds = s.
Proof.
  induction ds as [|[t j] r IH]; intros s H; [reflexivity|]. cbn [sync_cells].
  destruct (nth_error s j) as [c|] eqn:E.
  - rewrite (H t j c (or_introl eq_refl) E), Nat.eqb_refl. apply IH. intros ts i c' Hi. apply (H ts i c'). right. exact Hi.
  - apply IH. intros ts i c' Hi. apply (H ts i c'). right. exact Hi.
Qed.

Definition prefix_same (s s' : store) : Prop := forall i, (i < length s)%nat -> nth_error s' i = nth_error s i.

Lemma synced_prefix :
  (forall t s s1, prefix_same s s1 -> ids_lt (tree_ids t) (length s) -> synced s t -> synced s1 t)
  /\ (forall f s s1, prefix_same s s1 -> ids_lt (forest_ids f) (length s) -> synced_forest s f -> synced_forest s1 f).
Proof.
  apply ctree_forest_ind.
  - intros m ds s s1 P B H. cbn [synced tree_ids] in *. intros ts i c Hi Hn.
    assert (Hl : (i < length s)%nat) by (apply B; apply (in_map snd ds (ts, i) Hi)).
    rewrite (P i Hl) in Hn. apply (H ts i c Hi Hn).
  - intros f IH s s1 P B H. cbn [synced synced_forest tree_ids] in *. apply (IH s s1 P B H).
  - intros s s1 _ _ _. exact I.
  - intros n t IHt r IHr s s1 P B H. cbn [synced synced_forest forest_ids] in *. destruct H as [Ht Hr]. split.
    + apply (IHt s s1 P (ids_lt_app_l _ _ _ B) Ht).
    + apply (IHr s s1 P (ids_lt_app_r _ _ _ B) Hr).
Qed.

Definition fresh_leaf (ts : string) (n : nat) (l : nat * list (string * nat)) : Prop :=
  exists i, dict_get ts (snd l) = Some i /\ (n <= i)%nat.

Section SetDist.
  Variable W : famW.
  Variable D : famD.
  Variable ts : string.
  Variable a : darg.

  Lemma each_set_dist :
    (forall t s s' t' r, each_tree (leaf_set_distribution W D) same (ts, a) s t = (s', t', inr r) ->
        (length s <= length s')%nat /\ Forall (fresh_leaf ts (length s)) (show_tree t')
        /\ (ids_lt (tree_ids t) (length s) -> synced s t -> prefix_same s s'))
    /\ (forall f keys s s' f' r, each_forest (leaf_set_distribution W D) same keys (ts, a) s f = (s', f', inr r) ->
        (length s <= length s')%nat /\ Forall (fresh_leaf ts (length s)) (show_forest f')
        /\ (ids_lt (forest_ids f) (length s) -> synced_forest s f -> prefix_same s s')).
  Proof.
    apply ctree_forest_ind.
    - intros m ds s s' t' r H. rewrite each_tree_leaf in H. unfold leaf_set_distribution in H. cbn [fst snd] in H.
      destruct (sync_cells_post m (map snd ds) ds s (incl_refl _)) as [L O].
      destruct (dist_new W D (sync_cells s m ds) a (Some m) []) as [e|c]; [discriminate|].
      injection H as <- <- _. split; [rewrite app_length; lia|]. split.
      + cbn [show_tree]. constructor; [|constructor]. exists (length (sync_cells s m ds)). cbn [snd].
        split; [apply dict_get_set_same|lia].
      + intros B Hs. cbn [synced] in Hs. rewrite (sync_cells_synced m ds s Hs). intros i Hi.
        apply nth_error_app1. exact Hi.
    - intros f IH s s' t' r H. destruct f as [|n t rest]; [rewrite each_tree_nil in H; discriminate|].
      rewrite each_tree_cons in H.
      destruct (each_forest (leaf_set_distribution W D) same (forest_keys (FCons n t rest)) (ts, a) s (FCons n t rest))
        as [[s1 f1] r1] eqn:E.
      injection H as <- <- ->. cbn [show_tree tree_ids synced]. apply (IH _ _ _ _ _ E).
    - intros keys s s' f' r H. rewrite each_forest_nil in H. injection H as <- <- _.
      split; [lia|]. split; [constructor|]. intros _ _ i _. reflexivity.
    - intros n t IHt rest IHr keys s s' f' r H. rewrite each_forest_cons in H.
      change (same keys n (ts, a)) with (ts, a) in H.
      destruct (each_tree (leaf_set_distribution W D) same (ts, a) s t) as [[s1 t1] r1] eqn:E1.
      destruct r1 as [e|v1]; [discriminate|].
      destruct (each_forest (leaf_set_distribution W D) same keys (ts, a) s1 rest) as [[s2 f2] r2] eqn:E2.
      destruct r2 as [e|v2]; [discriminate|]. injection H as <- <- _.
      destruct (IHt _ _ _ _ E1) as [L1 [F1 P1]]. destruct (IHr _ _ _ _ _ E2) as [L2 [F2 P2]].
      split; [lia|]. split.
      + cbn [show_forest]. apply Forall_app. split; [exact F1|].
        apply (Forall_impl _ (P := fresh_leaf ts (length s1))); [|exact F2].
        intros l [i [Hg Hi]]. exists i. split; [exact Hg|lia].
      + cbn [forest_ids synced_forest]. intros B [St Sr].
        assert (Pt : prefix_same s s1) by (apply P1; [apply (ids_lt_app_l _ _ _ B)|exact St]).
        assert (Pr : prefix_same s1 s2).
        { apply P2; [apply ids_lt_mono with (n := length s); [exact L1|apply (ids_lt_app_r _ _ _ B)]|].
          apply (proj2 synced_prefix rest s s1 Pt (ids_lt_app_r _ _ _ B) Sr). }
        intros i Hi. rewrite (Pr i) by lia. apply Pt, Hi.
  Qed.
End SetDist.

(** ** keywords addressed to one T-stage *)
Lemma set_kw_nil kw : set_kw kw [] [] = (kw, []).
Proof. induction kw as [|[n v] r IH]; [reflexivity|]. cbn [set_kw popfirst dict_get]. rewrite IH. reflexivity. Qed.
Lemma set_kw_nil_rest kw kwargs : snd (set_kw kw [] kwargs) = [].
Proof.
  induction kw as [|[n v] r IH]; [reflexivity|]. cbn [set_kw popfirst].
  destruct (set_kw r [] kwargs) as [r' rest]. cbn [snd] in *. exact IH.
Qed.

Lemma cell_set_params_nil_rest (W : famW) c kwargs c' rest :
  cell_set_params W c [] kwargs = inr (c', rest) -> rest = [].
Proof.
  unfold cell_set_params. destruct (c_dist c) as [p|f kw]; [intros H; injection H as _ <-; reflexivity|].
  pose proof (set_kw_nil_rest kw kwargs) as Hr. destruct (set_kw kw [] kwargs) as [kw' rest']. cbn [snd] in Hr. subst rest'.
  destruct (W f (c_maxt c) kw'); [|discriminate]. intros H. injection H as _ <-. reflexivity.
Qed.
Lemma cell_set_params_noop (W : famW) c :
  cell_set_params W c [] [] = inl c \/ cell_set_params W c [] [] = inr (c, []).
Proof.
  unfold cell_set_params. destruct c as [m d st]. cbn [c_dist c_maxt c_stale]. destruct d as [p|f kw]; [right; reflexivity|].
  rewrite set_kw_nil. destruct (W f m kw); [right|left]; reflexivity.
Qed.

Lemma mem_In x : forall l, In x l -> mem x l = true.
Proof.
  induction l as [|y l IH]; intros H; [destruct H|]. cbn [mem]. destruct H as [->|H].
  - rewrite str_eqb_refl. reflexivity.
  - rewrite (IH H). apply orb_true_r.
Qed.

Lemma unflatten_acc_target ts expected : mem ts expected = true ->
  forall kwargs split glob,
  (forall key v, In (key, v) kwargs -> fst (partition_us key) = ts) ->
  glob = [] -> (forall t, t <> ts -> dict_get t split = None) ->
  snd (unflatten_acc kwargs expected split glob) = []
  /\ forall t, t <> ts -> dict_get t (fst (unflatten_acc kwargs expected split glob)) = None.
Proof.
  intros Hm. induction kwargs as [|[key v] r IH]; intros split glob Hk Hg Hs; cbn [unflatten_acc].
  - cbn [fst snd]. auto.
  - pose proof (Hk key v (or_introl eq_refl)) as Hp. destruct (partition_us key) as [lft rgt]. cbn [fst] in Hp. subst lft.
    rewrite Hm. apply IH; [intros k' v' Hi; apply (Hk k' v'); right; exact Hi|exact Hg|].
    intros t Ht. rewrite dict_get_set_other by exact Ht. apply Hs, Ht.
Qed.

Lemma params_loop_target (W : famW) ts split :
  (forall t, t <> ts -> dict_get t split = None) ->
  forall it s s' r i, (forall t, In (t, i) it -> t <> ts) ->
  leaf_params_loop W it split [] [] s = (s', r) -> nth_error s' i = nth_error s i.
Proof.
  intros Hs. induction it as [|[t j] it IH]; intros s s' r i Hi H; cbn [leaf_params_loop] in H.
  - injection H as <- _. reflexivity.
  - assert (Hi' : forall t0, In (t0, i) it -> t0 <> ts) by (intros t0 H0; apply Hi; right; exact H0).
    destruct (nth_error s j) as [c|] eqn:Ec; [|injection H as <- _; reflexivity].
    destruct (cell_updateable c); [|apply (IH _ _ _ _ Hi' H)].
    destruct (Nat.eq_dec j i) as [->|Hne].
    + assert (Ht : t <> ts) by (apply Hi; left; reflexivity).
      unfold dict_get_or in H. rewrite (Hs t Ht) in H. cbn [dict_update] in H.
      destruct (cell_set_params_noop W c) as [E|E]; rewrite E in H.
      * injection H as <- _. rewrite (upd_same _ _ _ Ec). reflexivity.
      * rewrite (upd_same _ _ _ Ec) in H. apply (IH _ _ _ _ Hi' H).
    + destruct (cell_set_params W c [] (dict_update [] (dict_get_or t split []))) as [c'|[c' rest]] eqn:E.
      * injection H as <- _. apply nth_error_upd_neq. exact Hne.
      * apply cell_set_params_nil_rest in E. subst rest. rewrite (IH _ _ _ _ Hi' H).
        apply nth_error_upd_neq. exact Hne.
Qed.

Lemma nodup_snd_unique {A} : forall (d : list (A * nat)) a b i,
  NoDup (map snd d) -> In (a, i) d -> In (b, i) d -> a = b.
Proof.
  induction d as [|[x j] d IH]; intros a b i N Ha Hb; [destruct Ha|]. cbn [map snd] in N.
  inversion N as [|? ? Hn Hd]; subst. destruct Ha as [Ha|Ha]; destruct Hb as [Hb|Hb].
  - congruence.
  - injection Ha as -> ->. exfalso. apply Hn. apply (in_map snd d (b, i) Hb).
  - injection Hb as -> ->. exfalso. apply Hn. apply (in_map snd d (a, i) Ha).
  - apply (IH a b i Hd Ha Hb).
Qed.

Theorem copies_are_independent : C18_copies_are_independent_stmt.
Proof.
  split; [|split].
  - intros W D w o Hw. apply step_wf_frame, Hw.
  - intros W D ts a s t s' t' [N B] H. unfold comp_set_distribution in H.
    destruct (each_tree (leaf_set_distribution W D) same (ts, a) s t) as [[s1 t1] r1] eqn:E.
    destruct r1 as [e|l]; [discriminate|]. injection H as <- <-.
    destruct (proj1 (each_post _ _ (contract_set_distribution W D)) _ _ _ _ _ _ E N B) as [_ [_ [N' [B' _]]]].
    destruct (proj1 (each_set_dist W D ts a) _ _ _ _ _ E) as [_ [F P]].
    split; [split; assumption|]. split; [exact F|]. intros Hs. apply (P B Hs).
  - intros W s m ds ts kwargs s' l r N Hk Hts H t i Hi Hne.
    unfold leaf_set_distribution_params in H. cbn [fst snd] in H. unfold unflatten_and_split in H.
    destruct (unflatten_acc_target ts (map fst ds) (mem_In ts _ Hts) kwargs [] [] Hk eq_refl (fun t _ => eq_refl)) as [Hg Hsp].
    destruct (unflatten_acc kwargs (map fst ds) [] []) as [split glob]. cbn [fst snd] in Hg, Hsp. subst glob.
    destruct (leaf_params_loop W ds split [] [] s) as [s1 r1] eqn:E. injection H as <- _ _.
    apply (params_loop_target W ts split Hsp ds s s1 r1 i); [|exact E].
    intros t0 H0. rewrite (nodup_snd_unique ds t0 t i N H0 Hi). exact Hne.
Qed.

(** * Every Distribution object stays normalised along every history *)
Definition cell_inv (c : cell) : Prop :=
  match c_dist c with
  | Frozen p => c_stale c = false -> is_pmf (c_maxt c) p
  | Param _ _ => True
  end.
Definition store_inv (s : store) : Prop := Forall cell_inv s.

Lemma Forall_upd {A} (P : A -> Prop) : forall l i a, Forall P l -> P a -> Forall P (upd l i a).
Proof.
  induction l as [|x l IH]; intros i a H Ha; [constructor|]. inversion H; subst.
  destruct i as [|i]; cbn [upd]; constructor; auto.
Qed.
Lemma store_inv_nth s i c : store_inv s -> nth_error s i = Some c -> cell_inv c.
Proof. intros H E. apply (proj1 (Forall_forall _ _) H c). apply (nth_error_In _ _ E). Qed.

Lemma cell_inv_set_maxt c v : cell_inv (cell_set_maxt c v).
Proof.
  unfold cell_inv, cell_set_maxt, cell_updateable. cbn [c_dist c_stale c_maxt].
  destruct (c_dist c); [cbn [negb]; discriminate|exact I].
Qed.
Lemma cell_inv_set_params (W : famW) c args kwargs :
  cell_inv c ->
  match cell_set_params W c args kwargs with inl c' => cell_inv c' | inr (c', _) => cell_inv c' end.
Proof.
  intros H. unfold cell_set_params. destruct (c_dist c) as [p|f kw] eqn:E; [exact H|].
  destruct (set_kw kw args kwargs) as [kw' rest]. destruct (W f (c_maxt c) kw'); [|exact H].
  unfold cell_inv. cbn [c_dist]. exact I.
Qed.
Lemma is_pmf_sum_pos m p : is_pmf m p -> 0 < sumQ p.
Proof. intros [_ [_ E]]. rewrite E. reflexivity. Qed.

Lemma cell_inv_dist_new (W : famW) (D : famD) s a mt kw c :
  store_inv s -> darg_okb a = true -> dist_new W D s a mt kw = inr c -> cell_inv c.
Proof.
  intros Hs Ha H. destruct a as [w|f|i]; cbn [dist_new] in H.
  - cbn [darg_okb] in Ha.
    set (m := match mt with None => (length w - 1)%nat | Some m => m end) in *.
    destruct (mk_frozen m w) as [d|] eqn:E; [|discriminate]. injection H as <-.
    destruct (mk_frozen_spec m w d E) as [Hl ->]. unfold cell_inv. cbn [c_dist c_maxt]. intros _.
    apply (mk_frozen_is_pmf m w _ Ha E).
  - destruct mt as [m|]; [|discriminate]. destruct (W f m (dict_update (D f) kw)); [|discriminate].
    injection H as <-. exact I.
  - destruct (nth_error s i) as [c0|] eqn:E0; [|discriminate].
    pose proof (store_inv_nth s i c0 Hs E0) as Hc0. unfold cell_inv in Hc0.
    destruct (c_dist c0) as [p|f kw0].
    + destruct (c_stale c0); [discriminate|]. specialize (Hc0 eq_refl).
      destruct (mk_frozen (c_maxt c0) p) as [d|] eqn:E; [|discriminate]. injection H as <-.
      destruct (mk_frozen_spec _ _ _ E) as [Hl ->]. unfold cell_inv. cbn [c_dist c_maxt]. intros _.
      destruct Hc0 as [L [Nn S1]]. apply normalize_is_pmf; [exact L|exact Nn|]. rewrite S1. reflexivity.
    + destruct (W f (c_maxt c0) kw0); [|discriminate]. injection H as <-. exact I.
Qed.

Lemma cell_inv_ok (W : famW) : W_good W -> forall c p, cell_inv c -> cell_pmf W c = inr p -> is_pmf (c_maxt c) p.
Proof.
  intros HW c p Hc H. unfold cell_inv in Hc. unfold cell_pmf in H. destruct (c_dist c) as [q|f kw].
  - destruct (c_stale c); [discriminate|]. injection H as <-. apply Hc. reflexivity.
  - destruct (W f (c_maxt c) kw) as [w|] eqn:E; [|discriminate]. injection H as <-.
    destruct (HW _ _ _ _ E) as [L [Nn S]]. apply normalize_is_pmf; assumption.
Qed.

(** traversal preserves a store invariant *)
Section EachInv.
  Context {X R : Type}.
  Variable lo : X -> store -> nat -> list (string * nat) -> store * leafT * dres R.
  Variable de : list string -> string -> X -> X.
  Variable I : store -> Prop.
  Variable PX : X -> Prop.
  Hypothesis Hde : forall keys n x, PX x -> PX (de keys n x).
  Hypothesis Hlo : forall x s m ds, PX x -> I s -> I (fst (fst (lo x s m ds))).

  Lemma each_inv :
    (forall t x s, PX x -> I s -> I (fst (fst (each_tree lo de x s t))))
    /\ (forall f keys x s, PX x -> I s -> I (fst (fst (each_forest lo de keys x s f)))).
  Proof.
    apply ctree_forest_ind.
    - intros m ds x s Hx Hs. rewrite each_tree_leaf. specialize (Hlo x s m ds Hx Hs).
      destruct (lo x s m ds) as [[s1 [m1 ds1]] r1]. exact Hlo.
    - intros f IH x s Hx Hs. destruct f as [|n t rest]; [rewrite each_tree_nil; exact Hs|].
      rewrite each_tree_cons. specialize (IH (forest_keys (FCons n t rest)) x s Hx Hs).
      destruct (each_forest lo de (forest_keys (FCons n t rest)) x s (FCons n t rest)) as [[s1 f1] r1]. exact IH.
    - intros keys x s Hx Hs. rewrite each_forest_nil. exact Hs.
    - intros n t IHt rest IHr keys x s Hx Hs. rewrite each_forest_cons.
      specialize (IHt (de keys n x) s (Hde keys n x Hx) Hs).
      destruct (each_tree lo de (de keys n x) s t) as [[s1 t1] r1]. cbn [fst] in IHt.
      destruct r1 as [e|v1]; [exact IHt|]. specialize (IHr keys x s1 Hx IHt).
      destruct (each_forest lo de keys x s1 rest) as [[s2 f2] r2]. exact IHr.
  Qed.
End EachInv.

Section HistInv.
  Variable W : famW.
  Variable D : famD.

  Lemma inv_sync m : forall ds s, store_inv s -> store_inv (sync_cells s m ds).
  Proof.
    induction ds as [|[t j] r IH]; intros s Hs; [exact Hs|]. cbn [sync_cells]. apply IH.
    destruct (nth_error s j) as [c|]; [|exact Hs]. destruct (Nat.eqb (c_maxt c) m); [exact Hs|].
    apply Forall_upd; [exact Hs|apply cell_inv_set_maxt].
  Qed.
  Lemma inv_set_cells v : forall ds s, store_inv s -> store_inv (set_cells_maxt s v ds).
  Proof.
    induction ds as [|[t j] r IH]; intros s Hs; [exact Hs|]. cbn [set_cells_maxt]. apply IH.
    destruct (nth_error s j) as [c|]; [|exact Hs]. apply Forall_upd; [exact Hs|apply cell_inv_set_maxt].
  Qed.
  Lemma inv_leaf_set_distribution x s m ds :
    darg_okb (snd x) = true -> store_inv s -> store_inv (fst (fst (leaf_set_distribution W D x s m ds))).
  Proof.
    intros Hx Hs. unfold leaf_set_distribution. pose proof (inv_sync m ds s Hs) as H1.
    destruct (dist_new W D (sync_cells s m ds) (snd x) (Some m) []) as [e|c] eqn:E; cbn [fst]; [exact H1|].
    apply Forall_app. split; [exact H1|]. constructor; [|constructor].
    apply (cell_inv_dist_new W D _ _ _ _ _ H1 Hx E).
  Qed.
  Lemma inv_leaf_set_many : forall items s m ds,
    forallb (fun x => darg_okb (snd x)) items = true -> store_inv s ->
    store_inv (fst (fst (leaf_set_many W D items s m ds))).
  Proof.
    induction items as [|x items IH]; intros s m ds Hx Hs; cbn [leaf_set_many]; [exact Hs|].
    cbn [forallb] in Hx. apply andb_prop in Hx. destruct Hx as [Hx Hr].
    pose proof (inv_leaf_set_distribution x s m ds Hx Hs) as H1.
    destruct (leaf_set_distribution W D x s m ds) as [[s1 [m1 ds1]] r1]. cbn [fst] in H1.
    destruct r1 as [e|u]; [exact H1|]. apply IH; assumption.
  Qed.
  Lemma inv_params_loop : forall it split glob args s, store_inv s ->
    store_inv (fst (leaf_params_loop W it split glob args s)).
  Proof.
    induction it as [|[t j] it IH]; intros split glob args s Hs; cbn [leaf_params_loop]; [exact Hs|].
    destruct (nth_error s j) as [c|] eqn:Ec; [|exact Hs]. destruct (cell_updateable c); [|apply IH, Hs].
    pose proof (cell_inv_set_params W c args (dict_update glob (dict_get_or t split [])) (store_inv_nth _ _ _ Hs Ec)) as Hc.
    destruct (cell_set_params W c args (dict_update glob (dict_get_or t split []))) as [c'|[c' rest]].
    - cbn [fst]. apply Forall_upd; assumption.
    - apply IH. apply Forall_upd; assumption.
  Qed.

  Lemma inv_at_path {R} p (op : store -> ctree -> store * ctree * dres R) s t :
    (forall s sub, store_inv s -> store_inv (fst (fst (op s sub)))) ->
    store_inv s -> store_inv (fst (fst (at_path p op s t))).
  Proof.
    intros Hop Hs. unfold at_path. destruct (get_sub p t) as [sub|]; [|exact Hs].
    specialize (Hop s sub Hs). destruct (op s sub) as [[s1 sub1] r1]. exact Hop.
  Qed.

  Lemma inv_lift {R} (w : world) (f : R -> oval) (x : store * ctree * dres R) :
    store_inv (fst (fst x)) -> store_inv (w_store (fst (lift w f x))).
  Proof. destruct x as [[s t] r]. intros H. exact H. Qed.

  Lemma resolve_ok objs a a' : darg_okb a = true -> resolve objs a = Some a' -> darg_okb a' = true.
  Proof.
    destruct a as [w|f|k]; cbn [resolve]; intros Ha H; try (injection H as <-; exact Ha).
    destruct (nth_error objs k) as [[i|]|]; try discriminate. injection H as <-. reflexivity.
  Qed.
  Lemma resolve_items_ok objs : forall items items',
    forallb (fun x => darg_okb (snd x)) items = true -> resolve_items objs items = Some items' ->
    forallb (fun x => darg_okb (snd x)) items' = true.
  Proof.
    induction items as [|[t a] r IH]; intros items' Hi H; cbn [resolve_items] in H; [injection H as <-; reflexivity|].
    cbn [forallb snd] in Hi. apply andb_prop in Hi. destruct Hi as [Ha Hr].
    destruct (resolve objs a) as [a'|] eqn:Ea; [|discriminate].
    destruct (resolve_items objs r) as [r'|] eqn:Er; [|discriminate]. injection H as <-.
    cbn [forallb snd]. rewrite (resolve_ok _ _ _ Ha Ea), (IH r' Hr eq_refl). reflexivity.
  Qed.

  Lemma step_inv (w : world) (o : op) :
    op_okb o = true -> store_inv (w_store w) -> store_inv (w_store (fst (step W D w o))).
  Proof.
    intros Ho Hs.
    destruct o as [a mt kw|k args kwargs|k v|p ts a|p ts|p items|p|p v|p|p args kwargs|p ts args kwargs];
      cbn [step op_okb] in *.
    - destruct (resolve (w_objs w) a) as [a'|] eqn:Ea; [|exact Hs].
      destruct (dist_new W D (w_store w) a' mt kw) as [e|c] eqn:E; cbn [fst w_store]; [exact Hs|].
      apply Forall_app. split; [exact Hs|]. constructor; [|constructor].
      apply (cell_inv_dist_new W D _ _ _ _ _ Hs (resolve_ok _ _ _ Ho Ea) E).
    - destruct (nth_error (w_objs w) k) as [[i|]|]; try exact Hs.
      destruct (nth_error (w_store w) i) as [c|] eqn:Ec; [|exact Hs].
      pose proof (cell_inv_set_params W c args kwargs (store_inv_nth _ _ _ Hs Ec)) as Hc.
      destruct (cell_set_params W c args kwargs) as [c'|[c' rest]]; cbn [fst w_store]; apply Forall_upd; assumption.
    - destruct (nth_error (w_objs w) k) as [[i|]|]; try exact Hs.
      destruct (nth_error (w_store w) i) as [c|]; [|exact Hs].
      destruct (v <? 0)%Z; cbn [fst w_store]; [exact Hs|]. apply Forall_upd; [exact Hs|apply cell_inv_set_maxt].
    - destruct (resolve (w_objs w) a) as [a'|] eqn:Ea; [|exact Hs].
      apply inv_lift, inv_at_path; [|exact Hs]. intros s sub Hs'. unfold comp_set_distribution.
      pose proof (resolve_ok _ _ _ Ho Ea) as Ha'.
      assert (H : store_inv (fst (fst (each_tree (leaf_set_distribution W D) same (ts, a') s sub)))).
      { apply (proj1 (each_inv (leaf_set_distribution W D) same store_inv (fun x => darg_okb (snd x) = true)
                       (fun _ _ _ h => h) (fun x s m ds hx hs => inv_leaf_set_distribution x s m ds hx hs))); [exact Ha'|exact Hs']. }
      destruct (each_tree (leaf_set_distribution W D) same (ts, a') s sub) as [[? ?] ?]. exact H.
    - apply inv_lift, inv_at_path; [|exact Hs]. intros s sub Hs'. unfold comp_del_distribution.
      assert (H : store_inv (fst (fst (each_tree leaf_del_distribution same ts s sub)))).
      { apply (proj1 (each_inv leaf_del_distribution same store_inv (fun _ => True) (fun _ _ _ h => h)
                       (fun x s m ds _ hs => ltac:(unfold leaf_del_distribution; destruct (dict_get x ds); exact hs)))); [exact I|exact Hs']. }
      destruct (each_tree leaf_del_distribution same ts s sub) as [[? ?] ?]. exact H.
    - destruct (resolve_items (w_objs w) items) as [items'|] eqn:Ei; [|exact Hs].
      apply inv_lift, inv_at_path; [|exact Hs]. intros s sub Hs'. unfold comp_replace_all.
      pose proof (resolve_items_ok _ _ _ Ho Ei) as Hi'.
      assert (H : store_inv (fst (fst (each_tree (leaf_replace_all W D) same items' s sub)))).
      { apply (proj1 (each_inv (leaf_replace_all W D) same store_inv
                       (fun its => forallb (fun x => darg_okb (snd x)) its = true) (fun _ _ _ h => h)
                       (fun x s m ds hx hs => inv_leaf_set_many x s m [] hx hs))); [exact Hi'|exact Hs']. }
      destruct (each_tree (leaf_replace_all W D) same items' s sub) as [[? ?] ?]. exact H.
    - apply inv_lift, inv_at_path; [|exact Hs]. intros s sub Hs'. unfold comp_clear.
      assert (H : store_inv (fst (fst (each_tree leaf_clear same tt s sub)))).
      { apply (proj1 (each_inv leaf_clear same store_inv (fun _ => True) (fun _ _ _ h => h)
                       (fun x s m ds _ hs => hs))); [exact I|exact Hs']. }
      destruct (each_tree leaf_clear same tt s sub) as [[? ?] ?]. exact H.
    - apply inv_lift, inv_at_path; [|exact Hs]. intros s sub Hs'. unfold comp_set_max_time.
      assert (H : store_inv (fst (fst (each_tree leaf_set_max_time same v s sub)))).
      { apply (proj1 (each_inv leaf_set_max_time same store_inv (fun _ => True) (fun _ _ _ h => h)
                       (fun x s m ds _ hs => ltac:(unfold leaf_set_max_time; destruct (x <? 0)%Z; cbn [fst]; [exact hs|apply inv_set_cells, hs])))); [exact I|exact Hs']. }
      destruct (each_tree leaf_set_max_time same v s sub) as [[? ?] ?]. exact H.
    - apply inv_lift, inv_at_path; [|exact Hs]. intros s sub Hs'. unfold comp_get_max_time.
      assert (H : store_inv (fst (fst (each_tree leaf_get_max_time same tt s sub)))).
      { apply (proj1 (each_inv leaf_get_max_time same store_inv (fun _ => True) (fun _ _ _ h => h)
                       (fun x s m ds _ hs => inv_sync m ds s hs))); [exact I|exact Hs']. }
      destruct (each_tree leaf_get_max_time same tt s sub) as [[? ?] ?]. exact H.
    - apply inv_lift, inv_at_path; [|exact Hs]. intros s sub Hs'. unfold comp_set_distribution_params.
      assert (H : store_inv (fst (fst (each_tree (leaf_set_distribution_params W) descend_params (args, kwargs) s sub)))).
      { apply (proj1 (each_inv (leaf_set_distribution_params W) descend_params store_inv (fun _ => True) (fun _ _ _ h => h)
                       (fun x s m ds _ hs => ltac:(unfold leaf_set_distribution_params;
                          destruct (unflatten_and_split (snd x) (map fst ds)) as [sp gl];
                          pose proof (inv_params_loop ds sp gl (fst x) s hs) as hh;
                          destruct (leaf_params_loop W ds sp gl (fst x) s); exact hh)))); [exact I|exact Hs']. }
      destruct (each_tree (leaf_set_distribution_params W) descend_params (args, kwargs) s sub) as [[? ?] ?]. exact H.
    - apply inv_lift, inv_at_path; [|exact Hs]. intros s sub Hs'. unfold comp_cell_set_params.
      destruct (comp_get_distribution ts sub) as [e|i]; [exact Hs'|].
      destruct (nth_error s i) as [c|] eqn:Ec; [|exact Hs'].
      pose proof (cell_inv_set_params W c args kwargs (store_inv_nth _ _ _ Hs' Ec)) as Hc.
      destruct (cell_set_params W c args kwargs) as [c'|[c' rest]]; cbn [fst]; apply Forall_upd; assumption.
  Qed.

  Lemma run_history_inv : forall h w, forallb op_okb h = true -> store_inv (w_store w) ->
    store_inv (w_store (run_history W D w h)).
  Proof.
    induction h as [|o h IH]; intros w Hh Hs; cbn [run_history]; [exact Hs|].
    cbn [forallb] in Hh. apply andb_prop in Hh. destruct Hh as [Ho Hr].
    apply IH; [exact Hr|apply step_inv; assumption].
  Qed.
End HistInv.

Theorem history_normalised : C18_history_normalised_stmt.
Proof.
  intros W D HW t h Hh c p Hc Hp.
  assert (Hs : store_inv (w_store (run_history W D (world0 t) h))).
  { apply run_history_inv; [exact Hh|]. constructor. }
  apply (cell_inv_ok W HW c p); [|exact Hp]. apply (proj1 (Forall_forall _ _) Hs c Hc).
Qed.
