(** NamedMidline: the class-independent C17 theorems instantiated for models.Midline,
    using the name list proved for C10 ([mid_names_nodup], ParamsMidline.v).
    Separate file so that Named.v / NamedProofs.v do not depend on ParamsMidline.v. *)
From LymphModel Require Import Base States Linalg Graph Transition Observation Dist Unilateral Models
  Params ParamsStatements ParamsLemmas ParamsProofs ParamsBilateral ParamsMidline Named NamedProofs.
Local Open Scope nat_scope.
Local Open Scope string_scope.
Local Open Scope list_scope.

(** Midline (every configuration: use_mixing x central/midext_evo x LNL symmetry x
    marginalize_unknown, every graph): deleting the declaration restores all
    parameters [mid_items], and the number of dimensions is their number *)
Definition C17_midline_delete_restores_default_stmt : Prop :=
  forall ml named, mid_names_ok ml = true ->
    del_named (mk_nstate (MMid ml) (Some named)) = inr (mk_nstate (MMid ml) None)
    /\ named_params (mk_nstate (MMid ml) None) = inr (map fst (mid_items ml))
    /\ get_named_params (mk_nstate (MMid ml) None) = inr (mid_items ml)
    /\ get_num_dims (mk_nstate (MMid ml) None) = inr (length (mid_items ml)).
(** Midline: every declared list of distinct names each matching a parameter is reported
    completely, in declared order *)
Definition C17_midline_num_dims_stmt : Prop :=
  forall ml named, mid_names_ok ml = true -> NoDup named -> each_matches (map fst (mid_items ml)) named = true ->
    get_num_dims (mk_nstate (MMid ml) (Some named)) = inr (length named)
    /\ exists l, get_named_params (mk_nstate (MMid ml) (Some named)) = inr l /\ map fst l = named.

Lemma mid_param_items ml : mid_names_ok ml = true -> param_items (MMid ml) = Some (mid_items ml).
Proof. intros H. destruct (mid_names_nodup ml H) as [Hg _]. exact Hg. Qed.

Theorem midline_delete_restores_default : C17_midline_delete_restores_default_stmt.
Proof.
  intros ml named H. destruct (mid_names_nodup ml H) as [_ Hnd].
  exact (delete_restores_default (MMid ml) named (mid_items ml) (mid_param_items ml H) Hnd).
Qed.
Theorem midline_num_dims : C17_midline_num_dims_stmt.
Proof.
  intros ml named H Hnd Hm. exact (num_dims_is_declared_count (MMid ml) named (mid_items ml) (mid_param_items ml H) Hnd Hm).
Qed.
