(** Base: the numeric carrier [Qc] (canonical rationals), finite sums and
    products, and the bridge tactic that sends order goals on [Qc] to [nra]/[lra]
    on [Q].  Every finite IEEE double is a rational, so a statement over [Qc]
    covers every parameter value the Python code can receive; what it does not
    cover is the rounding of the operations (see DESIGN.md, trusted base). *)
From Coq Require Export String.
From Coq Require Export QArith Qcanon List Lia Arith Lqa Psatz Bool.
Export ListNotations.
Open Scope Qc_scope.

(** * Order goals on Qc *)
Lemma Qc_add_this (x y : Qc) : (this (x + y) == this x + this y)%Q.
Proof. unfold Qcplus. cbn [this Q2Qc]. apply Qred_correct. Qed.
Lemma Qc_mul_this (x y : Qc) : (this (x * y) == this x * this y)%Q.
Proof. unfold Qcmult. cbn [this Q2Qc]. apply Qred_correct. Qed.
Lemma Qc_opp_this (x : Qc) : (this (- x) == - this x)%Q.
Proof. unfold Qcopp. cbn [this Q2Qc]. apply Qred_correct. Qed.
Lemma Qc_sub_this (x y : Qc) : (this (x - y) == this x - this y)%Q.
Proof. unfold Qcminus. rewrite Qc_add_this, Qc_opp_this. reflexivity. Qed.
Lemma this0 : this 0 = 0%Q. Proof. reflexivity. Qed.
Lemma this1 : this 1 = 1%Q. Proof. reflexivity. Qed.

Ltac qc2q := unfold Qcle, Qclt in *;
  repeat (rewrite ?Qc_sub_this, ?Qc_mul_this, ?Qc_add_this, ?Qc_opp_this, ?this0, ?this1 in * ).

(** Equality on [Qc] from [Qeq] of the underlying fractions. *)
Lemma Qc_eq_this (x y : Qc) : (this x == this y)%Q -> x = y.
Proof. apply Qc_is_canon. Qed.

(** * Exact output for the correspondence check: (numerator, denominator) *)
Definition qout (q : Qc) : Z * Z := (Qnum (this q), Zpos (Qden (this q))).
Definition qouts (l : list Qc) : list (Z * Z) := map qout l.
Definition qoutm (m : list (list Qc)) : list (list (Z * Z)) := map qouts m.

(** * Sums and products *)
Fixpoint sumQ (l : list Qc) : Qc := match l with [] => 0 | a :: r => a + sumQ r end.
Fixpoint prodQ (l : list Qc) : Qc := match l with [] => 1 | a :: r => a * prodQ r end.

Lemma sumQ_app l1 l2 : sumQ (l1 ++ l2) = sumQ l1 + sumQ l2.
Proof. induction l1 as [|a l1 IH]; cbn [app sumQ]; [ring|]. rewrite IH. ring. Qed.
Lemma prodQ_app l1 l2 : prodQ (l1 ++ l2) = prodQ l1 * prodQ l2.
Proof. induction l1 as [|a l1 IH]; cbn [app prodQ]; [ring|]. rewrite IH. ring. Qed.
Lemma sumQ_flat_map {A} (f : A -> list Qc) l :
  sumQ (flat_map f l) = sumQ (map (fun a => sumQ (f a)) l).
Proof. induction l as [|a l IH]; cbn [flat_map map sumQ]; [reflexivity|]. rewrite sumQ_app, IH. reflexivity. Qed.
Lemma sumQ_map_scale {A} (c : Qc) (f : A -> Qc) l :
  sumQ (map (fun a => c * f a) l) = c * sumQ (map f l).
Proof. induction l as [|a l IH]; cbn [map sumQ]; [ring|]. rewrite IH. ring. Qed.
Lemma sumQ_map_scale_r {A} (c : Qc) (f : A -> Qc) l :
  sumQ (map (fun a => f a * c) l) = sumQ (map f l) * c.
Proof. induction l as [|a l IH]; cbn [map sumQ]; [ring|]. rewrite IH. ring. Qed.
Lemma sumQ_map_ext {A} (f g : A -> Qc) l :
  (forall a, In a l -> f a = g a) -> sumQ (map f l) = sumQ (map g l).
Proof. intros H. f_equal. apply map_ext_in, H. Qed.
Lemma prodQ_map_ext {A} (f g : A -> Qc) l :
  (forall a, In a l -> f a = g a) -> prodQ (map f l) = prodQ (map g l).
Proof. intros H. f_equal. apply map_ext_in, H. Qed.
Lemma sumQ_map_plus {A} (f g : A -> Qc) l :
  sumQ (map (fun a => f a + g a) l) = sumQ (map f l) + sumQ (map g l).
Proof. induction l as [|a l IH]; cbn [map sumQ]; [ring|]. rewrite IH. ring. Qed.
Lemma prodQ_map_mult {A} (f g : A -> Qc) l :
  prodQ (map (fun a => f a * g a) l) = prodQ (map f l) * prodQ (map g l).
Proof. induction l as [|a l IH]; cbn [map prodQ]; [ring|]. rewrite IH. ring. Qed.
Lemma sumQ_map_zero {A} (l : list A) : sumQ (map (fun _ => 0) l) = 0.
Proof. induction l as [|a l IH]; cbn [map sumQ]; [reflexivity|]. rewrite IH. ring. Qed.
Lemma prodQ_map_one {A} (l : list A) : prodQ (map (fun _ => 1) l) = 1.
Proof. induction l as [|a l IH]; cbn [map prodQ]; [reflexivity|]. rewrite IH. ring. Qed.
Lemma sumQ_map_le {A} (f g : A -> Qc) l :
  (forall a, In a l -> f a <= g a) -> sumQ (map f l) <= sumQ (map g l).
Proof.
  induction l as [|a l IH]; intros H; cbn [map sumQ]; [apply Qcle_refl|].
  apply Qcplus_le_compat; [apply H; left; reflexivity | apply IH; intros; apply H; right; assumption].
Qed.
Lemma sumQ_nonneg l : (forall a, In a l -> 0 <= a) -> 0 <= sumQ l.
Proof.
  induction l as [|a l IH]; intros H; cbn [sumQ]; [apply Qcle_refl|].
  replace 0 with (0 + 0) by ring.
  apply Qcplus_le_compat; [apply H; left; reflexivity | apply IH; intros; apply H; right; assumption].
Qed.
Lemma prodQ_nonneg l : (forall a, In a l -> 0 <= a) -> 0 <= prodQ l.
Proof.
  induction l as [|a l IH]; intros H; cbn [prodQ]; [discriminate|].
  assert (Ha : 0 <= a) by (apply H; left; reflexivity).
  assert (Hl : 0 <= prodQ l) by (apply IH; intros; apply H; right; assumption).
  revert Ha Hl. generalize (prodQ l). intros p. qc2q. generalize (this a) (this p). intros; nra.
Qed.
Lemma sumQ_swap {A B} (f : A -> B -> Qc) (la : list A) (lb : list B) :
  sumQ (map (fun a => sumQ (map (fun b => f a b) lb)) la)
  = sumQ (map (fun b => sumQ (map (fun a => f a b) la)) lb).
Proof.
  induction la as [|a la IH]; cbn [map sumQ].
  - rewrite sumQ_map_zero. reflexivity.
  - rewrite IH, <- sumQ_map_plus. reflexivity.
Qed.

(** Dot product of two vectors (zip semantics, like numpy on equal lengths). *)
Fixpoint dot (u v : list Qc) : Qc :=
  match u, v with a :: u', b :: v' => a * b + dot u' v' | _, _ => 0 end.

Lemma dot_map_l {A} (f g : A -> Qc) l : dot (map f l) (map g l) = sumQ (map (fun a => f a * g a) l).
Proof. induction l as [|a l IH]; cbn [map dot sumQ]; [reflexivity|]. rewrite IH. reflexivity. Qed.

(** Boolean helpers *)
Definition Qc_eqb (x y : Qc) : bool := if Qc_eq_dec x y then true else false.
Definition Qc_leb (x y : Qc) : bool := if Qclt_le_dec y x then false else true.
Lemma Qc_leb_spec x y : Qc_leb x y = true <-> x <= y.
Proof. unfold Qc_leb. destruct (Qclt_le_dec y x) as [H|H]; split; intros H'; auto; try discriminate.
  exfalso. apply (Qclt_not_le _ _ H). exact H'. Qed.

(** literal used by the correspondence harness: the exact value of a double *)
Definition qc (n : Z) (d : positive) : Qc := Q2Qc (n # d).
