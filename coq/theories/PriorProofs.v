(** PriorProofs: proofs of the C07 statements (prior state distributions of the
    unilateral model: HMM evolution, time-marginalised prior, Bayesian network,
    observation distribution).  Statements that rest on C05 / C06 take the
    corresponding [_stmt] as an explicit premise. *)
From LymphModel Require Import Base States Linalg Graph Transition Observation Dist Unilateral UniStatements.
Local Open Scope nat_scope.
Open Scope Qc_scope.

(** * Tabulating [vecmat_w] *)
Lemma vscale_map {A} (c : Qc) (f : A -> Qc) l : vscale c (map f l) = map (fun x => c * f x) l.
Proof. unfold vscale. apply map_map. Qed.
Lemma vadd_map_map {A} (f g : A -> Qc) l : vadd (map f l) (map g l) = map (fun x => f x + g x) l.
Proof. unfold vadd. apply map2_map_map. Qed.
Lemma zeros_map {A} (l : list A) : zeros (length l) = map (fun _ => 0) l.
Proof. unfold zeros. symmetry. apply map_const_repeat. Qed.

(** [v @ M] for a matrix given entry-wise: rows indexed by [L], columns by [S'] *)
Lemma vecmat_w_tab {A B} (m : A -> B -> Qc) (S' : list B) (L : list A) : forall v,
  vecmat_w (length S') v (map (fun x => map (m x) S') L)
  = map (fun y => sumQ (map (fun '(x, p) => p * m x y) (combine L v))) S'.
Proof.
  induction L as [|a L IH]; intros v.
  - destruct v; cbn [vecmat_w map combine sumQ]; apply zeros_map.
  - destruct v as [|p v]; cbn [vecmat_w map combine sumQ].
    + apply zeros_map.
    + rewrite IH, vscale_map, vadd_map_map. reflexivity.
Qed.

Lemma combine_map_r {A B} (f : A -> B) l : combine l (map f l) = map (fun x => (x, f x)) l.
Proof. induction l as [|a l IH]; cbn [map combine]; [reflexivity|]. rewrite IH. reflexivity. Qed.

Lemma map_snd_combine {A B} (l : list A) : forall (l' : list B),
  length l' = length l -> map snd (combine l l') = l'.
Proof.
  induction l as [|a l IH]; intros [|b l'] H; try discriminate; cbn [combine map snd]; [reflexivity|].
  rewrite IH by (cbn in H; lia). reflexivity.
Qed.

(** * Well-formedness facts *)
Lemma wfb_base g : wf_graphb g = true -> g_base g = 2%nat \/ g_base g = 3%nat.
Proof. unfold wf_graphb. rewrite !andb_true_iff, orb_true_iff, !Nat.eqb_eq. tauto. Qed.
Lemma wfb_edges g e : wf_graphb g = true -> In e (g_edges g) -> wf_edge g e = true.
Proof.
  unfold wf_graphb. rewrite !andb_true_iff. intros [_ H]. rewrite forallb_forall in H. apply H.
Qed.
Lemma digit_lt_states b n x k : (0 < b)%nat -> In x (all_states b n) -> (digit k x < b)%nat.
Proof.
  intros Hb Hx. apply all_states_In in Hx. destruct Hx as [_ Hf]. unfold digit.
  destruct (Nat.lt_ge_cases k (length x)) as [Hk|Hk].
  - rewrite Forall_forall in Hf. apply Hf. apply nth_In. exact Hk.
  - rewrite nth_overflow by exact Hk. exact Hb.
Qed.

(** * The start vector: [onehot0] is the indicator of the all-healthy state *)
Definition ind0 (n : nat) (y : state) : Qc :=
  if list_eq_dec Nat.eq_dec y (repeat 0%nat n) then 1 else 0.

Lemma ind0_cons0 n y : ind0 (S n) (0%nat :: y) = ind0 n y.
Proof.
  unfold ind0. cbn [repeat].
  destruct (list_eq_dec Nat.eq_dec (0%nat :: y) (0%nat :: repeat 0%nat n)) as [E|E];
    destruct (list_eq_dec Nat.eq_dec y (repeat 0%nat n)) as [E'|E']; try reflexivity.
  - exfalso. apply E'. injection E. auto.
  - exfalso. apply E. rewrite E'. reflexivity.
Qed.
Lemma ind0_consS n d y : ind0 (S n) (S d :: y) = 0.
Proof.
  unfold ind0. cbn [repeat].
  destruct (list_eq_dec Nat.eq_dec (S d :: y) (0%nat :: repeat 0%nat n)) as [E|E]; [discriminate|reflexivity].
Qed.
Lemma map_zero_zeros {A} (f : A -> Qc) l : (forall x, In x l -> f x = 0) -> map f l = zeros (length l).
Proof.
  induction l as [|a l IH]; intros H; cbn [map length zeros repeat]; [reflexivity|].
  rewrite H by (left; reflexivity). f_equal. apply IH. intros x Hx. apply H. right. exact Hx.
Qed.

Lemma ind0_all_states b n :
  map (ind0 n) (all_states (S b) n) = 1 :: zeros (Nat.pow (S b) n - 1).
Proof.
  unfold state. induction n as [|n IH].
  - cbn [all_states map Nat.pow Nat.sub zeros repeat]. reflexivity.
  - cbn [all_states]. rewrite <- cons_seq. cbn [flat_map]. rewrite map_app, map_map.
    rewrite (map_ext (fun y => ind0 (S n) (0%nat :: y)) (ind0 n)) by (intros y; apply ind0_cons0).
    rewrite IH.
    rewrite map_zero_zeros.
    2:{ intros x Hx. apply in_flat_map in Hx. destruct Hx as [d [Hd Hx]].
        apply in_map_iff in Hx. destruct Hx as [y [<- _]]. apply in_seq in Hd.
        destruct d as [|d]; [lia|]. apply ind0_consS. }
    rewrite flat_map_length_const with (m := Nat.pow (S b) n).
    2:{ intros a _. rewrite map_length. apply all_states_length. }
    rewrite seq_length. cbn [app]. f_equal. unfold zeros. rewrite <- repeat_app. f_equal.
    rewrite Nat.pow_succ_r'.
    assert (Nat.pow (S b) n <> 0%nat) by (apply Nat.pow_nonzero; lia).
    nia.
Qed.

Lemma onehot0_ind0 b n : (0 < b)%nat -> onehot0 (Nat.pow b n) = map (ind0 n) (all_states b n).
Proof.
  intros Hb. destruct b as [|b]; [lia|]. rewrite ind0_all_states.
  assert (H : Nat.pow (S b) n <> 0%nat) by (apply Nat.pow_nonzero; lia).
  destruct (Nat.pow (S b) n) as [|m]; [congruence|].
  cbn [onehot0]. rewrite Nat.sub_succ, Nat.sub_0_r. reflexivity.
Qed.

Lemma evo_spec_0 g : evo_spec g 0 = ind0 (nlnls g).
Proof. reflexivity. Qed.

Lemma start_vector g : wf_graphb g = true ->
  onehot0 (Nat.pow (g_base g) (nlnls g)) = map (evo_spec g 0) (state_list g).
Proof.
  intros Hwf. rewrite evo_spec_0. unfold state_list. apply onehot0_ind0.
  destruct (wfb_base g Hwf); lia.
Qed.

(** * HMM evolution *)
Lemma evo_step g t :
  vecmat_w (length (map (evo_spec g t) (state_list g))) (map (evo_spec g t) (state_list g))
           (trans_spec_matrix g)
  = map (evo_spec g (S t)) (state_list g).
Proof.
  rewrite map_length. unfold trans_spec_matrix. rewrite vecmat_w_tab, combine_map_r.
  apply map_ext. intros y. rewrite map_map. cbn [evo_spec]. reflexivity.
Qed.

Lemma evo_rows_spec g k : forall t0,
  evo_rows (trans_spec_matrix g) (map (evo_spec g t0) (state_list g)) k
  = map (fun t => map (evo_spec g t) (state_list g)) (seq t0 (S k)).
Proof.
  induction k as [|k IH]; intros t0.
  - reflexivity.
  - cbn [evo_rows]. rewrite evo_step, IH. reflexivity.
Qed.

Lemma state_dist_evo_tab u : C05_transition_entries_stmt -> wf_graphb (u_graph u) = true ->
  state_dist_evo u = map (fun t => map (evo_spec (u_graph u) t) (u_states u)) (seq 0 (S (u_maxt u))).
Proof.
  intros HT Hwf. unfold state_dist_evo, transition_matrix, u_base, u_n, u_states.
  rewrite (HT _ Hwf), (start_vector _ Hwf). apply evo_rows_spec.
Qed.

Lemma evo_rows_length T k : forall v, length (evo_rows T v k) = S k.
Proof. induction k as [|k IH]; intros v; cbn [evo_rows length]; [reflexivity|]. rewrite IH. reflexivity. Qed.

Lemma evo_length : C07_evo_length_stmt.
Proof. intros u. unfold state_dist_evo. apply evo_rows_length. Qed.

Lemma nth_map_seq {A} (f : nat -> A) d k : forall t0 t, (t < k)%nat ->
  nth t (map f (seq t0 k)) d = f (t0 + t)%nat.
Proof.
  induction k as [|k IH]; intros t0 t H; [lia|]. cbn [seq map]. destruct t as [|t]; cbn [nth].
  - f_equal. lia.
  - rewrite IH by lia. f_equal. lia.
Qed.

Lemma evo_spec_correct : C05_transition_entries_stmt -> C07_evo_spec_stmt.
Proof.
  intros HT u t Hwf Ht. rewrite (state_dist_evo_tab u HT Hwf).
  rewrite nth_map_seq by lia. reflexivity.
Qed.

Lemma sumQ_zeros n : sumQ (zeros n) = 0.
Proof. induction n as [|n IH]; cbn [zeros repeat sumQ]; [reflexivity|]. unfold zeros in IH. rewrite IH. ring. Qed.

Lemma evo_sum_one : C05_row_sums_stmt -> C07_evo_sum_one_stmt.
Proof.
  intros HR g t Hwf. induction t as [|t IH].
  - rewrite <- (start_vector g Hwf).
    assert (H : Nat.pow (g_base g) (nlnls g) <> 0%nat)
      by (apply Nat.pow_nonzero; destruct (wfb_base g Hwf); lia).
    destruct (Nat.pow (g_base g) (nlnls g)) as [|m]; [congruence|].
    cbn [onehot0 sumQ]. rewrite sumQ_zeros. ring.
  - cbn [evo_spec].
    rewrite (sumQ_swap (fun y x => evo_spec g t x * trans_spec g x y)).
    rewrite <- IH. apply sumQ_map_ext. intros x Hx.
    rewrite sumQ_map_scale. rewrite (HR g x Hwf Hx). ring.
Qed.

Lemma evo_nonneg : C05_entries_in_unit_interval_stmt -> C07_evo_nonneg_stmt.
Proof.
  intros HU g t. induction t as [|t IH]; intros x Hwf Hp Hx.
  - cbn [evo_spec]. destruct (list_eq_dec Nat.eq_dec x (healthy (nlnls g))); discriminate.
  - cbn [evo_spec]. apply sumQ_nonneg. intros a Ha. apply in_map_iff in Ha.
    destruct Ha as [y [<- Hy]].
    pose proof (IH y Hwf Hp Hy) as H1.
    destruct (HU g y x Hwf Hp Hy Hx) as [H2 _].
    revert H1 H2. generalize (evo_spec g t y) (trans_spec g y x). intros p q.
    qc2q. generalize (this p) (this q). intros; nra.
Qed.

Lemma evolve_additive : C07_evolve_additive_stmt.
Proof.
  intros T v a b. revert v. induction a as [|a IH]; intros v; cbn [evolve Nat.add]; [reflexivity|].
  apply IH.
Qed.

(** * Time-marginalised prior *)
Lemma state_dist_spec : C05_transition_entries_stmt -> C07_state_dist_spec_stmt.
Proof.
  intros HT u t pm Hwf Hpm _. unfold state_dist. rewrite Hpm. cbn [bind]. f_equal.
  rewrite (state_dist_evo_tab u HT Hwf).
  replace (Nat.pow (u_base u) (u_n u)) with (length (u_states u))
    by (unfold u_states, state_list, u_base, u_n; apply all_states_length).
  rewrite vecmat_w_tab. reflexivity.
Qed.

Lemma state_dist_sum_one : C05_row_sums_stmt -> C07_state_dist_sum_one_stmt.
Proof.
  intros HR u pm Hwf Hlen Hsum. unfold prior_spec.
  rewrite (sumQ_map_ext _ (fun x => sumQ (map (fun tw => snd tw * evo_spec (u_graph u) (fst tw) x)
                                           (combine (seq 0 (S (u_maxt u))) pm)))).
  2:{ intros x _. apply sumQ_map_ext. intros [t w] _. reflexivity. }
  rewrite (sumQ_swap (fun x tw => snd tw * evo_spec (u_graph u) (fst tw) x)).
  rewrite <- Hsum.
  rewrite <- (map_snd_combine (seq 0 (S (u_maxt u))) pm) at 2 by (rewrite seq_length; exact Hlen).
  apply sumQ_map_ext. intros [t w] _. cbn [fst snd].
  rewrite sumQ_map_scale. unfold u_states. rewrite (evo_sum_one HR _ t Hwf). ring.
Qed.

(** * Bayesian network (binary) *)
Lemma fold_mult_map_prodQ {A} (h : A -> Qc) l : forall acc,
  fold_left (fun (r : Qc) z => r * h z) l acc = acc * prodQ (map h l).
Proof.
  induction l as [|z l IH]; intros acc; cbn [fold_left map prodQ]; [ring|]. rewrite IH. ring.
Qed.

Lemma bn_trinary_not_implemented : C07_bn_trinary_not_implemented_stmt.
Proof. intros g Hb. unfold state_dist_bn. rewrite Hb. reflexivity. Qed.

Definition bn_arc (g : graph) (x : state) (e : edge) : Qc :=
  1 - match e_kind e with
      | ETumor => e_spread e
      | ELnl => if Nat.eqb (parent_digit g e x) 0 then 0 else e_spread e
      | EGrowth => 0
      end.

Lemma bn_arc_entry g x e : wf_graphb g = true -> g_base g = 2%nat -> In x (state_list g) ->
  In e (g_edges g) ->
  tget (transition_tensor (g_base g) e) (if is_tumor_spread e then 0%nat else parent_digit g e x) 0 0
  = bn_arc g x e.
Proof.
  intros Hwf Hb Hx He.
  pose proof (wfb_edges g e Hwf He) as Hwe. unfold wf_edge in Hwe.
  apply andb_true_iff in Hwe. destruct Hwe as [_ Hk].
  assert (Hd : (parent_digit g e x < 2)%nat).
  { unfold parent_digit. unfold state_list in Hx. rewrite Hb in Hx.
    apply (digit_lt_states 2 (nlnls g)); [lia|exact Hx]. }
  unfold bn_arc, transition_tensor, edge_micro, is_tumor_spread, is_growth. rewrite Hb.
  destruct (e_kind e).
  - cbv [comp_transition_tensor tensor_set set_nth tget nth repeat eye eye_row map seq Nat.eqb pad Nat.sub app].
    reflexivity.
  - destruct (parent_digit g e x) as [|[|p]]; [| |lia];
      cbv [comp_transition_tensor tensor_set set_nth tget nth repeat eye eye_row map seq Nat.eqb pad Nat.sub app];
      try reflexivity; ring.
  - rewrite Hb in Hk. apply andb_true_iff in Hk. destruct Hk as [_ Hk]. discriminate.
Qed.

Lemma bn_node_prob_spec g x i lnl : wf_graphb g = true -> g_base g = 2%nat -> In x (state_list g) ->
  bn_node_prob g x i lnl
  = let stay := prodQ (map (bn_arc g x) (inc_edges g lnl)) in
    if Nat.eqb (digit i x) 0 then stay else 1 - stay.
Proof.
  intros Hwf Hb Hx. unfold bn_node_prob.
  rewrite (fold_mult_map_prodQ (fun e => tget (transition_tensor (g_base g) e)
             (if is_tumor_spread e then 0%nat else parent_digit g e x) 0 0)).
  rewrite (prodQ_map_ext _ (bn_arc g x)).
  2:{ intros e He. apply bn_arc_entry; try assumption.
      unfold inc_edges in He. apply filter_In in He. tauto. }
  assert (Hd : (digit i x < 2)%nat).
  { unfold state_list in Hx. rewrite Hb in Hx. apply (digit_lt_states 2 (nlnls g)); [lia|exact Hx]. }
  cbv zeta. destruct (digit i x) as [|[|d]]; [| |lia]; cbn [Nat.eqb].
  - change (qnat 0) with 0. ring.
  - change (qnat 1) with 1. ring.
Qed.

Lemma fold_pair_prodQ {A B} (h : A -> B -> Qc) l : forall acc,
  fold_left (fun (r : Qc) '(a, b) => r * h a b) l acc = acc * prodQ (map (fun '(a, b) => h a b) l).
Proof.
  induction l as [|[a b] l IH]; intros acc; cbn [fold_left map prodQ]; [ring|]. rewrite IH. ring.
Qed.

Lemma bn_spec_correct : C07_bn_spec_stmt.
Proof.
  intros g Hwf Hb. unfold state_dist_bn. rewrite Hb. cbn [Nat.eqb]. f_equal.
  apply map_ext_in. intros x Hx.
  rewrite (fold_pair_prodQ (bn_node_prob g x)). unfold bn_spec.
  rewrite Qcmult_1_l. apply prodQ_map_ext. intros [i lnl] _.
  rewrite (bn_node_prob_spec g x i lnl Hwf Hb Hx). reflexivity.
Qed.

(** * Observation distribution *)
Lemma obs_dist_spec : C06_observation_entries_stmt -> C07_obs_dist_spec_stmt.
Proof.
  intros HO u sd Hb _. unfold obs_dist_of, observation_matrix.
  rewrite (HO _ _ _ Hb). unfold obs_spec_matrix. rewrite map_length.
  replace (Nat.pow 2 (length (u_mods u) * u_n u)) with (length (obs_list (length (u_mods u)) (u_n u)))
    by (unfold obs_list; apply all_states_length).
  rewrite vecmat_w_tab. reflexivity.
Qed.

(** * Concrete objects for the non-vacuity examples of properties/C07.v *)
(** trinary graph, arc III -> II against the listing order (II, III) *)
Definition C07_ex_graph : graph :=
  set_edges (force_graph (build_graph 3
      [(("tumor", "T"), CList ["II"; "III"]); (("lnl", "II"), CList []); (("lnl", "III"), CList ["II"])]%string))
    [("TtoII", (qc 1 2, 1)); ("TtoIII", (qc 1 4, 1)); ("IIItoII", (qc 1 3, qc 1 2));
     ("II", (qc 1 5, 1)); ("III", (qc 2 5, 1))]%string.
(** two modalities (one clinical, one pathological), a frozen and a parametric distribution *)
Definition C07_ex_uni : uni :=
  {| u_graph := C07_ex_graph;
     u_mods := [("CT", {| m_spec := qc 4 5; m_sens := qc 3 4; m_path := false |});
                ("path", {| m_spec := qc 9 10; m_sens := qc 7 10; m_path := true |})]%string;
     u_dists := [("early", Frozen [qc 1 2; qc 1 4; qc 1 4]); ("late", Param 0 [("p", qc 1 3)])]%string;
     u_maxt := 2 |}.
(** the same topology, binary (for the Bayesian network) *)
Definition C07_ex_bin_graph : graph :=
  set_edges (force_graph (build_graph 2
      [(("tumor", "T"), CList ["II"; "III"]); (("lnl", "II"), CList []); (("lnl", "III"), CList ["II"])]%string))
    [("TtoII", (qc 1 2, 1)); ("TtoIII", (qc 1 4, 1)); ("IIItoII", (qc 1 3, 1))]%string.
