#!/bin/bash
# usage: tools/seed_all.sh <dir with patch.diff> [-j N] : run ALL claimed checks (quick, part B) against the patched tree
D=$(realpath "$1"); J=${3:-5}
W=$(mktemp -d /tmp/seedall-XXXX); rmdir "$W"
git -C /repo worktree add -q --detach "$W" HEAD || exit 2
trap 'git -C /repo worktree remove --force "$W" >/dev/null 2>&1' EXIT
git -C "$W" apply "$D/patch.diff" || { echo "PATCH DOES NOT APPLY"; exit 2; }
cd /verif
IDS=$(/venv/bin/python -c "import json;print(' '.join(c['property_id'] for c in json.load(open('MANIFEST.json'))['checks']))" 2>/dev/null)
echo $IDS | tr ' ' '\n' | xargs -P $J -I{} bash -c "LYMPH_REPO=$W ./check {} --skip-proofs 2>&1 | grep -c '^VIOLATION' | sed 's/^/{} /'" | awk '$2>0{c=c" "$1} $2==0{m=m" "$1} END{print "caught:"c; print "quiet:"m}'
rm -f /verif/replays/*
