#!/venv/bin/python
"""Regenerate MANIFEST.json from the table below. Run from /verif."""
import json, sys
from pathlib import Path

VERIF = Path(__file__).resolve().parent.parent
props = [json.loads(l) for l in open(VERIF / "properties.jsonl")]

# id -> (technique, level text, level note)   -- only properties whose check is built and passing
CLAIMED = json.loads((VERIF / "tools" / "claimed.json").read_text())

checks, na = [], []
for p in props:
    pid = p["id"]
    if pid in CLAIMED:
        c = CLAIMED[pid]
        checks.append({
            "property_id": pid,
            "quick_cmd": f"./check {pid} --tier quick",
            "thorough_cmd": f"./check {pid} --tier thorough",
            "evidence_file": f"evidence/{pid}.json",
            "replay_cmd_template": f"./check {pid} --replay {{path}}",
            "engine": "coq-model+correspondence",
            "level_claimed": {"category": "proof", "text": c["text"], "design_ref": c.get("design_ref", f"DESIGN.md section 4 ({pid})")},
            "level_note": c["note"],
            "technique": c["technique"],
        })
    else:
        na.append({"property_id": pid, "reason": "check under construction in this session (Coq model and correspondence not committed yet); see DESIGN.md section 4 for the plan"})

manifest = {
    "version": 1,
    "setup_cmd": "cd coq && coq_makefile -f _CoqProject -o Makefile && timeout 3000 make -j16",
    "hooks": {
        "guard": "LYMPH_VERIF",
        "enable": "no source hooks are needed: every observation point is public API; checks run /repo as is with PYTHONPATH=/repo",
        "baseline_off_cmd": "cd /repo && /venv/bin/python -m pytest -ra -q -p no:cacheprovider --timeout=900 --continue-on-collection-errors",
        "source_commits": [],
        "add_only": True,
    },
    "engines": [{
        "name": "coq-model+correspondence",
        "path": "coq/ (Coq 8.16 development), harness/ (Python correspondence + search, harness/translate*.py source translator), check (entry point)",
        "serves_properties": [c["property_id"] for c in checks],
        "kind_free_text": "machine-checked proof in Coq of theorems about a hand-written Gallina model; model tied to /repo on every run by (1) differential correspondence (the model's executable definitions evaluated with vm_compute vs the implementation on generated inputs and histories) and (2) a fail-closed source translator (harness/translate*.py: 122 functions of lymph re-generated as Gallina from the current source and proved equal to the model for all arguments)",
    }],
    "checks": checks,
    "not_applicable": na,
    "notes": "All checks: ./check <id> [--tier quick|thorough] [--replay file]; honours VERIF_SEED and VERIF_TIER. Known findings: known_findings.json.",
}
(VERIF / "MANIFEST.json").write_text(json.dumps(manifest, indent=1))
print("claimed", [c["property_id"] for c in checks], "n/a", len(na))
