#!/venv/bin/python
"""Detection robustness across run seeds: for every stored property-breaking change run the checks that are recorded as
catching it (own property for Cxx-* seeds, the named properties among caught_by for R3/R4) with other VERIF_SEED values
and report which catches do not reproduce.  Writes nothing under seeded/.  usage: tools/seed_robust.py [-j N] [--seeds 1,2] [names]"""
import json, os, subprocess, sys, tempfile
from concurrent.futures import ThreadPoolExecutor
from pathlib import Path

VERIF = Path(__file__).resolve().parent.parent


def run(cmd, **kw):
    return subprocess.run(cmd, shell=True, capture_output=True, text=True, **kw)


def job(name, seeds):
    d = VERIF / "seeded" / name
    meta = json.loads((d / "meta.json").read_text())
    if name.startswith(("R3-", "R4-")):
        named = meta.get("breaks_property") or []
        pids = [p for p in meta.get("caught_by", []) if p in named] or meta.get("caught_by", [])[:1]
    else:
        own = name.split("-")[0]
        pids = [own] if meta["checks"].get(own, {}).get("result") == "caught" else \
               [p for p, v in meta["checks"].items() if isinstance(v, dict) and v["result"] == "caught"][:1]
    w = tempfile.mkdtemp(prefix="rob-", dir="/tmp"); os.rmdir(w)
    run(f"git -C /repo worktree add -q --detach {w} HEAD")
    res = {}
    try:
        if run(f"git -C {w} apply {d/'patch.diff'}").returncode != 0:
            return name, {"error": "patch does not apply"}
        for pid in pids:
            for sd in seeds:
                r = run(f"cd {VERIF} && VERIF_SEED={sd} LYMPH_REPO={w} ./check {pid} --skip-proofs")
                res[f"{pid}@{sd}"] = any(l.startswith("VIOLATION") for l in r.stdout.splitlines())
    finally:
        run(f"git -C /repo worktree remove --force {w}")
    return name, res


def main():
    args = sys.argv[1:]
    j, seeds = 8, [1, 2]
    while args and args[0].startswith("-"):
        if args[0] == "-j":
            j = int(args[1])
        elif args[0] == "--seeds":
            seeds = [int(x) for x in args[1].split(",")]
        args = args[2:]
    names = args or sorted(p.name for p in (VERIF / "seeded").iterdir()
                           if (p / "meta.json").exists() and not p.name.startswith("refactor-"))
    out = {}
    with ThreadPoolExecutor(j) as ex:
        for name, res in ex.map(lambda n: job(n, seeds), names):
            out[name] = res
            miss = [k for k, v in res.items() if v is False]
            print(name, "ok" if not miss else "NOT REPRODUCED: " + " ".join(miss), flush=True)
    (VERIF / ".work" / "seed_robust.json").write_text(json.dumps(out, indent=1))
    tot = sum(len(r) for r in out.values())
    bad = sum(1 for r in out.values() for v in r.values() if v is False)
    print(f"{tot - bad}/{tot} (check, seed) pairs reproduce the catch")


if __name__ == "__main__":
    main()
