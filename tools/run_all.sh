#!/bin/bash
# usage: tools/run_all.sh [quick|thorough] [-j N]   -- runs every claimed check, prints one line per property
cd "$(dirname "$0")/.."
TIER=${1:-quick}; J=${3:-4}
IDS=$(/venv/bin/python -c "import json;print(' '.join(c['property_id'] for c in json.load(open('MANIFEST.json'))['checks']))" 2>/dev/null)
mkdir -p .work/runall
echo $IDS | tr ' ' '\n' | xargs -P $J -I{} bash -c "./check {} --tier $TIER > .work/runall/{}.log 2>&1; echo \"{} exit=\$? \$(grep -E 'VIOLATION|KNOWN-FINDING|HARNESS' .work/runall/{}.log | head -3 | tr '\n' ' ') \$(tail -1 .work/runall/{}.log)\""
