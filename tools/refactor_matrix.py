#!/venv/bin/python
"""Behaviour-preserving refactorings (seeded/refactor-<theme>-rK: patch.diff, equiv.py, agent_meta.json): confirm the
suite and the equivalence script pass with the patch, run EVERY claimed check (quick, part B) against the patched tree
and record which checks raise an alarm (expected: none).  usage: tools/refactor_matrix.py [-j N] <srcdir> <name> ..."""
import json, os, shutil, subprocess, sys, tempfile, time
from concurrent.futures import ThreadPoolExecutor
from pathlib import Path

VERIF = Path(__file__).resolve().parent.parent
claimed = [c["property_id"] for c in json.load(open(VERIF / "MANIFEST.json"))["checks"]]


def run(cmd, **kw):
    return subprocess.run(cmd, shell=True, capture_output=True, text=True, **kw)


def one(w, pid):
    t0 = time.time()
    r = run(f"cd {VERIF} && LYMPH_REPO={w} ./check {pid} --skip-proofs")
    viol = [l for l in r.stdout.splitlines() if l.startswith("VIOLATION")]
    herr = [l for l in (r.stdout + r.stderr).splitlines() if "HARNESS" in l][:2]
    return pid, {"result": "alarm" if (viol or r.returncode != 0) else "quiet", "violations": len(viol), "exit": r.returncode,
                 "first": (viol + herr + [""])[0][:300], "wall_s": round(time.time() - t0, 1)}


def main():
    args = sys.argv[1:]
    j = 6
    if args and args[0] == "-j":
        j = int(args[1]); args = args[2:]
    for src, name in zip(args[0::2], args[1::2]):
        src = Path(src)
        d = VERIF / "seeded" / name
        d.mkdir(parents=True, exist_ok=True)
        shutil.copy(src / "patch.diff", d / "patch.diff")
        shutil.copy(src / "equiv.py", d / "equiv.py")
        shutil.copy(src / "meta.json", d / "agent_meta.json")
        agent = json.loads((d / "agent_meta.json").read_text())
        w = tempfile.mkdtemp(prefix="refmat-", dir="/tmp"); os.rmdir(w)
        run(f"git -C /repo worktree add -q --detach {w} HEAD")
        try:
            eq0 = run(f"cd {w} && PYTHONPATH={w} timeout 900 /venv/bin/python {d/'equiv.py'}").returncode
            if run(f"git -C {w} apply {d/'patch.diff'}").returncode != 0:
                print(name, "patch does not apply"); continue
            eq1 = run(f"cd {w} && PYTHONPATH={w} timeout 900 /venv/bin/python {d/'equiv.py'}").returncode
            tests = run(f"cd {w} && PYTHONPATH={w} timeout 1200 /venv/bin/python -m pytest -q -p no:cacheprovider --timeout=900 2>&1 | tail -1").stdout.strip()
            with ThreadPoolExecutor(j) as ex:
                checks = dict(ex.map(lambda p: one(w, p), claimed))
            alarms = sorted(p for p, v in checks.items() if v["result"] == "alarm")
            meta = {"kind": "behaviour-preserving refactoring (no property is broken; every check must stay quiet)",
                    "summary": agent.get("summary"), "files": agent.get("files"), "why_equivalent": agent.get("why_equivalent"),
                    "confirmed": {"suite_with_change": tests, "equiv_exit_with_change": eq1, "equiv_exit_without_change": eq0},
                    "checks": checks, "alarms": alarms,
                    "ran": ["tools/refactor_matrix.py <dir> " + name]}
            (d / "meta.json").write_text(json.dumps(meta, indent=1))
            print(name, "tests:", tests, "equiv with/without:", eq1, eq0, "ALARMS:", alarms, flush=True)
        finally:
            run(f"git -C /repo worktree remove --force {w}")


if __name__ == "__main__":
    main()
