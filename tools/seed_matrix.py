#!/venv/bin/python
"""For every seeded/<name>: apply the patch to a scratch worktree, run the listed checks (quick, part B only),
record which checks report a VIOLATION, and write seeded/<name>/meta.json.
usage: tools/seed_matrix.py [name ...]   (default: all); extra checks per seed in EXTRA below."""
import json, os, subprocess, sys, tempfile, time
from pathlib import Path

VERIF = Path(__file__).resolve().parent.parent
EXTRA = {  # seeds that other properties' checks should (also) catch
    "C01-r2m1": ["C18", "C09"], "C04-r2m1": ["C13"], "C05-r2m1": ["C20", "C09"], "C06-r2m1": ["C09", "C20"], "C07-r2m1": ["C09"], "C07-r2m2": ["C18"],
    "C08-r2m2": ["C09", "C01"], "C09-r2m1": ["C11", "C04"], "C09-r2m2": ["C18"], "C10-r2m1": ["C18"], "C14-r2m2": ["C15"], "C20-r2m1": ["C06"], "C15-r2m1": ["C09"],
    "C01-m1": ["C20", "C09"], "C02-m1": ["C20", "C09", "C06"], "C03-m1": ["C02"], "C04-m1": ["C11"],
    "C08-m2": ["C01"], "C09-m2": ["C13"], "C09-m1": ["C20"], "C13-m1": ["C09"], "C11-m1": ["C10"], "C11-m2": ["C10"], "C12-m2": ["C18", "C10"], "C15-m1": ["C02"], "C15-m2": ["C01", "C08"], "C17-m2": ["C10"],
}
claimed = {c["property_id"] for c in json.load(open(VERIF / "MANIFEST.json"))["checks"]}


def run(cmd, **kw):
    return subprocess.run(cmd, shell=True, capture_output=True, text=True, **kw)


def main():
    names = sys.argv[1:] or sorted(p.name for p in (VERIF / "seeded").iterdir() if (p / "patch.diff").exists())
    for name in names:
        d = VERIF / "seeded" / name
        prop = name.split("-")[0]
        agent = json.loads((d / "agent_meta.json").read_text()) if (d / "agent_meta.json").exists() else {}
        w = tempfile.mkdtemp(prefix="seedmat-", dir="/tmp")
        os.rmdir(w)
        run(f"git -C /repo worktree add -q --detach {w} HEAD")
        try:
            ap = run(f"git -C {w} apply {d/'patch.diff'}")
            if ap.returncode != 0:
                print(name, "patch does not apply:", ap.stderr[:200])
                continue
            demo = run(f"cd {w} && PYTHONPATH={w} timeout 900 /venv/bin/python {d/'demo.py'}").returncode
            checks = {}
            for pid in [prop] + EXTRA.get(name, []):
                if not (VERIF / "harness" / "props" / f"{pid.lower()}.py").exists():
                    checks[pid] = "check not built"
                    continue
                t0 = time.time()
                r = run(f"cd {VERIF} && LYMPH_REPO={w} ./check {pid} --skip-proofs")
                viol = [l for l in r.stdout.splitlines() if l.startswith("VIOLATION")]
                checks[pid] = {"result": "caught" if viol else "missed", "violations": len(viol),
                               "no_failing_input_found": sum("no-failing-input-found" in l for l in viol),
                               "exit": r.returncode, "wall_s": round(time.time() - t0, 1)}
                for f in (VERIF / "replays").glob(f"{pid}-*.json"):
                    f.unlink()
            meta = {"breaks_property": prop, "summary": agent.get("summary"), "needs": agent.get("needs"),
                    "files": agent.get("files"),
                    "confirmed": {"suite_passes_with_change": "101 passed (tools/confirm_seed.sh)",
                                  "demo_exit_with_change": demo, "demo_exit_without_change": 0},
                    "checks": checks,
                    "ran": [f"tools/confirm_seed.sh <dir> {name}",
                            f"git apply patch.diff in a scratch worktree; LYMPH_REPO=<worktree> ./check <id> --skip-proofs"]}
            (d / "meta.json").write_text(json.dumps(meta, indent=1))
            print(name, {k: (v if isinstance(v, str) else v["result"]) for k, v in checks.items()})
        finally:
            run(f"git -C /repo worktree remove --force {w}")


if __name__ == "__main__":
    main()
