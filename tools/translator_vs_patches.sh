#!/bin/bash
# usage: tools/translator_vs_patches.sh <seeded-name> ...  : which translator obligations break under each stored patch
cd "$(dirname "$0")/.."
for name in "$@"; do
  W=$(mktemp -d /tmp/trv-XXXX); rmdir "$W"
  git -C /repo worktree add -q --detach "$W" HEAD || exit 2
  git -C "$W" apply /verif/seeded/$name/patch.diff || { echo "$name: patch does not apply"; git -C /repo worktree remove --force "$W"; continue; }
  mkdir -p .work/trv-$name
  broken=""
  for mod in $(ls harness/translate*.py | xargs -n1 basename | sed 's/.py//'); do
    for p in $(LYMPH_REPO=$W PYTHONPATH=/verif /venv/bin/python -c "import harness.$mod as m; print(' '.join(m.PIECES))" 2>/dev/null); do
      f=.work/trv-$name/Gen_$p.v
      if LYMPH_REPO=$W PYTHONPATH=/verif /venv/bin/python -c "import harness.$mod as m; print(m.generate('$p'))" > $f 2>/dev/null; then
        (cd .work/trv-$name && timeout 300 coqc -Q /verif/coq/theories LymphModel Gen_$p.v 2>&1 | grep -q "Closed under the global context") || broken="$broken $p(proof)"
      else broken="$broken $p(untranslatable)"; fi
    done
  done
  echo "$name: broken:${broken:- none}"
  rm -rf .work/trv-$name; git -C /repo worktree remove --force "$W"
done
