#!/bin/bash
# usage: tools/confirm_seed.sh <srcdir> <name> -- confirms (demo passes clean, fails mutated, suite passes mutated) and stores under seeded/<name>
D=$(realpath "$1"); NAME=$2
W=$(mktemp -d /tmp/seedconf-XXXX); rmdir "$W"
git -C /repo worktree add -q --detach "$W" HEAD || exit 2
trap 'git -C /repo worktree remove --force "$W" >/dev/null 2>&1' EXIT
(cd "$W" && PYTHONPATH="$W" timeout 900 /venv/bin/python "$D/demo.py" >/dev/null 2>&1); CLEAN=$?
git -C "$W" apply "$D/patch.diff" || { echo "$NAME: patch does not apply"; exit 2; }
(cd "$W" && PYTHONPATH="$W" timeout 900 /venv/bin/python "$D/demo.py" >/dev/null 2>&1); MUT=$?
TESTS=$(cd "$W" && PYTHONPATH="$W" timeout 1200 /venv/bin/python -m pytest -q -p no:cacheprovider --timeout=900 2>&1 | tail -1)
echo "$NAME: demo clean exit=$CLEAN mutated exit=$MUT tests: $TESTS"
if [ $CLEAN = 0 ] && [ $MUT != 0 ] && echo "$TESTS" | grep -q "101 passed"; then
  mkdir -p /verif/seeded/$NAME && cp "$D/patch.diff" "$D/demo.py" /verif/seeded/$NAME/ && cp "$D/meta.json" /verif/seeded/$NAME/agent_meta.json
  echo "$NAME: CONFIRMED"
else
  echo "$NAME: NOT CONFIRMED"
fi
