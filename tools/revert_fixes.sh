#!/bin/bash
# Regression of the repaired defects: for every `fix:` commit recorded in known_findings.json, revert it in a scratch
# worktree of /repo and run the checks of the properties it is recorded under (quick, part B); every one must report a
# VIOLATION again ("a fixed entry suppresses nothing").  usage: tools/revert_fixes.sh [-P N]
cd "$(dirname "$0")/.."
P=${2:-3}
/venv/bin/python - <<'PY' > .work/revlist.txt
import json, collections
d = json.load(open('known_findings.json'))
by = collections.OrderedDict()
for f in d['findings']:
    if f['status'] == 'fixed':
        by.setdefault(f['commit'], []).append(f['property'])
for c, ps in by.items():
    print(c, " ".join(sorted(set(ps))))
PY
one() {
  c=$1; shift
  W=$(mktemp -d /tmp/rev-XXXX); rmdir $W
  git -C /repo worktree add -q --detach $W HEAD
  if ! git -C $W revert -n $c >/dev/null 2>&1; then
    # a later fix builds on this one (808d5bf <- a8c87d2): revert the pair
    git -C $W revert --abort >/dev/null 2>&1; git -C $W checkout -q -- . ; git -C $W revert -n a8c87d2 $c >/dev/null 2>&1 || { echo "$c: revert conflicts"; git -C /repo worktree remove --force $W; return; }
  fi
  out="$c"
  for p in "$@"; do
    r=$(LYMPH_REPO=$W ./check $p --skip-proofs 2>&1 | grep -c "^VIOLATION")
    out="$out $p=$r"
  done
  echo "$out"
  git -C /repo worktree remove --force $W
}
export -f one
cat .work/revlist.txt | xargs -P $P -L1 bash -c 'one "$@"' _
