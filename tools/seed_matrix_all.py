#!/venv/bin/python
"""Round-3 (per source region) seeds: run EVERY claimed check (quick, part B only) against seeded/<name>,
write seeded/<name>/meta.json with the caught/quiet matrix.  usage: tools/seed_matrix_all.py [-j N] name ..."""
import json, os, subprocess, sys, tempfile, time
from concurrent.futures import ThreadPoolExecutor
from pathlib import Path

VERIF = Path(__file__).resolve().parent.parent
claimed = [c["property_id"] for c in json.load(open(VERIF / "MANIFEST.json"))["checks"]]


def run(cmd, **kw):
    return subprocess.run(cmd, shell=True, capture_output=True, text=True, **kw)


def one(w, pid):
    t0 = time.time()
    r = run(f"cd {VERIF} && LYMPH_REPO={w} ./check {pid} --skip-proofs")
    viol = [l for l in r.stdout.splitlines() if l.startswith("VIOLATION")]
    return pid, {"result": "caught" if viol else "quiet", "violations": len(viol),
                 "no_failing_input_found": sum("no-failing-input-found" in l for l in viol),
                 "exit": r.returncode, "wall_s": round(time.time() - t0, 1)}


def main():
    args = sys.argv[1:]
    j = 5
    only = None
    if args and args[0] == "-j":
        j = int(args[1]); args = args[2:]
    if args and args[0] == "--only":       # re-run only these checks (or 'quiet' = the named-but-quiet ones), merge into meta.json
        only = args[1]; args = args[2:]
    for name in args:
        d = VERIF / "seeded" / name
        agent = json.loads((d / "agent_meta.json").read_text())
        w = tempfile.mkdtemp(prefix="seedmat-", dir="/tmp"); os.rmdir(w)
        run(f"git -C /repo worktree add -q --detach {w} HEAD")
        try:
            if run(f"git -C {w} apply {d/'patch.diff'}").returncode != 0:
                print(name, "patch does not apply"); continue
            demo = run(f"cd {w} && PYTHONPATH={w} timeout 900 /venv/bin/python {d/'demo.py'}").returncode
            todo, old = claimed, {}
            if only and (d / "meta.json").exists():
                old = json.loads((d / "meta.json").read_text()).get("checks", {})
                prev = json.loads((d / "meta.json").read_text())
                todo = (prev.get("named_but_quiet", []) if only == "quiet" else
                        prev.get("caught_by", []) if only == "caught" else only.split(","))
                if not todo:
                    continue
            with ThreadPoolExecutor(j) as ex:
                checks = {**old, **dict(ex.map(lambda p: one(w, p), todo))}
            named = agent.get("properties") or []
            meta = {"breaks_property": named, "region": agent.get("files") or agent.get("file"), "summary": agent.get("summary"),
                    "needs": agent.get("needs"),
                    "confirmed": {"suite_passes_with_change": "101 passed (tools/confirm_seed.sh)",
                                  "demo_exit_with_change": demo, "demo_exit_without_change": 0},
                    "checks": checks,
                    "caught_by": sorted(p for p, v in checks.items() if v["result"] == "caught"),
                    "named_but_quiet": sorted(p for p in named if p in checks and checks[p]["result"] == "quiet"),
                    "ran": [f"tools/confirm_seed.sh <dir> {name}",
                            "git apply patch.diff in a scratch worktree; LYMPH_REPO=<worktree> ./check <id> --skip-proofs for every claimed id"]}
            (d / "meta.json").write_text(json.dumps(meta, indent=1))
            lost = sorted(p for p in todo if old.get(p, {}).get("result") == "caught" and checks[p]["result"] != "caught") if only else []
            print(name, "named", named, "caught_by", meta["caught_by"], "named_but_quiet", meta["named_but_quiet"],
                  ("LOST " + str(lost)) if lost else "", flush=True)
        finally:
            run(f"git -C /repo worktree remove --force {w}")


if __name__ == "__main__":
    main()
