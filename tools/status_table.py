#!/venv/bin/python
"""Print the per-property status table (markdown) from MANIFEST.json, evidence/*.json and seeded/*/meta.json."""
import json
from pathlib import Path

V = Path(__file__).resolve().parent.parent
man = json.load(open(V / "MANIFEST.json"))
seeds = {}
for d in sorted((V / "seeded").iterdir()):
    m = d / "meta.json"
    if m.exists():
        meta = json.loads(m.read_text())
        for pid, r in meta.get("checks", {}).items():
            if isinstance(r, dict) and r["result"] != "quiet":     # round 3 ran every check: list only the catches
                seeds.setdefault(pid, []).append((d.name, r["result"]))
print("| id | theorems (all closed) | quick: cases / non-trivial / wall | known findings printed | seeded changes caught by this check |")
print("|---|---|---|---|---|")
for c in man["checks"]:
    pid = c["property_id"]
    ev = json.load(open(V / c["evidence_file"])) if (V / c["evidence_file"]).exists() else None
    if ev:
        cov = ev["coverage"]
        th = f"{cov['discharged']}/{cov['obligations']}"
        q = f"{cov['evaluations']} / {cov['distinct_nontrivial']} / {ev['wall_s']:.0f} s ({ev['tier']})"
        kf = len(cov.get("known_findings_hit", []))
    else:
        th = q = kf = "-"
    sd = ", ".join(f"{n}{'' if r == 'caught' else ' (MISSED)'}" for n, r in seeds.get(pid, []))
    print(f"| {pid} | {th} | {q} | {kf} | {sd} |")
