#!/venv/bin/python
"""Rewrite the seeded-changes table in DESIGN.md (between the SEEDS-TABLE markers) from seeded/*/meta.json."""
import glob, json, os, re
V = os.path.dirname(os.path.dirname(os.path.abspath(__file__)))
rows = []
n = 0
own_missed = []
for d in sorted(glob.glob(V + "/seeded/*")):
    m = os.path.join(d, "meta.json")
    if not os.path.exists(m) or os.path.basename(d).startswith("refactor-"):
        continue
    n += 1
    meta = json.load(open(m)); name = os.path.basename(d)
    ch = meta["checks"]
    caught = [k for k, v in ch.items() if isinstance(v, dict) and v["result"] == "caught"]
    missed = [k for k, v in ch.items() if isinstance(v, dict) and v["result"] == "missed"]
    if name.startswith(("R3-", "R4-", "R5-", "R6-")):        # round 3: every claimed check was run; list the named-but-quiet ones
        missed = meta.get("named_but_quiet", [])
        if not caught:
            own_missed.append(name)
    elif name.split("-")[0] in missed:
        own_missed.append(name)
    cut = lambda t, k: (t[:k - 3] + "...") if len(t) > k else t
    summ = cut((meta.get("summary") or "").replace("|", "/").replace("\n", " "), 170)
    need = cut((meta.get("needs") or "").replace("|", "/").replace("\n", " "), 150)
    rows.append(f"| {name} | {summ} | {need} | {', '.join(caught)} | {', '.join(missed) or '–'} |")
table = (f"{n} changes are stored (`-m1/-m2`: first round, `-r2m1/-r2m2`: second round asking for harder changes: multi-step\n"
         "sequences, cooperating sites, rare configurations, numerical coincidences; `R3-<region>-mK`: third round, three changes per\n"
         "source file; `R4-gK-mN`: fourth round, three changes per group of public entry points; `R5-Cxx`: fifth round, one change per\n"
         "property asking for cooperating sites / multi-step histories / unusual inputs / coincidences; `R6-Cxx-mK`: sixth round, two such\n"
         "changes for each of ten properties; for R3/R4/R5/R6 ALL 20 checks were run\n"
         "against each change and the last column lists the properties the author named whose check stayed quiet). "
         + ("Every change is caught by the check of the property it was written for"
            + (f", except {', '.join(own_missed)} (caught by the checks listed)" if own_missed else "") + ".\n\n")
         + "| seed | change | needs | caught by | tried, not caught |\n|---|---|---|---|---|\n" + "\n".join(rows) + "\n")
p = V + "/DESIGN.md"
s = open(p).read()
s = re.sub(r"<!-- SEEDS-TABLE-BEGIN -->.*<!-- SEEDS-TABLE-END -->", "<!-- SEEDS-TABLE-BEGIN -->\n" + table + "<!-- SEEDS-TABLE-END -->", s, flags=re.S)
open(p, "w").write(s)
print(n, "seeds;", "own-check misses:", own_missed)
