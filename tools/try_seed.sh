#!/bin/bash
# usage: tools/try_seed.sh <dir with patch.diff [demo.py]> <Cxx> [<Cyy> ...]
# Applies the patch to a scratch worktree of /repo, runs the demo (expects exit 1) and the given checks against it.
set -u
D=$(realpath "$1"); shift
W=$(mktemp -d /tmp/seedrun-XXXX); rmdir "$W"
git -C /repo worktree add -q --detach "$W" HEAD || exit 2
trap 'git -C /repo worktree remove --force "$W" >/dev/null 2>&1; rm -f /verif/replays/*-seedtmp*' EXIT
if ! git -C "$W" apply "$D/patch.diff"; then echo "PATCH DOES NOT APPLY"; exit 2; fi
if [ -f "$D/demo.py" ]; then
  (cd "$W" && PYTHONPATH="$W" timeout 600 /venv/bin/python "$D/demo.py" >/tmp/seed_demo.out 2>&1); echo "demo exit (mutated): $?"
fi
if [ "${RUN_TESTS:-0}" = 1 ]; then
  (cd "$W" && PYTHONPATH="$W" timeout 900 /venv/bin/python -m pytest -q -p no:cacheprovider --timeout=900 2>&1 | tail -1)
fi
for P in "$@"; do
  echo "== check $P against mutation"
  (cd /verif && LYMPH_REPO="$W" VERIF_TIER="${TIER:-quick}" ./check "$P" --skip-proofs 2>&1 | grep -E "VIOLATION|KNOWN-FINDING|HARNESS-ERROR|^\[$P\]" | head -6)
done
