#!/venv/bin/python
"""Re-run, for every stored change, those of the given checks that were recorded as catching it; report catches that got lost.
usage: tools/recheck_changed.py -j N C01,C02,...   (does not rewrite meta.json unless --write)"""
import json, os, subprocess, sys, tempfile
from concurrent.futures import ThreadPoolExecutor
from pathlib import Path
V = Path(__file__).resolve().parent.parent
args = sys.argv[1:]
j = 4
if args[0] == "-j":
    j = int(args[1]); args = args[2:]
which = set(args[0].split(","))
jobs = []
for d in sorted((V / "seeded").iterdir()):
    m = d / "meta.json"
    if d.name.startswith("refactor-") or not m.exists():
        continue
    meta = json.loads(m.read_text())
    caught = [k for k, v in meta.get("checks", {}).items() if isinstance(v, dict) and v.get("result") == "caught" and k in which]
    if caught:
        jobs.append((d, caught))

def run(job):
    d, caught = job
    w = tempfile.mkdtemp(prefix="rechk-", dir="/tmp"); os.rmdir(w)
    subprocess.run(f"git -C /repo worktree add -q --detach {w} HEAD", shell=True)
    lost = []
    try:
        if subprocess.run(f"git -C {w} apply {d/'patch.diff'}", shell=True, capture_output=True).returncode != 0:
            return d.name, ["PATCH-DOES-NOT-APPLY"]
        for pid in caught:
            r = subprocess.run(f"cd {V} && LYMPH_REPO={w} ./check {pid} --skip-proofs", shell=True, capture_output=True, text=True)
            if not any(l.startswith("VIOLATION") for l in r.stdout.splitlines()):
                lost.append(pid)
    finally:
        subprocess.run(f"git -C /repo worktree remove --force {w}", shell=True)
    return d.name, lost

with ThreadPoolExecutor(j) as ex:
    n = 0
    for name, lost in ex.map(run, jobs):
        n += 1
        if lost:
            print(name, "LOST", lost, flush=True)
print("rechecked", n, "changes for", sorted(which))
