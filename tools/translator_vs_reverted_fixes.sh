#!/bin/bash
c=$1; cd /verif
W=$(mktemp -d /tmp/trr-XXXX); rmdir "$W"; git -C /repo worktree add -q --detach "$W" HEAD
git -C "$W" apply -R /verif/.work/revfix/$c.diff 2>/dev/null || { echo "$c: reverse patch does not apply"; git -C /repo worktree remove --force "$W"; exit; }
mkdir -p .work/trr-$c; broken=""
for mod in $(ls /verif/harness/translate*.py | xargs -n1 basename | sed "s/.py//"); do
  for p in $(LYMPH_REPO=$W PYTHONPATH=/verif /venv/bin/python -c "import harness.$mod as m; print(' '.join(m.PIECES))" 2>/dev/null); do
    f=.work/trr-$c/Gen_$p.v
    if LYMPH_REPO=$W PYTHONPATH=/verif /venv/bin/python -c "import harness.$mod as m; print(m.generate('$p'))" > $f 2>/dev/null; then
      (cd .work/trr-$c && timeout 300 coqc -Q /verif/coq/theories LymphModel Gen_$p.v 2>&1 | grep -q "Closed under the global context") || broken="$broken $p(proof)"
    else broken="$broken $p(untranslatable)"; fi
  done
done
echo "$c $(git -C /repo log -1 --format=%s $c | cut -c1-70): broken:${broken:- none}"
rm -rf .work/trr-$c; git -C /repo worktree remove --force "$W"
