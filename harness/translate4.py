"""Source-to-Gallina translator, fourth part: the remaining functions of lymph/matrix.py and two helpers of lymph/utils.py.

On every run the CURRENT Python source under $LYMPH_REPO is parsed with `ast`, a Gallina term `gen_<function>` is emitted,
and a generated file PROVES it equal to the hand-written model for ALL arguments.  For the three matrix functions the
generated term is first checked by conversion (`reflexivity`) against the line-by-line numpy reading `np_<function>` of
coq/theories/NumpyMatrix.v, which is STATICALLY proved equal to the model:

  matrix.fast_trace              -> gen_fast_trace             = Linalg.fast_trace          (left is P x S, right is S x P)
  matrix.evolve_midext           -> gen_evolve_midext          = NumpyMatrix.evolve_midext  (rows [(1-p)^t; 1-(1-p)^t], every
                                                                 row sums to 1, = Midline.midext_evo row by row)
  matrix.generate_data_encoding  -> gen_generate_data_encoding = sequence (map (Unilateral.patient_encoding lnls mods) rows)
                                                                 (= Unilateral.data_matrix on the selected rows)
  utils.early_late_mapping       -> gen_early_late_mapping     = Encoding.early_late
  utils.add_or_mult              -> gen_add_or_mult            = NumpyMatrix.add_or_mult    (both branches, parametric in log)

Fail-closed: every statement / expression form that is not listed in the translate_* function of a piece raises
`Untranslatable`.  Decorators (`@lru_cache`) and type annotations are ignored (a cache does not change the value).

What the translator itself *assumes* (trusted base):
* numpy reading (definitions in NumpyMatrix.v / Numpy.v / Linalg.v): a 2-D array is the list of its rows and carries its shape
  (the translator tracks shapes symbolically and passes widths explicitly, so arrays with zero rows are read correctly);
  `X.T` = np_T, `X * Y` on 2-D arrays of EQUAL shape = np_mul2 (no broadcasting: equal shapes are hypotheses of the lemma),
  `np.sum(X, axis=0)` = np_sum_axis0, `np.zeros(shape=(r, c), dtype=float)` = np_zeros, `np.array([[..], ..])` = the list of rows,
  `M[i, j] = v` = np_set2, `M[i, :] = row` = np_set_row, `M[:, i] = v` = np_set_col (v as long as M has rows: proved for every
  reachable value in np_generate_data_encoding_eq), `M[i, :] @ N` = np_vecmat (entry j = sum_k M[i, k] * N[k, j]),
  `np.ones(shape=n, dtype=bool)` = repeat true n, `np.ones(shape=(r, c), dtype=bool)` = np_ones_b, `np.kron` on two 1-D boolean
  arrays = kron_bvec, `np.prod(arr)` = prodQ, `np.sum(np.log(arr))` = sumQ (map ln arr) for an ABSTRACT function ln (the
  logarithm is not rational), `len(X)` = number of rows / elements; Python ints used as sizes and indices are naturals;
  floats are exact rationals (no rounding).
* fast_trace: `left` has shape (len(left), S) where S is a parameter of the generated term.
* generate_data_encoding (pandas hooks): `patient_data["_model"].iterrows()` yields the rows of the table in order, one per
  patient, and `len(patient_data)` is their number; a row is read as the model's `patient` record p:
  `name not in patient_row` iff `diag_get name (p_find p) = None`, `patient_row[name]` = the pattern pat with
  `diag_get name (p_find p) = Some pat` (read by compute_encoding through pat_get, see translate2's compute_encoding piece);
  `modalities.keys()` (or iterating `modalities`) = the model's modality names in insertion order, `len(modalities)` their
  number; `compute_encoding` = Observation.compute_encoding with its ValueError = `inl MValue`, which ends the call;
  `warnings.warn(...)` has no effect on the value.
* early_late_mapping: the argument is an integer and `int(t_stage)` is the identity on it (Encoding.row stores the raw
  T-category as Z); `raise` = None.
"""
from __future__ import annotations

import ast

from .translate import Untranslatable, _func, _is_np, _src, _strip_doc
from .translate2 import BOOL, NAT, Q, Imp, _attr_chain, _kw

_FULL = ast.dump(ast.Slice())


def _params(fn, want):
    a = fn.args
    got = [x.arg for x in a.args]
    if got != want or a.vararg or a.kwarg or a.kwonlyargs or a.posonlyargs:
        raise Untranslatable(f"signature {got} != {want}")


def _np_call(e, attr):
    """np.<attr>(...) with any keywords"""
    return isinstance(e, ast.Call) and _attr_chain(e.func) == ["np", attr]


def _dtype(kw, want):
    if "dtype" in kw and not (isinstance(kw["dtype"], ast.Name) and kw["dtype"].id == want):
        raise Untranslatable(f"dtype is not {want}")


def _kwargs(call, allowed, required):
    if call.args:
        raise Untranslatable("positional arguments")
    kw = {k.arg: k.value for k in call.keywords}
    if len(kw) != len(call.keywords) or not set(required) <= set(kw) <= set(allowed):
        raise Untranslatable(f"keywords {sorted(kw)}")
    return kw


def _is_full_slice(e):
    return isinstance(e, ast.Slice) and ast.dump(e) == _FULL


# ----------------------------------------------------------------------------------------------------------------------
# matrix.fast_trace
# ----------------------------------------------------------------------------------------------------------------------
class Shaped:
    """2-D float arrays with symbolic shapes (rows, cols); cols = None when unknown.
       arrays: NAME | X.T (the column count of X must be known) | X * Y (equal shapes assumed, see module docstring)"""

    def __init__(self, arrays):
        self.arrays = dict(arrays)        # python name -> (text, (rows, cols))

    def arr(self, e):
        if isinstance(e, ast.Name) and e.id in self.arrays:
            return self.arrays[e.id]
        if isinstance(e, ast.Attribute) and e.attr == "T":
            t, (r, c) = self.arr(e.value)
            if c is None:
                raise Untranslatable("transpose of an array whose column count is unknown")
            return (f"(np_T 0%Qc {c} {t})", (c, r))
        if isinstance(e, ast.BinOp) and isinstance(e.op, ast.Mult):
            (a, (ra, ca)), (b, (rb, cb)) = self.arr(e.left), self.arr(e.right)
            return (f"(np_mul2 {a} {b})", (ra, ca if ca is not None else cb))
        raise Untranslatable(f"array expression {ast.dump(e)[:160]}")


def translate_fast_trace() -> str:
    """return np.sum(ARRAY, axis=0)"""
    fn = _func(ast.parse(_src("lymph/matrix.py")), "fast_trace")
    _params(fn, ["left", "right"])
    st = _strip_doc(fn.body)
    if len(st) != 1 or not isinstance(st[0], ast.Return):
        raise Untranslatable("body is not a single return")
    e = st[0].value
    ok = (_np_call(e, "sum") and len(e.args) == 1 and len(e.keywords) == 1 and e.keywords[0].arg == "axis"
          and isinstance(e.keywords[0].value, ast.Constant) and e.keywords[0].value.value == 0
          and not isinstance(e.keywords[0].value.value, bool))
    if not ok:
        raise Untranslatable("return value is not np.sum(X, axis=0)")
    sh = Shaped({"left": ("left", ("(length left)", "S")), "right": ("right", ("(length right)", None))})
    t, (_, c) = sh.arr(e.args[0])
    if c is None:
        raise Untranslatable("column count of the summed array is unknown")
    return ("Definition gen_fast_trace (S : nat) (left right : mat) : vec :=\n"
            f"  np_sum_axis0 {c} {t}.\n"
            "Lemma gen_fast_trace_np : forall S left right, gen_fast_trace S left right = np_fast_trace S left right.\n"
            "Proof. intros. reflexivity. Qed.\n"
            "Lemma gen_fast_trace_eq : forall S left right,\n"
            "  Forall (fun r => length r = S) left -> length right = S -> Forall (fun r => length r = length left) right ->\n"
            "  gen_fast_trace S left right = fast_trace left right.\n"
            "Proof. intros S left right H1 H2 H3. rewrite gen_fast_trace_np. apply np_fast_trace_eq; assumption. Qed.\n")


# ----------------------------------------------------------------------------------------------------------------------
# matrix.evolve_midext
# ----------------------------------------------------------------------------------------------------------------------
def translate_evolve_midext() -> str:
    """statements  NAME = np.zeros(shape=(R, C), dtype=float) | NAME[I, J] = VALUE | NAME = np.array([[V, ..], ..])
                   | for V in range(N): NAME[I, :] = NAME2[I2, :] @ NAME3 | return NAME
       sizes / indices: names, int constants, + - *, len(NAME); values: names, constants, + - *"""
    fn = _func(ast.parse(_src("lymph/matrix.py")), "evolve_midext")
    _params(fn, ["max_time", "midext_prob"])
    arrays = {}                                   # name -> (rows text, cols text)

    def hook(imp, e):
        if (isinstance(e, ast.Call) and isinstance(e.func, ast.Name) and e.func.id == "len" and len(e.args) == 1
                and not e.keywords and isinstance(e.args[0], ast.Name) and e.args[0].id in arrays):
            return (f"(length {e.args[0].id})", NAT)
        return None
    sc = Imp({"max_time": ("max_time", NAT), "midext_prob": ("midext_prob", Q)}, hook, [])

    def nat(e):
        return sc.coerce(sc.expr(e), NAT)

    def val(e):
        return sc.coerce(sc.expr(e), Q)

    def row_of(e):
        """NAME[I, :] -> (NAME, I text)"""
        if (isinstance(e, ast.Subscript) and isinstance(e.value, ast.Name) and e.value.id in arrays
                and isinstance(e.slice, ast.Tuple) and len(e.slice.elts) == 2 and _is_full_slice(e.slice.elts[1])):
            return e.value.id, nat(e.slice.elts[0])
        raise Untranslatable(f"row access {ast.dump(e)[:120]}")

    st = _strip_doc(fn.body)
    out = []
    for k, s in enumerate(st):
        if isinstance(s, ast.Return):
            if k != len(st) - 1 or not (isinstance(s.value, ast.Name) and s.value.id in arrays):
                raise Untranslatable("return")
            out.append(s.value.id)
            return ("Definition gen_evolve_midext (max_time : nat) (midext_prob : Qc) : mat :=\n  " + "\n  ".join(out) + ".\n"
                    "Lemma gen_evolve_midext_np : forall t p, gen_evolve_midext t p = np_evolve_midext t p.\n"
                    "Proof. intros. reflexivity. Qed.\n"
                    "Lemma gen_evolve_midext_eq : forall t p, gen_evolve_midext t p = evolve_midext t p.\n"
                    "Proof. intros t p. rewrite gen_evolve_midext_np. apply np_evolve_midext_eq. Qed.\n"
                    "Lemma gen_evolve_midext_rows : forall T p t, (t <= T)%nat ->\n"
                    "  nth t (gen_evolve_midext T p) [] = [Dist.qpow (1 - p) t; 1 - Dist.qpow (1 - p) t].\n"
                    "Proof. intros T p t H. rewrite gen_evolve_midext_eq. apply evolve_midext_row. exact H. Qed.\n"
                    "Lemma gen_evolve_midext_stochastic : forall T p, Forall (fun r => sumQ r = 1) (gen_evolve_midext T p).\n"
                    "Proof. intros T p. rewrite gen_evolve_midext_eq. apply evolve_midext_rows_sum. Qed.\n"
                    "Lemma gen_evolve_midext_midline : forall ml,\n"
                    "  midext_evo ml = map (fun r => (nth 0 r 0, nth 1 r 0)) (gen_evolve_midext (ml_maxt ml) (ml_midext ml)).\n"
                    "Proof. intros ml. rewrite gen_evolve_midext_eq. apply midext_evo_evolve_midext. Qed.\n"
                    "Definition gen_evolve_midext_all := (gen_evolve_midext_eq, gen_evolve_midext_rows, gen_evolve_midext_stochastic,\n"
                    "  gen_evolve_midext_midline).\n")
        if isinstance(s, ast.Assign) and len(s.targets) == 1 and isinstance(s.targets[0], ast.Name):
            name, v = s.targets[0].id, s.value
            if _np_call(v, "zeros"):
                kw = _kwargs(v, ["shape", "dtype"], ["shape"])
                _dtype(kw, "float")
                if not (isinstance(kw["shape"], ast.Tuple) and len(kw["shape"].elts) == 2):
                    raise Untranslatable("np.zeros shape is not a pair")
                r, c = (nat(x) for x in kw["shape"].elts)
                out.append(f"let {name} := np_zeros {r} {c} in")
                arrays[name] = (r, c)
                continue
            if _is_np(v, "array") and len(v.args) == 1 and isinstance(v.args[0], ast.List) and v.args[0].elts \
                    and all(isinstance(r, ast.List) and len(r.elts) == len(v.args[0].elts[0].elts) and r.elts for r in v.args[0].elts):
                rows = ["[" + "; ".join(val(x) for x in r.elts) + "]" for r in v.args[0].elts]
                out.append(f"let {name} := [" + "; ".join(rows) + "] in")
                arrays[name] = (f"{len(rows)}%nat", f"{len(v.args[0].elts[0].elts)}%nat")
                continue
            raise Untranslatable(f"assignment {ast.dump(v)[:160]}")
        if isinstance(s, ast.Assign) and len(s.targets) == 1 and isinstance(s.targets[0], ast.Subscript):
            t = s.targets[0]
            if (isinstance(t.value, ast.Name) and t.value.id in arrays and isinstance(t.slice, ast.Tuple) and len(t.slice.elts) == 2
                    and not any(isinstance(x, ast.Slice) for x in t.slice.elts)):
                i, j = (nat(x) for x in t.slice.elts)
                out.append(f"let {t.value.id} := np_set2 {t.value.id} {i} {j} {val(s.value)} in")
                continue
            raise Untranslatable(f"assignment target {ast.dump(t)[:160]}")
        if isinstance(s, ast.For) and not s.orelse and isinstance(s.target, ast.Name) and len(s.body) == 1:
            it = s.iter
            if not (isinstance(it, ast.Call) and isinstance(it.func, ast.Name) and it.func.id == "range" and len(it.args) == 1
                    and not it.keywords):
                raise Untranslatable("loop is not over range(N)")
            n = nat(it.args[0])                                   # evaluated once, before the loop
            i = s.target.id
            if i in arrays or i in sc.env:
                raise Untranslatable("loop variable shadows a name")
            u = s.body[0]
            if not (isinstance(u, ast.Assign) and len(u.targets) == 1 and isinstance(u.value, ast.BinOp)
                    and isinstance(u.value.op, ast.MatMult) and isinstance(u.value.right, ast.Name) and u.value.right.id in arrays):
                raise Untranslatable("loop body is not `A[I, :] = B[J, :] @ M`")
            sc.env[i] = (i, NAT)
            dst, di = row_of(u.targets[0])
            src, si = row_of(u.value.left)
            del sc.env[i]
            m = u.value.right.id
            if arrays[src][1] != arrays[m][0]:
                raise Untranslatable(f"@: a row of {src} has {arrays[src][1]} entries, {m} has {arrays[m][0]} rows")
            if arrays[m][1] != arrays[dst][1]:
                raise Untranslatable(f"a row of {dst} has {arrays[dst][1]} entries, the product {arrays[m][1]}")
            if m == dst or src != dst:
                raise Untranslatable("the loop must read and write the same array and not modify the matrix")
            out.append(f"let {dst} := fold_left (fun ({dst} : mat) ({i} : nat) =>\n"
                       f"      np_set_row {dst} {di} (np_vecmat {arrays[m][1]} (nth {si} {src} []) {m}))\n"
                       f"    (seq 0 {n}) {dst} in")
            continue
        raise Untranslatable(f"statement {type(s).__name__}: {ast.dump(s)[:160]}")
    raise Untranslatable("no return")


# ----------------------------------------------------------------------------------------------------------------------
# matrix.generate_data_encoding
# ----------------------------------------------------------------------------------------------------------------------
def translate_generate_data_encoding() -> str:
    """RES = np.ones(shape=(R, C), dtype=bool)
       for I, (_, ROW) in enumerate(patient_data["_model"].iterrows()):
           PE = np.ones(shape=N, dtype=bool)
           for M in modalities.keys():                       (or: in modalities)
               if M not in ROW:   [warnings.warn(...)]  DE = BRANCH            (or `if M in ROW` with the branches swapped)
               else:              DE = BRANCH
               PE = np.kron(X, Y)                            X, Y in {PE, DE}
           RES[:, I] = PE
       return RES.T
       BRANCH = np.ones(shape=N, dtype=bool) | compute_encoding(lnls=lnls, pattern=ROW[M], base=N)  (the latter only where M in ROW)"""
    fn = _func(ast.parse(_src("lymph/matrix.py")), "generate_data_encoding")
    _params(fn, ["patient_data", "modalities", "lnls"])

    def hook(imp, e):
        if (isinstance(e, ast.Call) and isinstance(e.func, ast.Name) and e.func.id == "len" and len(e.args) == 1
                and not e.keywords and isinstance(e.args[0], ast.Name) and e.args[0].id in ("lnls", "modalities", "patient_data")):
            return (f"(length {e.args[0].id})", NAT)
        return None
    sc = Imp({}, hook, [])

    def nat(e):
        return sc.coerce(sc.expr(e), NAT)

    def ones_b(e):
        """np.ones(shape=..., dtype=bool) -> the shape expression"""
        if not _np_call(e, "ones"):
            raise Untranslatable(f"expected np.ones(...): {ast.dump(e)[:120]}")
        kw = _kwargs(e, ["shape", "dtype"], ["shape", "dtype"])
        _dtype(kw, "bool")
        return kw["shape"]

    st = _strip_doc(fn.body)
    if len(st) != 3:
        raise Untranslatable(f"{len(st)} statements")
    init, loop, ret = st
    if not (isinstance(init, ast.Assign) and len(init.targets) == 1 and isinstance(init.targets[0], ast.Name)):
        raise Untranslatable("first statement")
    res = init.targets[0].id
    shp = ones_b(init.value)
    if not (isinstance(shp, ast.Tuple) and len(shp.elts) == 2):
        raise Untranslatable("shape of the result is not a pair")
    R, C = nat(shp.elts[0]), nat(shp.elts[1])

    # for I, (_, ROW) in enumerate(patient_data["_model"].iterrows()):
    it, tg = loop.iter if isinstance(loop, ast.For) else None, getattr(loop, "target", None)
    ok = (isinstance(loop, ast.For) and not loop.orelse and isinstance(it, ast.Call) and isinstance(it.func, ast.Name)
          and it.func.id == "enumerate" and len(it.args) == 1 and not it.keywords
          and isinstance(it.args[0], ast.Call) and not it.args[0].args and not it.args[0].keywords
          and isinstance(it.args[0].func, ast.Attribute) and it.args[0].func.attr == "iterrows"
          and isinstance(it.args[0].func.value, ast.Subscript) and isinstance(it.args[0].func.value.value, ast.Name)
          and it.args[0].func.value.value.id == "patient_data" and isinstance(it.args[0].func.value.slice, ast.Constant)
          and it.args[0].func.value.slice.value == "_model"
          and isinstance(tg, ast.Tuple) and len(tg.elts) == 2 and isinstance(tg.elts[0], ast.Name)
          and isinstance(tg.elts[1], ast.Tuple) and len(tg.elts[1].elts) == 2
          and all(isinstance(x, ast.Name) for x in tg.elts[1].elts))
    if not ok:
        raise Untranslatable('outer loop is not `for i, (_, row) in enumerate(patient_data["_model"].iterrows())`')
    i, row = tg.elts[0].id, tg.elts[1].elts[1].id
    if len({i, row, res, tg.elts[1].elts[0].id, "lnls", "modalities", "patient_data"}) != 7:
        raise Untranslatable("name clash in the outer loop")
    if len(loop.body) != 3:
        raise Untranslatable("outer loop body")
    pe_init, inner, store = loop.body
    if not (isinstance(pe_init, ast.Assign) and len(pe_init.targets) == 1 and isinstance(pe_init.targets[0], ast.Name)):
        raise Untranslatable("initialisation of the patient encoding")
    pe = pe_init.targets[0].id
    pe0 = nat(ones_b(pe_init.value))

    # for M in modalities.keys():
    it = inner.iter if isinstance(inner, ast.For) else None
    ok = (isinstance(inner, ast.For) and not inner.orelse and isinstance(inner.target, ast.Name)
          and ((isinstance(it, ast.Name) and it.id == "modalities")
               or (isinstance(it, ast.Call) and not it.args and not it.keywords and _attr_chain(it.func) == ["modalities", "keys"])))
    if not ok:
        raise Untranslatable("inner loop is not `for name in modalities.keys()`")
    m = inner.target.id
    if len(inner.body) != 2:
        raise Untranslatable("inner loop body")
    cond, upd = inner.body
    ok = (isinstance(cond, ast.If) and cond.orelse and isinstance(cond.test, ast.Compare) and len(cond.test.ops) == 1
          and isinstance(cond.test.ops[0], (ast.NotIn, ast.In)) and isinstance(cond.test.left, ast.Name) and cond.test.left.id == m
          and isinstance(cond.test.comparators[0], ast.Name) and cond.test.comparators[0].id == row)
    if not ok:
        raise Untranslatable(f"test is not `{m} not in {row}`")
    absent, present = (cond.body, cond.orelse) if isinstance(cond.test.ops[0], ast.NotIn) else (cond.orelse, cond.body)

    def branch(stmts, has_row):
        stmts = [s for s in stmts if not (isinstance(s, ast.Expr) and isinstance(s.value, ast.Call)
                                          and _attr_chain(s.value.func) == ["warnings", "warn"])]
        if not (len(stmts) == 1 and isinstance(stmts[0], ast.Assign) and len(stmts[0].targets) == 1
                and isinstance(stmts[0].targets[0], ast.Name)):
            raise Untranslatable("a branch is not a single assignment (besides warnings.warn)")
        v = stmts[0].value
        if isinstance(v, ast.Call) and isinstance(v.func, ast.Name) and v.func.id == "compute_encoding":
            if not has_row:
                raise Untranslatable("compute_encoding on a modality that is not in the row")
            a_lnls, a_pat, a_base = _kw(v, ["lnls", "pattern", "base"])
            ok = (isinstance(a_lnls, ast.Name) and a_lnls.id == "lnls" and isinstance(a_pat, ast.Subscript)
                  and isinstance(a_pat.value, ast.Name) and a_pat.value.id == row and isinstance(a_pat.slice, ast.Name)
                  and a_pat.slice.id == m)
            if not ok:
                raise Untranslatable(f"compute_encoding arguments are not lnls=lnls, pattern={row}[{m}]")
            txt = f"match compute_encoding lnls pattern {nat(a_base)} with None => inl MValue | Some e => inr e end"
        else:
            txt = f"inr (repeat true {nat(ones_b(v))})"
        return stmts[0].targets[0].id, txt
    de, t_abs = branch(absent, False)
    de2, t_pre = branch(present, True)
    if de != de2 or len({de, pe, m, i, row, res, "lnls", "modalities", "patient_data", "pattern", "acc", "e"}) != 12:
        raise Untranslatable("the branches assign different variables / name clash")
    ok = (isinstance(upd, ast.Assign) and len(upd.targets) == 1 and isinstance(upd.targets[0], ast.Name) and upd.targets[0].id == pe
          and _is_np(upd.value, "kron") and len(upd.value.args) == 2
          and all(isinstance(x, ast.Name) and x.id in (pe, de) for x in upd.value.args))
    if not ok:
        raise Untranslatable(f"inner update is not `{pe} = np.kron(., .)` over {pe}, {de}")
    ka, kb = (x.id for x in upd.value.args)

    # RES[:, I] = PE
    t = store.targets[0] if isinstance(store, ast.Assign) and len(store.targets) == 1 else None
    ok = (isinstance(t, ast.Subscript) and isinstance(t.value, ast.Name) and t.value.id == res and isinstance(t.slice, ast.Tuple)
          and len(t.slice.elts) == 2 and _is_full_slice(t.slice.elts[0]) and isinstance(t.slice.elts[1], ast.Name)
          and t.slice.elts[1].id == i and isinstance(store.value, ast.Name) and store.value.id == pe)
    if not ok:
        raise Untranslatable(f"the row loop does not end in `{res}[:, {i}] = {pe}`")
    ok = (isinstance(ret, ast.Return) and isinstance(ret.value, ast.Attribute) and ret.value.attr == "T"
          and isinstance(ret.value.value, ast.Name) and ret.value.value.id == res)
    if not ok:
        raise Untranslatable(f"the function does not end in `return {res}.T`")
    return ("Definition gen_generate_data_encoding (lnls modalities : list string) (patient_data : list patient) : res (list bvec) :=\n"
            f"  let {res} := np_ones_b {R} {C} in\n"
            f"  bind (fold_left (fun (acc : res (list bvec)) '({i}, {row}) =>\n"
            f"      bind acc (fun {res} =>\n"
            f"        let {pe} := repeat true {pe0} in\n"
            f"        bind (fold_left (fun (acc : res bvec) ({m} : string) =>\n"
            f"            bind acc (fun {pe} =>\n"
            f"              bind (match diag_get {m} (p_find {row}) with\n"
            f"                    | None => {t_abs}\n"
            f"                    | Some pattern => {t_pre}\n"
            f"                    end) (fun {de} =>\n"
            f"              inr (kron_bvec {ka} {kb}))))\n"
            f"          modalities (inr {pe})) (fun {pe} =>\n"
            f"        inr (np_set_col {res} {i} {pe}))))\n"
            f"    (combine (seq 0 (length patient_data)) patient_data) (inr {res}))\n"
            f"  (fun {res} => inr (np_T true {C} {res})).\n"
            "Lemma gen_generate_data_encoding_np : forall l m d, gen_generate_data_encoding l m d = np_generate_data_encoding l m d.\n"
            "Proof. intros. reflexivity. Qed.\n"
            "Lemma gen_generate_data_encoding_rows : forall lnls mods rows,\n"
            "  gen_generate_data_encoding lnls mods rows = sequence (map (patient_encoding lnls mods) rows).\n"
            "Proof. intros. rewrite gen_generate_data_encoding_np. apply np_generate_data_encoding_eq. Qed.\n"
            "Lemma gen_generate_data_encoding_eq : forall u data t,\n"
            "  gen_generate_data_encoding (u_lnls u) (u_mod_names u) (select data t) = data_matrix u data t.\n"
            "Proof. intros. apply gen_generate_data_encoding_rows. Qed.\n")


# ----------------------------------------------------------------------------------------------------------------------
# utils.early_late_mapping
# ----------------------------------------------------------------------------------------------------------------------
def translate_early_late_mapping() -> str:
    """t = int(t) ; (if INT <=|< t <=|< INT: return "string")* ; raise ..."""
    fn = _func(ast.parse(_src("lymph/utils.py")), "early_late_mapping")
    _params(fn, ["t_stage"])
    st = _strip_doc(fn.body)
    if len(st) < 2:
        raise Untranslatable("body")
    a = st[0]
    ok = (isinstance(a, ast.Assign) and len(a.targets) == 1 and isinstance(a.targets[0], ast.Name) and a.targets[0].id == "t_stage"
          and isinstance(a.value, ast.Call) and isinstance(a.value.func, ast.Name) and a.value.func.id == "int"
          and len(a.value.args) == 1 and not a.value.keywords and isinstance(a.value.args[0], ast.Name)
          and a.value.args[0].id == "t_stage")
    if not ok:
        raise Untranslatable("first statement is not `t_stage = int(t_stage)`")
    if not (isinstance(st[-1], ast.Raise)):
        raise Untranslatable("the function does not end in `raise`")

    def zlit(e):
        if isinstance(e, ast.Constant) and isinstance(e.value, int) and not isinstance(e.value, bool):
            return f"{e.value}" if e.value >= 0 else f"({e.value})"
        raise Untranslatable(f"bound {ast.dump(e)}")
    out = "None"
    for s in reversed(st[1:-1]):
        ok = (isinstance(s, ast.If) and not s.orelse and len(s.body) == 1 and isinstance(s.body[0], ast.Return)
              and isinstance(s.body[0].value, ast.Constant) and isinstance(s.body[0].value.value, str)
              and '"' not in s.body[0].value.value
              and isinstance(s.test, ast.Compare) and len(s.test.ops) == 2
              and all(isinstance(o, (ast.LtE, ast.Lt)) for o in s.test.ops)
              and isinstance(s.test.comparators[0], ast.Name) and s.test.comparators[0].id == "t_stage")
        if not ok:
            raise Untranslatable(f"statement is not `if A <= t_stage <= B: return \"...\"`: {ast.dump(s)[:120]}")
        o1, o2 = ("<=?" if isinstance(o, ast.LtE) else "<?" for o in s.test.ops)
        lo, hi = zlit(s.test.left), zlit(s.test.comparators[1])
        out = (f"if (({lo} {o1} t_stage) && (t_stage {o2} {hi}))%Z then Some \"{s.body[0].value.value}\"%string\n  else {out}")
    return ("Definition gen_early_late_mapping (t_stage : Z) : option string :=\n  " + out + ".\n"
            "Lemma gen_early_late_mapping_eq : forall z, gen_early_late_mapping z = early_late z.\n"
            "Proof. intros z. reflexivity. Qed.\n")


# ----------------------------------------------------------------------------------------------------------------------
# utils.add_or_mult
# ----------------------------------------------------------------------------------------------------------------------
def translate_add_or_mult() -> str:
    """if log: return E ; return E      with E over llh, np.prod(arr), np.sum(np.log(arr)), + - *"""
    fn = _func(ast.parse(_src("lymph/utils.py")), "add_or_mult")
    _params(fn, ["llh", "arr", "log"])

    def is_arr(e):
        return isinstance(e, ast.Name) and e.id == "arr"

    def hook(imp, e):
        if _is_np(e, "prod") and len(e.args) == 1 and is_arr(e.args[0]):
            return ("(prodQ arr)", Q)
        if _is_np(e, "sum") and len(e.args) == 1 and _is_np(e.args[0], "log") and len(e.args[0].args) == 1 and is_arr(e.args[0].args[0]):
            return ("(sumQ (map ln arr))", Q)
        return None
    imp = Imp({"llh": ("llh", Q), "log": ("log", BOOL)}, hook, [])
    body = imp.block(_strip_doc(fn.body), None)
    return ("Definition gen_add_or_mult (ln : Qc -> Qc) (log : bool) (llh : Qc) (arr : vec) : Qc :=\n  " + body + ".\n"
            "Lemma gen_add_or_mult_eq : forall ln log llh arr, gen_add_or_mult ln log llh arr = add_or_mult ln log llh arr.\n"
            "Proof. intros ln log llh arr. reflexivity. Qed.\n"
            "Lemma gen_add_or_mult_product : forall ln (ls : list vec), fold_left (gen_add_or_mult ln false) ls 1 = prodQ (concat ls).\n"
            "Proof. intros ln ls. apply (likelihood_is_product_of_factors ln ls). Qed.\n")


HEADER = ("(* GENERATED on every run by harness/translate4.py from the Python source of lymph; do not edit *)\n"
          "From LymphModel Require Import Base States Linalg Graph Transition Observation Dist Unilateral Models Bilateral Midline\n"
          "  Encoding Numpy NumpyTransition NumpyMatrix.\n"
          "Local Open Scope nat_scope.\nOpen Scope Qc_scope.\n\n")

PIECES = {
    "fast_trace": (translate_fast_trace, "gen_fast_trace_eq", "lymph/matrix.py fast_trace"),
    "evolve_midext": (translate_evolve_midext, "gen_evolve_midext_all", "lymph/matrix.py evolve_midext"),
    "generate_data_encoding": (translate_generate_data_encoding, "gen_generate_data_encoding_eq",
                               "lymph/matrix.py generate_data_encoding"),
    "early_late_mapping": (translate_early_late_mapping, "gen_early_late_mapping_eq", "lymph/utils.py early_late_mapping"),
    "add_or_mult": (translate_add_or_mult, "gen_add_or_mult_eq", "lymph/utils.py add_or_mult"),
}


def generate(piece: str) -> str:
    fn, lemma, _ = PIECES[piece]
    return HEADER + fn() + f"Print Assumptions {lemma}.\n"


if __name__ == "__main__":
    import sys
    for p in (sys.argv[1:] or PIECES):
        print(generate(p))
