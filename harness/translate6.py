"""Source-to-Gallina translator, sixth part: the numerical pipelines of `lymph.models.Bilateral`.

On every run the methods

  Bilateral.state_dist           -> gen_bi_state_dist           (= Bilateral.bi_state_dist: HMM branch
                                                                   `ipsi_evo.T @ np.diag(pmf) @ contra_evo`, BN branch `np.outer`)
  Bilateral.obs_dist             -> gen_bi_obs_dist             (= Bilateral.bi_obs_dist_of on the given / computed joint)
  Bilateral.patient_likelihoods  -> gen_bi_patient_likelihoods  (= Bilateral.bi_patient_likelihoods)
  Bilateral._bn_likelihood       -> gen_bi_bn_likelihood        (= Bilateral.bi_bn_likelihood_factors)
  Bilateral._hmm_likelihood      -> gen_bi_hmm_likelihood       (= Bilateral.bi_hmm_likelihood_factors: per T-stage the joint
                                                                   prior, the two diagnosis matrices, matrix.fast_trace)
  Bilateral.posterior_state_dist -> gen_bi_posterior_state_dist (= Bilateral.bi_posterior_of on the given / computed joint prior)
  Bilateral.marginalize          -> gen_bi_marginalize          (= Bilateral.bi_marginalize_of on the given / computed joint)
  Bilateral.risk                 -> gen_bi_risk                 (= NumpyBilateral.bi_risk_code, "the code exactly", for every
                                                                   input, and = Bilateral.bi_risk whenever both involvement
                                                                   patterns can be encoded: for an invalid pattern AND a NaN
                                                                   posterior the model answers NaN, the code raises ValueError)

are parsed with `ast` from $LYMPH_REPO/lymph/models/bilateral.py and re-generated as Gallina terms over the numpy primitives
of coq/theories/NumpyBilateral.v (`np_matmul` = `A @ B` whose width is the number of COLUMNS OF B, `np_transpose` = `.T` whose
width is the length of the FIRST ROW, `np_diag`, `np_outer`) and `gen_fast_trace` -- the body of `matrix.fast_trace`, which is
re-translated from $LYMPH_REPO/lymph/matrix.py by harness/translate4.py into the same generated file and applied to the
number of columns of its first argument (`gen_fast_trace_nc`).  The generated file proves (1) by `reflexivity` (conversion)
that the generated term is the hand-written numpy-semantics definition `np_bi_<function>` of NumpyBilateral.v and (2) with
the static theorem `np_bi_<function>_model` that it equals the model definition of Bilateral.v, for every bilateral model
`b` whose two graphs are well-formed (`wf_graphb (u_graph (b_ipsi b)) = true`, `wf_graphb (u_graph (b_contra b)) = true`;
both follow from the model's own predicate `wf_bilateral b = true`: NumpyBilateral.wf_bilateral_graphs).  `state_dist`
needs no hypothesis, `obs_dist` only the ipsilateral graph; `marginalize` and `risk` are stated with `wf_bilateral b = true`
(equal bases on both sides) and, for a caller-supplied `given_state_dist`, its shape (`ncols sd = nstates (b_contra b)`,
resp. `is_shape (nstates (b_ipsi b)) (nstates (b_contra b)) sd`).  A piece that calls another translated method
(`self.state_dist`, `self.posterior_state_dist`, `self.marginalize`) re-generates that method as well, in the same file.

Fail-closed: every statement / expression form not listed in `BiPipe` raises `Untranslatable`.

What the translator itself ASSUMES (trusted reading of the lymph objects; everything else is proved):
  * `self.ipsi` and `self.contra` are `models.Unilateral` instances; the calls
        self.SIDE.state_dist_evo()                 -> SIDE_evo : mat                       (pure, same array every time)
        self.SIDE.state_dist(t_stage=T, mode=M)    -> SIDE_sd T M : res vec                (may raise)
        self.SIDE.observation_matrix()             -> SIDE_obs : mat                       (pure)
        self.SIDE.diagnosis_matrix(T)              -> SIDE_dm T : res mat                  (may raise; T : option string)
    become parameters, instantiated in the lemmas with the model's `state_dist_evo (b_SIDE b)`, `state_dist (b_SIDE b)`,
    `observation_matrix (b_SIDE b)`, `diagnosis_matrix (b_SIDE b) (map SIDE_patient data)` -- the functions that the pieces
    of harness/translate3.py (and translate.py / translate2.py / translate4.py below them) tie to the source of
    lymph/models/unilateral.py.  The signatures of these four methods (names and defaults: `t_stage="early"`, `mode="HMM"`,
    `t_stage=None`) are re-read from unilateral.py on every run and must be the expected ones.  Both sides were loaded from
    the same table (`load_patient_data` passes the same frame to both sides): the two diagnosis matrices are built from
    `map ipsi_patient data` and `map contra_patient data` of ONE list of bilateral patients;
  * `self.get_distribution(T).pmf` = `pmf_of T` (instantiated with `get_pmf (b_ipsi b)`: diagnosis_times.Composite returns
    the distributions of its first child, the ipsilateral side), `self.t_stages` = `all_t_stages` (instantiated with
    `bi_t_stages b`, the keys of the same dictionary); `pmf_of` may raise (type `res`), and an exception propagates in
    Python's evaluation order (left to right, argument by argument, statement by statement; the first one wins);
  * `matrix.fast_trace(A, B)` is a call of the function `fast_trace` of lymph/matrix.py, whose body is translated here as
    well (by translate4.translate_fast_trace); the width of its argument `left` is the number of columns numpy sees, read
    as the length of the first row of the list of rows (`ncols`);
  * `mode` is "HMM" or "BN" (`hmm : bool`; `mode == "HMM"` = `hmm`, `mode == "BN"` = `negb hmm`; a `mode` passed on as
    `mode=mode` is `hmm`), keyword defaults are read from the `def` line;
  * the likelihood value is kept as the LIST OF ITS FACTORS (log / sum / prod are taken outside Coq): `0.0 if log else 1.0`
    is the empty list, `utils.add_or_mult(llh, X, log)` appends X (the body of `utils.add_or_mult` is checked to be
    `if log: return llh + np.sum(np.log(arr))` / `return llh * np.prod(arr)`), and
    `return np.sum(np.log(X)) if log else np.prod(X)` returns the factors X;
  * numpy reading: `np.diag(v)` of a 1-D array = the square matrix with v on the diagonal, `np.outer(u, v)` of two 1-D
    arrays = all products, `A @ B` / `A.T` on 2-D arrays as above; shapes fit (numpy raises ValueError on operands whose
    shapes do not fit; the list primitives do not): under the hypotheses of the lemmas they do.  A 2-D array with zero
    rows is the empty list (its width is forgotten); this only occurs for the diagnosis matrices of zero patients, where
    numpy, the reading and the model all return the empty vector of likelihoods.
  posterior_state_dist / marginalize / risk in addition:
  * `for side in ["ipsi", "contra"]` is unrolled (the body once per listed constant, in order); `getattr(self, "ipsi")` is
    `self.ipsi`; a local dictionary that is only ever indexed with these constants is one variable per key;
  * `self.SIDE.compute_encoding(D)` -> SIDE_enc D : res bvec, instantiated with `diagnosis_encoding (b_SIDE b)` (signature
    re-read from unilateral.py); `self.SIDE.graph.lnls.keys()` -> SIDE_lnls, instantiated with `u_lnls (b_SIDE b)`;
    `self.is_trinary` -> is_trinary : bool, instantiated with `Nat.eqb (u_base (b_ipsi b)) 3` (the property raises when the
    two sides differ in narity; `wf_bilateral` excludes that);
  * `matrix.compute_encoding(lnls=, pattern=, base=)` = Observation.compute_encoding, its ValueError = `inl MValue`
    (`np_encoding_res`; tied to the source by the pieces `element` / `compute_encoding` of translate.py / translate2.py;
    its signature `(lnls, pattern, base=2)` is re-read from matrix.py);
  * the per-side dictionaries `involvement` and `given_diagnosis` are read as two arguments each: `D.get("ipsi", {})` =
    `D_ipsi`, the empty pattern / diagnosis `[]` when the key is missing; `given_diagnosis=None` is the same as `{}`, so
    `if given_diagnosis is None: given_diagnosis = {}` is dropped; `if side not in given_diagnosis: warnings.warn(...)`
    is dropped (a warning does not change the value);
  * `utils.safe_set_params(self, given_params)` is dropped: the model `b` of the lemmas is the model AFTER this call
    (with `given_params=None` it does nothing); `given_params` may only be passed on to `self.posterior_state_dist`;
  * an array that may be NaN is an `option`: `M / np.sum(M)` is `None` when the sum is zero (0/0 = NaN, a/0 = inf; neither
    is a rational; `np_div2`), every product with a NaN array is NaN (`np_bvecmat_nan`, `np_dotb_nan`); a boolean array
    used in `@` is promoted to 0.0 / 1.0 (`np_b2q`); `A * B` on 2-D arrays of equal shape = `np_mul2` (no broadcasting);
    `marginalize` receives "Python None, or an array that may be NaN" (`option (option mat)`), `posterior_state_dist` and
    `risk` receive "Python None or an array" (`option mat`).
"""
from __future__ import annotations

import ast
import copy

from .translate import Untranslatable, _func, _src, _strip_doc
from .translate2 import _attr_chain
from .translate3 import ERR, _check_add_or_mult, _factors_of, _is_const, _signature
from .translate4 import translate_fast_trace

VEC, MAT, STR, OSTR, OMAT, MODE, LSTR, FACT, LOG = (
    "vec", "mat", "string", "option string", "option mat", "mode", "list string", "factors", "log")
# posterior / marginalize / risk: boolean encodings, arrays that may be NaN (option), the per-side dictionaries
BVEC, NMAT, ONMAT, NVEC, NQ, Q, NAT, PAT, DIAGN, SD_PAT, SD_DIAG, PARAMS, GRAPH, DICT = (
    "bvec", "mat or NaN", "None or (mat or NaN)", "vec or NaN", "Qc or NaN", "Qc", "nat", "pattern", "diagnosis",
    "{side: pattern}", "None or {side: diagnosis}", "params", "graph of a side", "local {side: value}")
GALLINA_TY = {VEC: "vec", MAT: "mat", STR: "string", OSTR: "option string", OMAT: "option mat", MODE: "bool",
              LSTR: "list string", FACT: "vec", BVEC: "bvec", NMAT: "option mat", ONMAT: "option (option mat)",
              NVEC: "option vec", NQ: "option Qc", Q: "Qc", NAT: "nat", PAT: "pattern", DIAGN: "diagnosis"}
SIDES = ("ipsi", "contra")

# context parameters (readings of `self`, see the module docstring), in the order of the np_bi_... definitions
CTX_TY = {"ipsi_evo": "mat", "contra_evo": "mat", "pmf_of": "string -> res vec",
          "ipsi_sd": "string -> bool -> res vec", "contra_sd": "string -> bool -> res vec",
          "ipsi_obs": "mat", "contra_obs": "mat",
          "ipsi_dm": "option string -> res mat", "contra_dm": "option string -> res mat",
          "all_t_stages": "list string",
          "ipsi_enc": "diagnosis -> res bvec", "contra_enc": "diagnosis -> res bvec",
          "ipsi_lnls": "list string", "contra_lnls": "list string", "is_trinary": "bool"}
FIVE = ["ipsi_evo", "contra_evo", "pmf_of", "ipsi_sd", "contra_sd"]
DM = ["ipsi_dm", "contra_dm"]
OBS = ["ipsi_obs", "contra_obs"]
ENC = ["ipsi_enc", "contra_enc"]
LNLS = ["ipsi_lnls", "contra_lnls", "is_trinary"]

# method -> (gen name, context parameters, python signature [(name, default-as-python-repr | None)], argument types,
#            returns res?, result type)
METHODS = {
    "state_dist": ("gen_bi_state_dist", FIVE, [("t_stage", "'early'"), ("mode", "'HMM'")],
                   {"t_stage": STR, "mode": MODE}, True, MAT),
    "obs_dist": ("gen_bi_obs_dist", FIVE + ["ipsi_obs", "contra_obs"],
                 [("given_state_dist", "None"), ("t_stage", "'early'"), ("mode", "'HMM'")],
                 {"given_state_dist": OMAT, "t_stage": STR, "mode": MODE}, True, MAT),
    "patient_likelihoods": ("gen_bi_patient_likelihoods", FIVE + DM, [("t_stage", None), ("mode", "'HMM'")],
                            {"t_stage": STR, "mode": MODE}, True, VEC),
    "_bn_likelihood": ("gen_bi_bn_likelihood", FIVE + DM, [("log", "True"), ("t_stage", "None")],
                       {"log": LOG, "t_stage": OSTR}, True, FACT),
    "_hmm_likelihood": ("gen_bi_hmm_likelihood", ["ipsi_evo", "contra_evo", "pmf_of"] + DM + ["all_t_stages"],
                        [("log", "True"), ("t_stage", "None")], {"log": LOG, "t_stage": OSTR}, True, FACT),
    "posterior_state_dist": ("gen_bi_posterior_state_dist", FIVE + OBS + ENC,
                             [("given_params", "None"), ("given_state_dist", "None"), ("given_diagnosis", "None"),
                              ("t_stage", "'early'"), ("mode", "'HMM'")],
                             {"given_params": PARAMS, "given_state_dist": OMAT, "given_diagnosis": SD_DIAG,
                              "t_stage": STR, "mode": MODE}, True, NMAT),
    "marginalize": ("gen_bi_marginalize", FIVE + LNLS,
                    [("involvement", None), ("given_state_dist", "None"), ("t_stage", "'early'"), ("mode", "'HMM'")],
                    {"involvement": SD_PAT, "given_state_dist": ONMAT, "t_stage": STR, "mode": MODE}, True, NQ),
    "risk": ("gen_bi_risk", FIVE + OBS + ENC + LNLS,
             [("involvement", None), ("given_params", "None"), ("given_state_dist", "None"), ("given_diagnosis", "None"),
              ("t_stage", "'early'"), ("mode", "'HMM'")],
             {"involvement": SD_PAT, "given_params": PARAMS, "given_state_dist": OMAT, "given_diagnosis": SD_DIAG,
              "t_stage": STR, "mode": MODE}, True, NQ),
}

# the methods of models.Unilateral that are read through parameters: name -> expected signature
UNI_SIGS = {"state_dist_evo": [], "state_dist": [("t_stage", "'early'"), ("mode", "'HMM'")],
            "observation_matrix": [], "diagnosis_matrix": [("t_stage", "None")],
            "compute_encoding": [("given_diagnosis", "None")]}


MX_ENC_SIG = [("lnls", None), ("pattern", None), ("base", "2")]


def _formals(argty: dict):
    """python parameters -> [(gallina name, gallina type)] (log / given_params dropped, a per-side dictionary = two)"""
    out = []
    for n, ty in argty.items():
        if ty in (LOG, PARAMS):
            continue
        if ty in (SD_PAT, SD_DIAG):
            out += [(f"{n}_{sd}", GALLINA_TY[PAT if ty == SD_PAT else DIAGN]) for sd in SIDES]
        else:
            out.append(("hmm" if ty == MODE else n, GALLINA_TY[ty]))
    return out


class _SubstSide(ast.NodeTransformer):
    """one iteration of `for SIDE in ["ipsi", "contra"]`: SIDE -> the constant, getattr(self, "ipsi") -> self.ipsi"""

    def __init__(self, name: str, value: str):
        self.name, self.value = name, value

    def visit_Name(self, n):
        if n.id != self.name:
            return n
        if not isinstance(n.ctx, ast.Load):
            raise Untranslatable(f"assignment to the loop variable {self.name}")
        return ast.copy_location(ast.Constant(self.value), n)

    def visit_Call(self, n):
        n = self.generic_visit(n)
        if (isinstance(n.func, ast.Name) and n.func.id == "getattr" and len(n.args) == 2 and not n.keywords
                and isinstance(n.args[0], ast.Name) and n.args[0].id == "self" and _is_const(n.args[1], self.value)):
            return ast.copy_location(ast.Attribute(value=n.args[0], attr=self.value, ctx=ast.Load()), n)
        return n


class BiPipe:
    """statements   NAME = E | if mode == "HMM": B1 [elif mode == "BN": B2] [else: B3]  (the statements after the chain are
                    continued in every branch that does not end in return / raise) | if X is None: X = E
                    | if X is None: A = E1 else: A = E2 | for NAME in LIST-OF-STAGES: BODY (one accumulator)
                    | return E | raise ERROR(...) (last statement of its block)
                    | llh = 0.0 if log else 1.0 | llh = [utils.]add_or_mult(llh, E, log)
                    | return np.sum(np.log(E)) if log else np.prod(E)
                    | for SIDE in ["ipsi", "contra"]: BODY   (unrolled: SIDE replaced by the constant, getattr(self, "ipsi")
                      read as self.ipsi) | D = {} | D["ipsi"] = E   (a local dictionary keyed by the side = two variables)
                    | G = self.ipsi.graph (an alias, no value) | dropped, because they do not change the value:
                      utils.safe_set_params(self, given_params) (see the module docstring),
                      if given_diagnosis is None: given_diagnosis = {}, if "ipsi" not in given_diagnosis: warnings.warn(...)
       expressions  names, A @ B (2-D @ 2-D; boolean 1-D @ 2-D; boolean 1-D @ 2-D-or-NaN @ boolean 1-D), X.T, A * B (2-D),
                    A / np.sum(A) (2-D), np.diag(V), np.outer(U, V), matrix.fast_trace(A, B), [NAME], D["ipsi"],
                    involvement.get("ipsi", {}), matrix.compute_encoding(lnls=G.lnls.keys(), pattern=P, base=B),
                    3 if self.is_trinary else 2, the readings of `self` listed in the module docstring and calls of the
                    translated methods of METHODS"""

    def __init__(self, method: str, sigs: dict):
        self.method = method
        self.gen, self.ctx, _, self.argty, self.res, self.rty = METHODS[method]
        self.sigs = sigs                 # method -> actual python signature [(name, default repr)]
        self.env = {}
        for n, ty in self.argty.items():
            self.env[n] = ("hmm" if ty == MODE else n, ty)
        self.formal_names = {g for g, _ in _formals(self.argty)}
        self.pending = []                # [(fresh name, res-typed text)] raised-or-value sub-expressions, evaluation order
        self.count = 0
        self.calls = []                  # translated methods this body calls
        self.uses_fast_trace = False

    # ---- context ---------------------------------------------------------------------------------------------------
    def need(self, name: str) -> str:
        if name not in self.ctx:
            raise Untranslatable(f"{self.method} uses `{name}`, which is not among the things it reads in the model")
        return name

    def fresh(self) -> str:
        n = f"v'{self.count}"            # not a Python identifier: cannot capture a translated variable
        self.count += 1
        return n

    RESERVED = set(CTX_TY) | {"bind", "inr", "inl", "fold_left", "length", "Some", "None", "acc", "hmm", "negb", "true", "false",
                              "vec", "mat", "res", "nat", "string", "list", "option", "bool", "Qc", "app", "ncols",
                              "MValue", "MKey", "MNotImpl", "MAttr", "fun", "let", "in", "if", "then", "else", "match", "with",
                              "end", "forall", "exists", "as", "fix", "Type", "Prop", "Set", "at", "using", "where", "S",
                              "bvec", "pattern", "diagnosis", "NumpyPipelines", "dot"}

    def binder(self, name: str) -> str:
        """a Python variable that becomes a Gallina binder must not capture a name the translator emits"""
        if name in self.formal_names and name not in self.env:      # e.g. a local `involvement_ipsi`
            raise Untranslatable(f"{self.method}: variable name `{name}` clashes with a parameter of the generated term")
        if name in self.RESERVED or name.startswith(("np_", "gen_")) or not name.isidentifier() or not name.isascii():
            raise Untranslatable(f"{self.method}: variable name `{name}` clashes with a name of the generated term")
        return name

    def effect(self, text: str, ty: str):
        if not self.res:
            raise Untranslatable(f"{self.method}: a call that may raise in a function modelled as total")
        n = self.fresh()
        self.pending.append((n, text))
        return (n, ty)

    def take(self):
        p, self.pending = self.pending, []
        return p

    @staticmethod
    def binds(pending, text: str) -> str:
        for n, r in reversed(pending):
            text = f"bind {r} (fun {n} =>\n  {text})"
        return text

    # ---- expressions -----------------------------------------------------------------------------------------------
    def ty_of(self, name):
        return self.env.get(name, (None, None))[1]

    def want(self, e, ty: str) -> str:
        t, have = self.expr(e)
        if have != ty:
            raise Untranslatable(f"{self.method}: expected a {ty}, found a {have}: {ast.dump(e)[:120]}")
        return t

    def mode_arg(self, e) -> str:
        if isinstance(e, ast.Name) and self.ty_of(e.id) == MODE:
            return "hmm"
        if _is_const(e, "HMM"):
            return "true"
        if _is_const(e, "BN"):
            return "false"
        raise Untranslatable(f"mode argument {ast.dump(e)[:80]}")

    def tstage_arg(self, e, ty: str) -> str:
        """a T-stage passed where the callee expects `ty` (STR or OSTR)"""
        if isinstance(e, ast.Constant) and isinstance(e.value, str):
            if '"' in e.value or not e.value.isascii():
                raise Untranslatable("T-stage literal")
            t, have = f'"{e.value}"%string', STR
        elif _is_const(e, None):
            t, have = "None", OSTR
        else:
            t, have = self.expr(e)
        if have == ty:
            return t
        if have == STR and ty == OSTR:
            return f"(Some {t})"
        raise Untranslatable(f"{self.method}: T-stage argument of type {have} where {ty} is expected")

    @staticmethod
    def bind_args(what: str, call: ast.Call, want_sig):
        """positional / keyword arguments of `call` against the signature `want_sig` -> {name: ast}"""
        got = {}
        names = [n for n, _ in want_sig]
        for k, a in enumerate(call.args):
            if isinstance(a, ast.Starred) or k >= len(want_sig):
                raise Untranslatable(f"arguments of {what}")
            got[names[k]] = a
        for k in call.keywords:
            if k.arg is None or k.arg not in names or k.arg in got:
                raise Untranslatable(f"keyword argument of {what}")
            got[k.arg] = k.value
        out = {}
        for pname, dflt in want_sig:
            if pname in got:
                out[pname] = got[pname]
            elif dflt is not None:
                out[pname] = ast.parse(dflt, mode="eval").body
            else:
                raise Untranslatable(f"{what}: missing argument {pname}")
        return out

    def call_method(self, name: str, call: ast.Call):
        """self.NAME(...) for a translated method of Bilateral"""
        gen, ctx, want_sig, argty, res, rty = METHODS[name]
        if self.sigs[name] != want_sig:
            raise Untranslatable(f"signature of {name}: {self.sigs[name]} (expected {want_sig})")
        got = self.bind_args(f"self.{name}", call, want_sig)
        args = []
        before = len(self.pending)
        for pname, _ in want_sig:
            ty, a = argty[pname], got[pname]
            if ty == MODE:
                args.append(self.mode_arg(a))
            elif ty in (STR, OSTR):
                args.append(self.tstage_arg(a, ty))
            elif ty in (OMAT, ONMAT):
                if _is_const(a, None):
                    args.append("None")
                    continue
                t, have = self.expr(a)
                if have == ty:                               # an optional argument passed on as it is
                    args.append(t)
                elif have == MAT:
                    args.append(f"(Some {t})" if ty == OMAT else f"(Some (Some {t}))")
                elif have == NMAT and ty == ONMAT:
                    args.append(f"(Some {t})")
                else:
                    raise Untranslatable(f"self.{name}: {pname} of type {have}")
            elif ty in (SD_PAT, SD_DIAG):                    # the caller's per-side dictionary passed on as it is
                if not (isinstance(a, ast.Name) and self.ty_of(a.id) == ty):
                    raise Untranslatable(f"self.{name}: {pname} is not the caller's dictionary")
                args += [f"{self.env[a.id][0]}_{sd}" for sd in SIDES]
            elif ty == PARAMS:                               # given_params: see the module docstring
                if not (_is_const(a, None) or (isinstance(a, ast.Name) and self.ty_of(a.id) == PARAMS)):
                    raise Untranslatable(f"self.{name}: {pname}")
                continue
            elif ty == LOG:
                continue
            else:
                args.append(self.want(a, ty))
        if len(self.pending) != before:      # keeps the evaluation order of several raising calls trivially right
            raise Untranslatable(f"self.{name}: an argument that may raise")
        for c in ctx:
            self.need(c)
        if name not in self.calls:
            self.calls.append(name)
        text = f"({gen} {' '.join(ctx + args)})"
        return self.effect(text, rty) if res else (text, rty)

    def call_side(self, side: str, name: str, call: ast.Call):
        """self.ipsi.NAME(...) / self.contra.NAME(...): the readings of the Unilateral methods"""
        if self.sigs["uni." + name] != UNI_SIGS[name]:
            raise Untranslatable(f"signature of Unilateral.{name}: {self.sigs['uni.' + name]} (expected {UNI_SIGS[name]})")
        got = self.bind_args(f"self.{side}.{name}", call, UNI_SIGS[name])
        if name == "state_dist_evo":
            return (self.need(f"{side}_evo"), MAT)
        if name == "observation_matrix":
            return (self.need(f"{side}_obs"), MAT)
        before = len(self.pending)
        if name == "compute_encoding":
            text, ty = f"({self.need(f'{side}_enc')} {self.want(got['given_diagnosis'], DIAGN)})", BVEC
        elif name == "state_dist":
            t = self.tstage_arg(got["t_stage"], STR)
            m = self.mode_arg(got["mode"])
            text, ty = f"({self.need(f'{side}_sd')} {t} {m})", VEC
        else:                                # diagnosis_matrix
            text, ty = f"({self.need(f'{side}_dm')} {self.tstage_arg(got['t_stage'], OSTR)})", MAT
        if len(self.pending) != before:
            raise Untranslatable(f"self.{side}.{name}: an argument that may raise")
        return self.effect(text, ty)

    def expr(self, e):
        if isinstance(e, ast.Name) and e.id in self.env:
            t, ty = self.env[e.id]
            if ty in (MODE, LOG, PARAMS, SD_PAT, SD_DIAG, DICT):
                raise Untranslatable(f"`{e.id}` used as a value")
            return (t, ty)
        if isinstance(e, ast.Constant) and type(e.value) is int and e.value >= 0:
            return (f"{e.value}%nat", NAT)
        ch = _attr_chain(e)
        if ch is not None and len(ch) == 3 and ch[0] == "self" and ch[1] in SIDES and ch[2] == "graph":
            return (ch[1], GRAPH)
        # D["ipsi"] of a local dictionary
        if isinstance(e, ast.Subscript) and isinstance(e.value, ast.Name) and self.ty_of(e.value.id) == DICT \
                and isinstance(e.slice, ast.Constant) and e.slice.value in SIDES:
            key = f"{e.value.id}[{e.slice.value}]"
            if key not in self.env:
                raise Untranslatable(f"{self.method}: {key} read before it is set")
            return self.env[key]
        # 3 if self.is_trinary else 2
        if isinstance(e, ast.IfExp) and _attr_chain(e.test) == ["self", "is_trinary"]:
            a, b = e.body, e.orelse
            if not all(isinstance(x, ast.Constant) and type(x.value) is int and x.value >= 0 for x in (a, b)):
                raise Untranslatable("`A if self.is_trinary else B` with other than natural constants")
            return (f"(if {self.need('is_trinary')} then {a.value} else {b.value})%nat", NAT)
        if isinstance(e, ast.BinOp) and isinstance(e.op, ast.Mult):
            a = self.want(e.left, MAT)
            b = self.want(e.right, MAT)
            return (f"(np_mul2 {a} {b})", MAT)
        # M / np.sum(M')
        if isinstance(e, ast.BinOp) and isinstance(e.op, ast.Div):
            a = self.want(e.left, MAT)
            d = e.right
            if not (isinstance(d, ast.Call) and _attr_chain(d.func) == ["np", "sum"] and len(d.args) == 1 and not d.keywords):
                raise Untranslatable("division by something else than np.sum(ARRAY)")
            return (f"(np_div2 {a} (np_sum2 {self.want(d.args[0], MAT)}))", NMAT)
        if ch == ["self", "t_stages"]:
            return (self.need("all_t_stages"), LSTR)
        if isinstance(e, ast.Attribute) and e.attr == "T":
            return (f"(np_transpose 0%Qc {self.want(e.value, MAT)})", MAT)
        if isinstance(e, ast.Attribute) and e.attr == "pmf" and isinstance(e.value, ast.Call) \
                and _attr_chain(e.value.func) == ["self", "get_distribution"] and len(e.value.args) == 1 and not e.value.keywords:
            return self.effect(f"({self.need('pmf_of')} {self.tstage_arg(e.value.args[0], STR)})", VEC)
        if isinstance(e, ast.BinOp) and isinstance(e.op, ast.MatMult):
            a, ta = self.expr(e.left)            # left operand first: Python's evaluation order
            b, tb = self.expr(e.right)
            if (ta, tb) == (MAT, MAT):
                return (f"(np_matmul {a} {b})", MAT)
            if (ta, tb) == (BVEC, MAT):
                return (f"(NumpyPipelines.np_vecmat (np_b2q {a}) {b})", VEC)
            if (ta, tb) == (BVEC, NMAT):
                return (f"(np_bvecmat_nan {a} {b})", NVEC)
            if (ta, tb) == (NVEC, BVEC):
                return (f"(np_dotb_nan {a} {b})", NQ)
            raise Untranslatable(f"{self.method}: `@` of a {ta} and a {tb}")
        if isinstance(e, ast.List) and len(e.elts) == 1 and not isinstance(e.elts[0], ast.Starred):
            return (f"[{self.want(e.elts[0], STR)}]", LSTR)
        if isinstance(e, ast.Call):
            fch = _attr_chain(e.func)
            if fch == ["np", "diag"] and len(e.args) == 1 and not e.keywords:
                return (f"(np_diag {self.want(e.args[0], VEC)})", MAT)
            if fch == ["np", "outer"] and len(e.args) == 2 and not e.keywords:
                a = self.want(e.args[0], VEC)
                b = self.want(e.args[1], VEC)
                return (f"(np_outer {a} {b})", MAT)
            # SIDEDICT.get("ipsi", {})
            if isinstance(e.func, ast.Attribute) and e.func.attr == "get" and isinstance(e.func.value, ast.Name) \
                    and self.ty_of(e.func.value.id) in (SD_PAT, SD_DIAG):
                if not (len(e.args) == 2 and not e.keywords and isinstance(e.args[0], ast.Constant) and e.args[0].value in SIDES
                        and isinstance(e.args[1], ast.Dict) and not e.args[1].keys):
                    raise Untranslatable(f"{self.method}: {e.func.value.id}.get(...) is not .get(SIDE, {{}})")
                ty = PAT if self.ty_of(e.func.value.id) == SD_PAT else DIAGN
                return (f"{self.env[e.func.value.id][0]}_{e.args[0].value}", ty)
            # G.lnls.keys()
            if fch is not None and fch[-2:] == ["lnls", "keys"] and not e.args and not e.keywords:
                g = e.func.value.value
                t, ty = self.expr(g)
                if ty != GRAPH:
                    raise Untranslatable(f"{self.method}: .lnls.keys() of a {ty}")
                return (self.need(f"{t}_lnls"), LSTR)
            if fch == ["matrix", "compute_encoding"]:
                if self.sigs["matrix.compute_encoding"] != MX_ENC_SIG:
                    raise Untranslatable(f"signature of matrix.compute_encoding: {self.sigs['matrix.compute_encoding']}")
                got = self.bind_args("matrix.compute_encoding", e, MX_ENC_SIG)
                before = len(self.pending)
                args = [self.want(got["lnls"], LSTR), self.want(got["pattern"], PAT), self.want(got["base"], NAT)]
                if len(self.pending) != before:
                    raise Untranslatable("matrix.compute_encoding: an argument that may raise")
                return self.effect(f"(np_encoding_res {' '.join(args)})", BVEC)
            if fch == ["matrix", "fast_trace"] and len(e.args) == 2 and not e.keywords \
                    and not any(isinstance(a, ast.Starred) for a in e.args):
                a = self.want(e.args[0], MAT)    # arguments left to right
                b = self.want(e.args[1], MAT)
                self.uses_fast_trace = True
                return (f"(gen_fast_trace_nc {a} {b})", VEC)
            if fch is not None and len(fch) == 3 and fch[0] == "self" and fch[1] in ("ipsi", "contra") and fch[2] in UNI_SIGS:
                return self.call_side(fch[1], fch[2], e)
            if fch is not None and len(fch) == 2 and fch[0] == "self" and fch[1] in METHODS:
                return self.call_method(fch[1], e)
        raise Untranslatable(f"{self.method}: expression {ast.dump(e)[:200]}")

    # ---- statements ------------------------------------------------------------------------------------------------
    RAISING = ("pmf", "diagnosis_matrix", "state_dist", "obs_dist", "patient_likelihoods", "_bn_likelihood", "_hmm_likelihood",
               "compute_encoding", "posterior_state_dist", "marginalize", "risk")

    @classmethod
    def may_raise(cls, stmts) -> bool:
        for s in stmts:
            for n in ast.walk(s):
                if isinstance(n, ast.Raise) or (isinstance(n, ast.Attribute) and n.attr in cls.RAISING):
                    return True
        return False

    @staticmethod
    def assigned(stmts) -> list:
        out = []
        for s in stmts:
            for n in ast.walk(s):
                tg = None
                if isinstance(n, ast.Assign) and len(n.targets) == 1:
                    tg = n.targets[0]
                elif isinstance(n, (ast.AugAssign, ast.AnnAssign)):
                    tg = n.target
                if isinstance(tg, ast.Subscript):
                    tg = tg.value
                if isinstance(tg, ast.Name) and tg.id not in out:
                    out.append(tg.id)
        return out

    def ret(self, text: str) -> str:
        return f"inr {text}" if self.res else text

    def is_none_test(self, t):
        if (isinstance(t, ast.Compare) and len(t.ops) == 1 and isinstance(t.ops[0], ast.Is) and isinstance(t.left, ast.Name)
                and _is_const(t.comparators[0], None) and self.ty_of(t.left.id) in (OSTR, OMAT, ONMAT)):
            return t.left.id
        return None

    def dropped(self, s) -> bool:
        """statements without an effect on the value (see the module docstring)"""
        # utils.safe_set_params(self, given_params)
        if isinstance(s, ast.Expr) and isinstance(s.value, ast.Call) and _attr_chain(s.value.func) == ["utils", "safe_set_params"]:
            c = s.value
            if (len(c.args) == 2 and not c.keywords and isinstance(c.args[0], ast.Name) and c.args[0].id == "self"
                    and isinstance(c.args[1], ast.Name) and self.ty_of(c.args[1].id) == PARAMS):
                return True
            raise Untranslatable("utils.safe_set_params call")
        if isinstance(s, ast.If) and not s.orelse and isinstance(s.test, ast.Compare) and len(s.test.ops) == 1 \
                and len(s.body) == 1:
            t, b = s.test, s.body[0]
            # if given_diagnosis is None: given_diagnosis = {}
            if (isinstance(t.ops[0], ast.Is) and isinstance(t.left, ast.Name) and self.ty_of(t.left.id) == SD_DIAG
                    and _is_const(t.comparators[0], None)):
                if (isinstance(b, ast.Assign) and len(b.targets) == 1 and isinstance(b.targets[0], ast.Name)
                        and b.targets[0].id == t.left.id and isinstance(b.value, ast.Dict) and not b.value.keys):
                    return True
                raise Untranslatable(f"`if {t.left.id} is None:` is not followed by `{t.left.id} = {{}}`")
            # if "ipsi" not in given_diagnosis: warnings.warn(...)
            if (isinstance(t.ops[0], ast.NotIn) and isinstance(t.left, ast.Constant) and t.left.value in SIDES
                    and isinstance(t.comparators[0], ast.Name) and self.ty_of(t.comparators[0].id) in (SD_DIAG, SD_PAT)):
                if isinstance(b, ast.Expr) and isinstance(b.value, ast.Call) and _attr_chain(b.value.func) == ["warnings", "warn"]:
                    return True
                raise Untranslatable("`if SIDE not in D:` with something else than a warning")
        return False

    def mode_test(self, t):
        if (isinstance(t, ast.Compare) and len(t.ops) == 1 and isinstance(t.ops[0], ast.Eq) and isinstance(t.left, ast.Name)
                and self.ty_of(t.left.id) == MODE):
            if _is_const(t.comparators[0], "HMM"):
                return "hmm"
            if _is_const(t.comparators[0], "BN"):
                return "(negb hmm)"
            raise Untranslatable("mode test")
        return None

    @staticmethod
    def ends(body) -> bool:
        return bool(body) and isinstance(body[-1], (ast.Return, ast.Raise))

    def block(self, stmts, tail) -> str:
        if not stmts:
            if tail is None:
                raise Untranslatable(f"{self.method}: block falls through without return")
            return tail
        s, rest = stmts[0], stmts[1:]
        if self.dropped(s):
            return self.block(rest, tail)

        # for SIDE in ["ipsi", "contra"]: BODY    (unrolled)
        if isinstance(s, ast.For) and isinstance(s.iter, ast.List):
            if not (not s.orelse and isinstance(s.target, ast.Name) and s.iter.elts
                    and all(isinstance(x, ast.Constant) and x.value in SIDES for x in s.iter.elts)):
                raise Untranslatable(f"{self.method}: loop over a list that is not a list of sides")
            if s.target.id in self.env:
                raise Untranslatable(f"{self.method}: the loop variable {s.target.id} shadows a variable")
            for n in ast.walk(s):
                if isinstance(n, (ast.Break, ast.Continue, ast.Return)):
                    raise Untranslatable(f"{self.method}: break / continue / return in the loop over the sides")
            unrolled = []
            for x in s.iter.elts:
                for st in s.body:
                    unrolled.append(ast.fix_missing_locations(_SubstSide(s.target.id, x.value).visit(copy.deepcopy(st))))
            return self.block(unrolled + list(rest), tail)

        # D = {} | D["ipsi"] = E | G = self.ipsi.graph
        if isinstance(s, ast.Assign) and len(s.targets) == 1:
            tg, v = s.targets[0], s.value
            if isinstance(tg, ast.Name) and isinstance(v, ast.Dict) and not v.keys:
                name = self.binder(tg.id)
                for k in [k for k in self.env if k.startswith(name + "[")]:
                    del self.env[k]
                self.env[name] = (name, DICT)
                return self.block(rest, tail)
            if isinstance(tg, ast.Subscript) and isinstance(tg.value, ast.Name) and self.ty_of(tg.value.id) == DICT:
                if not (isinstance(tg.slice, ast.Constant) and tg.slice.value in SIDES):
                    raise Untranslatable(f"{self.method}: key of {tg.value.id}")
                t, ty = self.expr(v)
                if ty in (GRAPH, FACT):
                    raise Untranslatable(f"{self.method}: a {ty} stored in a dictionary")
                var = f"{tg.value.id}'{tg.slice.value}"          # not a Python identifier: captures nothing
                self.env[f"{tg.value.id}[{tg.slice.value}]"] = (var, ty)
                pend = self.take()
                if pend and pend[-1][0] == t:
                    pend[-1] = (var, pend[-1][1])
                    return self.binds(pend, self.block(rest, tail))
                return self.binds(pend, f"let {var} := {t} in\n  {self.block(rest, tail)}")
            if isinstance(tg, ast.Name) and _attr_chain(v) is not None and _attr_chain(v)[-1] == "graph":
                name = self.binder(tg.id)
                t, ty = self.expr(v)
                if ty != GRAPH or self.pending:
                    raise Untranslatable(f"{self.method}: {ast.dump(v)[:80]}")
                self.env[name] = (t, GRAPH)                       # an alias: no value is bound
                return self.block(rest, tail)

        # return
        if isinstance(s, ast.Return):
            if rest or tail is not None or s.value is None:
                raise Untranslatable(f"{self.method}: return inside a loop / code after return")
            v = s.value
            if isinstance(v, ast.IfExp):            # np.sum(np.log(X)) if log else np.prod(X): the factors X
                if self.rty != FACT or not (isinstance(v.test, ast.Name) and self.ty_of(v.test.id) == LOG):
                    raise Untranslatable("conditional return value")
                xa = _factors_of(v)
                if xa is None:
                    raise Untranslatable("return value is not `np.sum(np.log(X)) if log else np.prod(X)`")
                t = self.want(xa, VEC)
            else:
                t, ty = self.expr(v)
                if ty != self.rty:
                    raise Untranslatable(f"{self.method}: returns a {ty}, expected {self.rty}")
            return self.binds(self.take(), self.ret(t))

        # raise ERROR(...)
        if isinstance(s, ast.Raise):
            if rest or tail is not None or not self.res or s.cause is not None:
                raise Untranslatable("raise")
            exc = s.exc.func if isinstance(s.exc, ast.Call) else s.exc
            if not (isinstance(exc, ast.Name) and exc.id in ERR):
                raise Untranslatable("raised exception")
            return f"inl {ERR[exc.id]}"

        # assignments
        if isinstance(s, ast.Assign) and len(s.targets) == 1 and isinstance(s.targets[0], ast.Name):
            v = s.value
            name = self.binder(s.targets[0].id)
            # llh = 0.0 if log else 1.0   (no factor yet)
            if isinstance(v, ast.IfExp) and isinstance(v.test, ast.Name) and self.ty_of(v.test.id) == LOG:
                if not (_is_const(v.body, 0.0) and _is_const(v.orelse, 1.0)):
                    raise Untranslatable("conditional expression")
                self.env[name] = (name, FACT)
                return f"let {name} : vec := [] in\n  {self.block(rest, tail)}"
            # llh = utils.add_or_mult(llh, X, log)
            if isinstance(v, ast.Call) and ((isinstance(v.func, ast.Name) and v.func.id == "add_or_mult")
                                            or _attr_chain(v.func) == ["utils", "add_or_mult"]):
                if not (len(v.args) == 3 and not v.keywords and isinstance(v.args[0], ast.Name) and v.args[0].id == name
                        and self.ty_of(name) == FACT and isinstance(v.args[2], ast.Name) and self.ty_of(v.args[2].id) == LOG):
                    raise Untranslatable("add_or_mult call")
                _check_add_or_mult()
                x = self.want(v.args[1], VEC)
                return self.binds(self.take(), f"let {name} := {self.env[name][0]} ++ {x} in\n  {self.block(rest, tail)}")
            t, ty = self.expr(v)
            pend = self.take()
            if ty in (FACT, GRAPH):
                raise Untranslatable(f"copy of a {ty}")
            self.env[name] = (name, ty)
            if pend and pend[-1][0] == t:       # the value IS the last effect: bind it to the name directly
                pend[-1] = (name, pend[-1][1])
                return self.binds(pend, self.block(rest, tail))
            return self.binds(pend, f"let {name} := {t} in\n  {self.block(rest, tail)}")

        # conditionals
        if isinstance(s, ast.If):
            t = s.test
            none_of = self.is_none_test(t)
            if none_of is not None:
                oty = self.env[none_of][1]
                inner = {OSTR: STR, OMAT: MAT, ONMAT: NMAT}[oty]

                def single_assign(body):
                    body = [x for x in body if not self.dropped(x)]
                    if len(body) == 1 and isinstance(body[0], ast.Assign) and len(body[0].targets) == 1 \
                            and isinstance(body[0].targets[0], ast.Name):
                        return self.binder(body[0].targets[0].id), body[0].value
                    raise Untranslatable("`if X is None:` branch is not a single assignment")
                a, va = single_assign(s.body)
                saved = dict(self.env)
                ta, tya = self.expr(va)
                pa = self.take()
                if not s.orelse:                    # if X is None: X = E
                    lift = (tya, inner) == (MAT, NMAT)       # an array where "an array that may be NaN" is expected
                    if a != none_of or (tya != inner and not lift):
                        raise Untranslatable("`if X is None: X = E` with another variable / type")
                    self.env[none_of] = (none_of, inner)
                    if pa:
                        if not (len(pa) == 1 and pa[0][0] == ta):
                            raise Untranslatable("default value with several effects")
                        dflt = f"bind {pa[0][1]} (fun {ta} => inr (Some {ta}))" if lift else pa[0][1]
                        return (f"bind (match {none_of} with None => {dflt} | Some {none_of} => inr {none_of} end) "
                                f"(fun {none_of} =>\n  {self.block(rest, tail)})")
                    if lift:
                        ta = f"(Some {ta})"
                    return (f"let {none_of} := match {none_of} with None => {ta} | Some {none_of} => {none_of} end in\n  "
                            f"{self.block(rest, tail)}")
                b, vb = single_assign(s.orelse)     # if X is None: A = E1  else: A = E2
                self.env = dict(saved)
                self.env[none_of] = (none_of, inner)
                tb, tyb = self.expr(vb)
                pb = self.take()
                self.env = saved
                if a != b or tya != tyb or pa or pb or a == none_of:
                    raise Untranslatable("`if X is None: A = E1 else: A = E2`")
                self.env[a] = (a, tya)
                return (f"let {a} := match {none_of} with None => {ta} | Some {none_of} => {tb} end in\n  "
                        f"{self.block(rest, tail)}")
            test = self.mode_test(t)
            if test is not None and tail is None:
                # every branch is continued with the statements after the chain unless it ends in return / raise
                def branch(body):
                    saved = dict(self.env)
                    out = self.block(list(body) + ([] if self.ends(body) else list(rest)), None)
                    self.env = saved
                    return out
                if not s.body:
                    raise Untranslatable("empty branch")
                then = branch(s.body)
                if s.orelse:
                    other = branch(s.orelse)
                else:
                    if not self.ends(s.body):
                        raise Untranslatable("`if mode == ...:` without else must end in return / raise")
                    other = self.block(rest, None)
                return f"if {test} then (\n  {then})\n  else (\n  {other})"
            raise Untranslatable(f"{self.method}: conditional {ast.dump(t)[:120]}")

        # loops over a list of T-stages
        if isinstance(s, ast.For) and not s.orelse:
            if not (isinstance(s.iter, ast.Name) and self.ty_of(s.iter.id) == LSTR and isinstance(s.target, ast.Name)):
                raise Untranslatable(f"{self.method}: loop over {ast.dump(s.iter)[:160]}")
            v = self.binder(s.target.id)
            lst, binder, bound = self.env[s.iter.id][0], f"({v} : string)", {v: (v, STR)}
            acc = [n for n in self.assigned(s.body) if n in self.env and n not in bound]
            if len(acc) != 1 or v in self.assigned(s.body):
                raise Untranslatable(f"{self.method}: loop accumulators {acc}")
            a = acc[0]
            aty = self.env[a][1]
            saved = dict(self.env)
            self.env.update(bound)
            raising = self.may_raise(s.body)
            if raising and not self.res:
                raise Untranslatable(f"{self.method}: a call that may raise in a function modelled as total")
            if raising:
                inner = self.block(list(s.body), f"inr {a}")
                step = f"fun (acc : res {GALLINA_TY[aty]}) {binder} => bind acc (fun {a} =>\n    {inner})"
            else:
                inner = self.block(list(s.body), a)
                step = f"fun ({a} : {GALLINA_TY[aty]}) {binder} =>\n    {inner}"
            if self.pending:
                raise Untranslatable("unbound effect in a loop body")
            if self.env[a][1] != aty:
                raise Untranslatable("the accumulator changes its type")
            self.env = saved
            for n in bound:                          # a loop variable that shadows a name is not readable afterwards
                self.env.pop(n, None)
            for n in self.assigned(s.body):          # nor is a variable first assigned inside the loop
                if n != a:
                    self.env.pop(n, None)
            if raising:
                return f"bind (fold_left ({step})\n    {lst} (inr {a})) (fun {a} =>\n  {self.block(rest, tail)})"
            return f"let {a} := fold_left ({step})\n    {lst} {a} in\n  {self.block(rest, tail)}"
        raise Untranslatable(f"{self.method}: statement {type(s).__name__}: {ast.dump(s)[:160]}")


# ----------------------------------------------------------------------------------------------------------------------
# one definition per method, with the definitions of the translated methods it calls in front
# ----------------------------------------------------------------------------------------------------------------------
def _class_tree():
    tree = ast.parse(_src("lymph/models/bilateral.py"))
    uni = ast.parse(_src("lymph/models/unilateral.py"))
    sigs = {}
    for m in METHODS:
        sigs[m] = _signature(_func(tree, m, "Bilateral"))
    for m in UNI_SIGS:
        sigs["uni." + m] = _signature(_func(uni, m, "Unilateral"))
    ce = _func(ast.parse(_src("lymph/matrix.py")), "compute_encoding").args
    if ce.vararg or ce.kwarg or ce.kwonlyargs or ce.posonlyargs:
        raise Untranslatable("matrix.compute_encoding: signature")
    names = [a.arg for a in ce.args]
    dflt = [None] * (len(names) - len(ce.defaults)) + [repr(ast.literal_eval(d)) if isinstance(d, ast.Constant) else "?"
                                                       for d in ce.defaults]
    sigs["matrix.compute_encoding"] = list(zip(names, dflt))
    return tree, sigs


def _definition(tree, sigs, method: str):
    gen, ctx, want_sig, argty, res, rty = METHODS[method]
    if sigs[method] != want_sig:
        raise Untranslatable(f"signature of {method}: {sigs[method]} (expected {want_sig})")
    fn = _func(tree, method, "Bilateral")
    if fn.decorator_list:
        raise Untranslatable(f"{method}: decorators")
    p = BiPipe(method, sigs)
    body = p.block(_strip_doc(fn.body), None)
    if p.pending:
        raise Untranslatable(f"{method}: unbound effect")
    params = " ".join(f"({c} : {CTX_TY[c]})" for c in ctx)
    args = " ".join(f"({n} : {ty})" for n, ty in _formals(argty))
    out_ty = GALLINA_TY[rty]
    if res:
        out_ty = f"res ({out_ty})"
    return f"Definition {gen} {params} {args} : {out_ty} :=\n  {body}.\n", p.calls, p.uses_fast_trace


FAST_TRACE_NC = ("Definition gen_fast_trace_nc (left right : mat) : vec := gen_fast_trace (ncols left) left right.\n")


def _with_deps(method: str) -> str:
    tree, sigs = _class_tree()
    done, order, ft = {}, [], []

    def visit(m, stack=()):
        if m in stack:
            raise Untranslatable(f"recursive call of {m}")
        if m in done:
            return
        text, calls, uses_ft = _definition(tree, sigs, m)
        ft.append(uses_ft)
        for c in calls:
            visit(c, stack + (m,))
        done[m] = text
        order.append(m)
    visit(method)
    pre = (translate_fast_trace() + FAST_TRACE_NC) if any(ft) else ""     # matrix.fast_trace, re-translated from matrix.py
    return pre + "".join(done[m] for m in order)


B5 = ("(state_dist_evo (b_ipsi b)) (state_dist_evo (b_contra b)) (get_pmf (b_ipsi b)) (state_dist (b_ipsi b)) "
      "(state_dist (b_contra b))")
BDM = "(diagnosis_matrix (b_ipsi b) (map ipsi_patient data)) (diagnosis_matrix (b_contra b) (map contra_patient data))"
BOBS = "(observation_matrix (b_ipsi b)) (observation_matrix (b_contra b))"
WF2 = "wf_graphb (u_graph (b_ipsi b)) = true -> wf_graphb (u_graph (b_contra b)) = true ->"


def translate_state_dist() -> str:
    return (_with_deps("state_dist")
            + "Lemma gen_bi_state_dist_np : forall ie ce pmf isd csd t hmm,\n"
              "  gen_bi_state_dist ie ce pmf isd csd t hmm = np_bi_state_dist ie ce pmf isd csd t hmm.\n"
              "Proof. intros. reflexivity. Qed.\n"
              "Lemma gen_bi_state_dist_eq : forall b t hmm,\n"
              f"  gen_bi_state_dist {B5} t hmm = bi_state_dist b t hmm.\n"
              "Proof. intros b t hmm. rewrite gen_bi_state_dist_np. apply np_bi_state_dist_model. Qed.\n")


def translate_obs_dist() -> str:
    return (_with_deps("obs_dist")
            + "Lemma gen_bi_obs_dist_np : forall ie ce pmf isd csd Oi Oc given t hmm,\n"
              "  gen_bi_obs_dist ie ce pmf isd csd Oi Oc given t hmm = np_bi_obs_dist ie ce pmf isd csd Oi Oc given t hmm.\n"
              "Proof. intros. reflexivity. Qed.\n"
              "Lemma gen_bi_obs_dist_eq : forall b t hmm, wf_graphb (u_graph (b_ipsi b)) = true ->\n"
              f"  gen_bi_obs_dist {B5} {BOBS} None t hmm\n"
              "  = bind (bi_state_dist b t hmm) (fun sd => inr (bi_obs_dist_of b sd)) /\\\n"
              f"  forall sd, gen_bi_obs_dist {B5} {BOBS} (Some sd) t hmm = inr (bi_obs_dist_of b sd).\n"
              "Proof.\n  intros b t hmm Hwf. destruct (np_bi_obs_dist_model b t hmm Hwf) as [H1 H2]. split.\n"
              "  - rewrite gen_bi_obs_dist_np. exact H1.\n  - intros sd. rewrite gen_bi_obs_dist_np. apply H2.\nQed.\n")


def translate_patient_likelihoods() -> str:
    return (_with_deps("patient_likelihoods")
            + "Lemma gen_bi_patient_likelihoods_np : forall ie ce pmf isd csd idm cdm t hmm,\n"
              "  gen_bi_patient_likelihoods ie ce pmf isd csd idm cdm t hmm = np_bi_patient_likelihoods ie ce pmf isd csd idm cdm t hmm.\n"
              "Proof. intros. reflexivity. Qed.\n"
              f"Lemma gen_bi_patient_likelihoods_eq : forall b data t hmm, {WF2}\n"
              f"  gen_bi_patient_likelihoods {B5} {BDM} t hmm = Bilateral.bi_patient_likelihoods b data t hmm.\n"
              "Proof. intros b data t hmm Hi Hc. rewrite gen_bi_patient_likelihoods_np. apply np_bi_patient_likelihoods_model; assumption. Qed.\n")


def translate_bn_likelihood() -> str:
    return (_with_deps("_bn_likelihood")
            + "Lemma gen_bi_bn_likelihood_np : forall ie ce pmf isd csd idm cdm t,\n"
              "  gen_bi_bn_likelihood ie ce pmf isd csd idm cdm t = np_bi_bn_likelihood ie ce pmf isd csd idm cdm t.\n"
              "Proof. intros. reflexivity. Qed.\n"
              f"Lemma gen_bi_bn_likelihood_eq : forall b data t, {WF2}\n"
              f"  gen_bi_bn_likelihood {B5} {BDM} t = bi_bn_likelihood_factors b data t.\n"
              "Proof. intros b data t Hi Hc. rewrite gen_bi_bn_likelihood_np. apply np_bi_bn_likelihood_model; assumption. Qed.\n")


def translate_hmm_likelihood() -> str:
    return (_with_deps("_hmm_likelihood")
            + "Lemma gen_bi_hmm_likelihood_np : forall ie ce pmf idm cdm ts t,\n"
              "  gen_bi_hmm_likelihood ie ce pmf idm cdm ts t = np_bi_hmm_likelihood ie ce pmf idm cdm ts t.\n"
              "Proof. intros. reflexivity. Qed.\n"
              f"Lemma gen_bi_hmm_likelihood_eq : forall b data t, {WF2}\n"
              "  gen_bi_hmm_likelihood (state_dist_evo (b_ipsi b)) (state_dist_evo (b_contra b)) (get_pmf (b_ipsi b))\n"
              f"    {BDM} (bi_t_stages b) t = bi_hmm_likelihood_factors b data t.\n"
              "Proof. intros b data t Hi Hc. rewrite gen_bi_hmm_likelihood_np. apply np_bi_hmm_likelihood_model; assumption. Qed.\n")


BENC = "(diagnosis_encoding (b_ipsi b)) (diagnosis_encoding (b_contra b))"
BLNLS = "(u_lnls (b_ipsi b)) (u_lnls (b_contra b)) (Nat.eqb (u_base (b_ipsi b)) 3)"


def translate_posterior_state_dist() -> str:
    return (_with_deps("posterior_state_dist")
            + "Lemma gen_bi_posterior_state_dist_np : forall ie ce pmf isd csd Oi Oc ei ec given di dc t hmm,\n"
              "  gen_bi_posterior_state_dist ie ce pmf isd csd Oi Oc ei ec given di dc t hmm\n"
              "  = np_bi_posterior_state_dist ie ce pmf isd csd Oi Oc ei ec given di dc t hmm.\n"
              "Proof. intros. reflexivity. Qed.\n"
              f"Lemma gen_bi_posterior_state_dist_eq : forall b given di dc t hmm, {WF2}\n"
              f"  gen_bi_posterior_state_dist {B5} {BOBS} {BENC} given di dc t hmm\n"
              "  = bind (match given with None => bi_state_dist b t hmm | Some sd => inr sd end)\n"
              "         (fun prior => bi_posterior_of b prior di dc).\n"
              "Proof. intros b given di dc t hmm Hi Hc. rewrite gen_bi_posterior_state_dist_np.\n"
              "  apply np_bi_posterior_state_dist_model; assumption. Qed.\n")


def translate_marginalize() -> str:
    return (_with_deps("marginalize")
            + "Lemma gen_bi_marginalize_np : forall ie ce pmf isd csd li lc tri ii ic given t hmm,\n"
              "  gen_bi_marginalize ie ce pmf isd csd li lc tri ii ic given t hmm\n"
              "  = np_bi_marginalize ie ce pmf isd csd li lc tri ii ic given t hmm.\n"
              "Proof. intros. reflexivity. Qed.\n"
              "Lemma gen_bi_marginalize_eq : forall b ii ic t hmm, wf_bilateral b = true ->\n"
              "  (forall sd, ncols sd = nstates (b_contra b) ->\n"
              f"   gen_bi_marginalize {B5} {BLNLS} ii ic (Some (Some sd)) t hmm\n"
              "   = bind (bi_marginalize_of b ii ic sd) (fun r => inr (Some r))) /\\\n"
              f"  gen_bi_marginalize {B5} {BLNLS} ii ic None t hmm\n"
              "  = bind (bi_state_dist b t hmm) (fun sd => bind (bi_marginalize_of b ii ic sd) (fun r => inr (Some r))).\n"
              "Proof.\n  intros b ii ic t hmm Hwf. destruct (np_bi_marginalize_model b ii ic t hmm Hwf) as [H1 H2]. split.\n"
              "  - intros sd Hsd. rewrite gen_bi_marginalize_np. apply H1. exact Hsd.\n"
              "  - rewrite gen_bi_marginalize_np. exact H2.\nQed.\n")


def translate_risk() -> str:
    return (_with_deps("risk")
            + "Lemma gen_bi_risk_np : forall ie ce pmf isd csd Oi Oc ei ec li lc tri ii ic given di dc t hmm,\n"
              "  gen_bi_risk ie ce pmf isd csd Oi Oc ei ec li lc tri ii ic given di dc t hmm\n"
              "  = np_bi_risk ie ce pmf isd csd Oi Oc ei ec li lc tri ii ic given di dc t hmm.\n"
              "Proof. intros. reflexivity. Qed.\n"
              "(* the code, exactly (bi_risk_code: the involvement is encoded even when the posterior is NaN) ... *)\n"
              "Lemma gen_bi_risk_code : forall b ii ic given di dc t hmm, wf_bilateral b = true ->\n"
              "  (forall sd, given = Some sd -> is_shape (nstates (b_ipsi b)) (nstates (b_contra b)) sd) ->\n"
              f"  gen_bi_risk {B5} {BOBS} {BENC} {BLNLS} ii ic given di dc t hmm\n"
              "  = bi_risk_code b ii ic (match given with None => bi_state_dist b t hmm | Some sd => inr sd end) di dc.\n"
              "Proof. intros b ii ic given di dc t hmm Hwf Hg. rewrite gen_bi_risk_np. apply np_bi_risk_code; assumption. Qed.\n"
              "(* ... and the model's bi_risk whenever both involvement patterns can be encoded *)\n"
              "Lemma gen_bi_risk_eq : forall b ii ic di dc t hmm, wf_bilateral b = true ->\n"
              "  compute_encoding (u_lnls (b_ipsi b)) ii (u_base (b_ipsi b)) <> None ->\n"
              "  compute_encoding (u_lnls (b_contra b)) ic (u_base (b_ipsi b)) <> None ->\n"
              f"  gen_bi_risk {B5} {BOBS} {BENC} {BLNLS} ii ic None di dc t hmm = bi_risk b ii ic di dc t hmm.\n"
              "Proof. intros b ii ic di dc t hmm Hwf Hi Hc. rewrite gen_bi_risk_np. apply np_bi_risk_model; assumption. Qed.\n"
              "Definition gen_bi_risk_all := (gen_bi_risk_code, gen_bi_risk_eq).\n")


HEADER = ("(* GENERATED on every run by harness/translate6.py from the Python source of lymph; do not edit *)\n"
          "From LymphModel Require Import Base States Linalg Graph Transition Observation Dist Unilateral Models Bilateral\n"
          "  BiStatements Numpy NumpyTransition NumpyMatrix NumpyPipelines NumpyBilateral.\n"
          "Local Open Scope nat_scope.\nOpen Scope Qc_scope.\n\n")

_WHERE = "lymph/models/bilateral.py Bilateral."
PIECES = {
    "bi_state_dist": (translate_state_dist, "gen_bi_state_dist_eq", _WHERE + "state_dist"),
    "bi_obs_dist": (translate_obs_dist, "gen_bi_obs_dist_eq", _WHERE + "obs_dist"),
    "bi_patient_likelihoods": (translate_patient_likelihoods, "gen_bi_patient_likelihoods_eq", _WHERE + "patient_likelihoods"),
    "bi_bn_likelihood": (translate_bn_likelihood, "gen_bi_bn_likelihood_eq", _WHERE + "_bn_likelihood"),
    "bi_hmm_likelihood": (translate_hmm_likelihood, "gen_bi_hmm_likelihood_eq", _WHERE + "_hmm_likelihood"),
    "bi_posterior_state_dist": (translate_posterior_state_dist, "gen_bi_posterior_state_dist_eq", _WHERE + "posterior_state_dist"),
    "bi_marginalize": (translate_marginalize, "gen_bi_marginalize_eq", _WHERE + "marginalize"),
    "bi_risk": (translate_risk, "gen_bi_risk_all", _WHERE + "risk"),
}


def generate(piece: str) -> str:
    fn, lemma, _ = PIECES[piece]
    return HEADER + fn() + f"Print Assumptions {lemma}.\n"


if __name__ == "__main__":
    import sys
    for p in (sys.argv[1:] or PIECES):
        print(generate(p))
