"""Implementation side: build lymph objects from case descriptions, DataFrames, error enum."""
from __future__ import annotations

import warnings

import numpy as np
import pandas as pd

warnings.filterwarnings("ignore")

import lymph  # noqa: E402
from lymph import models  # noqa: E402
from lymph.types import ExtraParamsError  # noqa: E402

from . import gen  # noqa: E402

import os  # noqa: E402

_REPO = os.environ.get("LYMPH_REPO", "/repo").rstrip("/")
assert lymph.__file__.startswith(_REPO + "/"), f"lymph imported from {lymph.__file__}, expected {_REPO}"


def err_enum(e: BaseException) -> str:
    if isinstance(e, ExtraParamsError):
        return "ExtraParamsError"
    for cls in (ValueError, KeyError, TypeError, AttributeError, NotImplementedError, IndexError):
        if isinstance(e, cls):
            return cls.__name__
    return "Other"


# ---- parametric diagnosis-time families shared with the Coq model (Dist.v) ------------
def fam0(support, p=0.5):
    """binomial pmf over 0..max_time, exact formula"""
    if not 0.0 <= p <= 1.0:
        raise ValueError("p out of range")
    n = len(support) - 1
    from math import comb
    return np.array([comb(n, int(k)) * p ** int(k) * (1.0 - p) ** (n - int(k)) for k in support])


def fam1(support, a=0.5, b=1.0):
    """linear weights a*k + b"""
    if not (0.0 <= a <= 100.0 and 0.0 < b <= 100.0):   # also rejects NaN and +-inf
        raise ValueError("a, b out of range")
    return a * np.asarray(support, dtype=float) + b


FAMILIES = {0: fam0, 1: fam1}
FAM_KEYS = {0: ["p"], 1: ["a", "b"]}


def apply_dist(model, t_stage: str, d: dict):
    if "frozen" in d:
        model.set_distribution(t_stage, list(map(float, d["frozen"])))
    else:
        from lymph.diagnosis_times import Distribution
        dist = Distribution(FAMILIES[d["fam"]], max_time=model.max_time, **d["kw"])
        model.set_distribution(t_stage, dist)


def build_uni(case: dict, cls=None):
    """case: graph, params (flat edge names), mods, dists, max_time"""
    g = case["graph"]
    kw = {}
    if "max_time" in case:
        kw["max_time"] = case["max_time"]
    ctor = models.Unilateral.trinary if g["base"] == 3 else models.Unilateral.binary
    m = ctor(gen.graph_dict(g), **kw)
    if case.get("params"):
        m.set_params(**case["params"])
    for name, spec, sens, kind in case.get("mods", []):
        m.set_modality(name, spec, sens, kind)
    for t, d in case.get("dists", {}).items():
        apply_dist(m, t, d)
    return m


def table_from_patients(patients: list[dict], mod_names, lnl_names, sides=("ipsi",), with_ext=False,
                        drop_cols=()) -> pd.DataFrame:
    cols = []
    for mname in mod_names:
        for sd in sides:
            for l in lnl_names:
                if (mname, sd, l) not in drop_cols:
                    cols.append((mname, sd, l))
    cols.append(("tumor", "1", "t_stage"))
    if with_ext:
        cols.append(("tumor", "1", "extension"))
        cols.append(("tumor", "1", "central"))
    rows = []
    for p in patients:
        row = []
        for c in cols:
            if c[0] == "tumor":
                row.append({"t_stage": p["t"], "extension": p.get("ext"), "central": p.get("central")}[c[2]])
            else:
                row.append(p["find"].get(c[0], {}).get(c[1], {}).get(c[2]))
        rows.append(row)
    df = pd.DataFrame(rows, columns=pd.MultiIndex.from_tuples(cols), dtype=object)
    # the row labels of a table carry no meaning: vary them deterministically with the content (default range,
    # duplicated labels as after pd.concat without ignore_index, strings, descending integers)
    n = len(rows)
    variant = (n + len(cols) + sum(1 for r in rows for v in r if v is True)) % 4
    if n and variant == 1:
        df.index = pd.Index([i % max(1, (n + 1) // 2) for i in range(n)])
    elif n and variant == 2:
        df.index = pd.Index([f"p{(5 * i) % 7}" for i in range(n)], dtype=object)
    elif n and variant == 3:
        df.index = pd.Index([n + 3 - i for i in range(n)])
    return df


def _uni_kwargs(case):
    kw = {}
    if "max_time" in case:
        kw["max_time"] = case["max_time"]
    kw["allowed_states"] = [0, 1, 2] if case["graph"]["base"] == 3 else [0, 1]
    return kw


def _common(m, case):
    for name, spec, sens, kind in case.get("mods", []):
        m.set_modality(name, spec, sens, kind)
    for t, d in case.get("dists", {}).items():
        apply_dist(m, t, d)


def build_bilateral(case: dict):
    """case: graph, sym {tumor_spread, lnl_spread}, params (composite keyword names) or
    ipsi_params/contra_params (leaf keyword names), mods, dists, max_time"""
    extra = {}
    if case.get("contra_graph"):       # the same graph listed in another order on the contralateral side
        extra["contra_kwargs"] = {"graph_dict": gen.graph_dict(case["contra_graph"])}
    m = models.Bilateral(gen.graph_dict(case["graph"]), is_symmetric=dict(case.get("sym", {})),
                         uni_kwargs=_uni_kwargs(case), **extra)
    if case.get("params"):
        m.set_params(**case["params"])
    if case.get("ipsi_params"):
        m.ipsi.set_params(**case["ipsi_params"])
    if case.get("contra_params"):
        m.contra.set_params(**case["contra_params"])
    _common(m, case)
    return m


def build_midline(case: dict):
    """case: graph, flags {use_mixing, use_central, use_midext_evo, marginalize_unknown, lnl_sym},
    params (composite keyword names), mods, dists, max_time"""
    fl = case.get("flags", {})
    m = models.Midline(gen.graph_dict(case["graph"]),
                       is_symmetric={"lnl_spread": fl.get("lnl_sym", True)},
                       use_mixing=fl.get("use_mixing", True), use_central=fl.get("use_central", False),
                       use_midext_evo=fl.get("use_midext_evo", True),
                       marginalize_unknown=fl.get("marginalize_unknown", True),
                       uni_kwargs=_uni_kwargs(case))
    if case.get("params"):
        m.set_params(**case["params"])
    _common(m, case)
    return m


def leaf_case(case: dict, uni_model) -> dict:
    """The unilateral case description of a leaf: same graph/mods/dists, the leaf's own edge parameters."""
    spread = dict(uni_model.get_spread_params(as_dict=True))
    c = {"graph": case["graph"], "params": {k: float(v) for k, v in spread.items()},
         "mods": case.get("mods", []), "dists": case.get("dists", {}), "max_time": case.get("max_time", 10)}
    return c


def prime_with_flipped_kinds(m, case, query):
    """A short history before the real query (trinary models only): register every modality with the OTHER kind but the
    same spec/sens, run the query once, then register the real kinds again.  Results must not depend on such a history
    (C09); running it inside the numerical checks lets them see stale caches keyed on too little."""
    if case["graph"]["base"] != 3 or not case.get("mods"):
        return
    for name, spec, sens, kind in case["mods"]:
        m.set_modality(name, spec, sens, "clinical" if kind == "pathological" else "pathological")
    try:
        query(m)
    except Exception:  # noqa: BLE001
        pass
    for name, spec, sens, kind in case["mods"]:
        m.set_modality(name, spec, sens, kind)


# ---- short histories run BEFORE the real query inside the numerical checks ---------------------------------------
# Results must not depend on them (C09).  They let the single-shot numerical checks see stale state keyed on too
# little (instance or module caches, in-place edits).  All of them end in exactly the configuration of the case.
def prime_params(m, case, query):
    """perturb only the micro modifiers (then only one spread value), query, restore the real values"""
    params = case.get("params") or {}
    if not params:
        return
    micro = [k for k in params if k.endswith("_micro")]
    steps = []
    if micro:
        steps.append({k: (0.25 if params[k] != 0.25 else 0.75) for k in micro})
    first = next((k for k in params if k.endswith("_spread") or k.endswith("_growth")), None)
    if first is not None:
        steps.append({first: (0.375 if params[first] != 0.375 else 0.625)})
    for kw in steps:
        try:
            m.set_params(**kw)
            query(m)
        except Exception:  # noqa: BLE001
            pass
        m.set_params(**params)


def prime_modality_order(m, case, query):
    """rotate the modality order (delete the first, re-add it at the end), query, rotate back to the original order"""
    mods = case.get("mods") or []
    if len(mods) < 2:
        return
    order = list(mods)
    if (len(mods) + sum(len(x[0]) for x in mods) + int(mods[0][1] * 16)) % 2:   # case-dependent variant
        # rotated order (delete + re-add the first), query, then replace_all_modalities with the case's own order
        # (names re-used at other positions: replace_all_modalities must give the NEW collection's order)
        from lymph.modalities import Clinical, Pathological
        tri = case["graph"]["base"] == 3

        def coll(ms):
            return {n: (Pathological if k == "pathological" else Clinical)(sp, sn, tri) for n, sp, sn, k in ms}
        name, spec, sens, kind = order[0]
        m.del_modality(name)
        m.set_modality(name, spec, sens, kind)          # now listed last
        try:
            query(m)
        except Exception:  # noqa: BLE001
            pass
        m.replace_all_modalities(coll(order))           # every name re-used, the first one at another position
        return

    def rotate():
        name, spec, sens, kind = order.pop(0)
        m.del_modality(name)
        m.set_modality(name, spec, sens, kind)
        order.append([name, spec, sens, kind])
    rotate()
    try:
        query(m)
    except Exception:  # noqa: BLE001
        pass
    for _ in range(len(mods) - 1):
        rotate()
    assert [o[0] for o in order] == [x[0] for x in mods]


def prime_renamed_modalities(m, case, query):
    """register the same modalities (same kinds and values, same order) under OTHER names, query, then replace them by the
    case's own collection (R5-C08 / C09-m1: a data-matrix cache key that forgets the modality names serves the encoding
    of the other names' columns)"""
    mods = case.get("mods") or []
    if not mods:
        return
    from lymph.modalities import Clinical, Pathological
    tri = case["graph"]["base"] == 3
    own = [x[0] for x in mods]
    spare = [n for n in (case.get("table_mods") or []) if n not in own] + [n for n in ("ZA", "ZB", "ZC", "ZD") if n not in own]

    def coll(names):
        return {nm: (Pathological if k == "pathological" else Clinical)(sp, sn, tri) for nm, (_, sp, sn, k) in zip(names, mods)}
    try:
        m.replace_all_modalities(coll(spare[:len(mods)]))
        query(m)
    except Exception:  # noqa: BLE001
        pass
    m.replace_all_modalities(coll(own))


def prime_inplace_modality_edit(m, case, query):
    """set other spec/sens values through the attribute setters, query, set the real values the same way"""
    for name, spec, sens, kind in case.get("mods") or []:
        mod = m.get_modality(name)
        mod.spec = 1.0 if spec != 1.0 else 0.75
        mod.sens = 0.625 if sens != 0.625 else 0.875
    try:
        query(m)
    except Exception:  # noqa: BLE001
        pass
    for name, spec, sens, kind in case.get("mods") or []:
        m.get_modality(name).spec = spec
    try:
        query(m)                      # (a query between the two restores: each setter alone must invalidate)
    except Exception:  # noqa: BLE001
        pass
    for name, spec, sens, kind in case.get("mods") or []:
        m.get_modality(name).sens = sens


def build_uni_via_other_max_time(case: dict, delta: int = 2):
    """build the model with another max_time, set the parametric distributions, query once, then change max_time to the
    case's value and (re)set the frozen distributions (they cannot follow a max_time change)"""
    c0 = dict(case)
    c0["max_time"] = case.get("max_time", 10) + delta
    c0["dists"] = {t: d for t, d in case.get("dists", {}).items() if "frozen" not in d}
    m = build_uni(c0)
    try:
        for t in c0["dists"]:
            m.state_dist(t)
    except Exception:  # noqa: BLE001
        pass
    m.max_time = case.get("max_time", 10)
    for t, d in case.get("dists", {}).items():
        if "frozen" in d:
            apply_dist(m, t, d)
    # dict order of the distributions must be the case's order: re-insert in order
    order = list(case.get("dists", {}))
    if list(m.get_all_distributions()) != order:
        saved = {t: m.get_distribution(t) for t in order}
        m.clear_distributions()
        for t in order:
            if "frozen" in case["dists"][t]:
                apply_dist(m, t, case["dists"][t])
            else:
                m.set_distribution(t, saved[t])
    return m


def run_primes(m, case, query, primes):
    """run the given priming histories in an order that varies from case to case (deterministically): which stale entry
    survives depends on what was queried first"""
    import hashlib
    import json
    import random as _random
    seed = int(hashlib.sha1(json.dumps(case, sort_keys=True, default=str).encode()).hexdigest()[:8], 16)
    order = list(primes)
    _random.Random(seed).shuffle(order)
    for prime in order:
        prime(m, case, query)


def prime_twin_relisted(case):
    """other live instances: the same graph with the LNLs listed in another order (reversed; rotated by one; a leaf moved
    to the front) and the same parameters, queried first (results of the model under test must not depend on what
    other instances computed, C09/C15).  Which relisting leaves the arc enumeration -- and with it a graph hash --
    unchanged depends on the graph, hence several twins."""
    g = case["graph"]
    tum = [e for e in g["entries"] if e[0] == "tumor"]
    lnl = [e for e in g["entries"] if e[0] == "lnl"]
    if len(lnl) < 2:
        return
    orders = [lnl[::-1], lnl[1:] + lnl[:1]]
    leaves = [e for e in lnl if not e[2]]
    if leaves:
        orders.append([leaves[-1]] + [e for e in lnl if e is not leaves[-1]])
    seen = [lnl]
    for order in orders:
        if order in seen:
            continue
        seen.append(order)
        twin = dict(case)
        twin["graph"] = {"base": g["base"], "entries": tum + order}
        try:
            t = build_uni(twin)
            t.transition_matrix()
            t.state_dist_evo()
        except Exception:  # noqa: BLE001
            pass
