"""Source-to-Gallina translator, eighth part: the posterior / risk path of `lymph.models.Unilateral`.

On every run the methods

  Unilateral.compute_encoding      -> gen_uni_compute_encoding   (= Unilateral.diagnosis_encoding)
  Unilateral.posterior_state_dist  -> gen_posterior_state_dist   (= state_dist / the given distribution, then Unilateral.posterior_of)
  Unilateral.marginalize           -> gen_marginalize            (= Unilateral.marginalize_of on the given / computed distribution)
  Unilateral.risk                  -> gen_risk                   (= Unilateral.risk; for an involvement pattern that can be encoded)
  Unilateral.diagnosis_prob        -> gen_diagnosis_prob         (= Observation.diagnosis_prob)
  Unilateral.observation_matrix    -> gen_observation_matrix     (= Unilateral.observation_matrix)
  Unilateral.diagnosis_matrix      -> gen_diagnosis_matrix       (= Unilateral.diagnosis_matrix)
  Unilateral.obs_list              -> gen_obs_list               (= Unilateral.u_obs_list)

are parsed with `ast` from $LYMPH_REPO/lymph/models/unilateral.py and re-generated as Gallina terms over the primitives of
coq/theories/NumpyPosterior.v (and NumpyPipelines.v).  The generated file proves (1) by `reflexivity` (conversion) that the
generated term is the hand-written numpy-semantics definition `np_<function>` of NumpyPosterior.v and (2) with the static
theorem `np_<function>_model` that it equals the model definition, for every model `u` with `wf_graphb (u_graph u) = true`
(and `lnls (u_graph u) <> []` where `state_dist` in BN mode may be reached, and `compute_encoding (u_lnls u) inv (u_base u)
<> None` for `risk`: with an involvement pattern that cannot be encoded the code raises ValueError even when the posterior is
NaN, the model's `risk` answers NaN; that corner is the generated lemma gen_risk_nan_invalid).  A piece that calls other
translated methods (`self.state_dist`, `self.compute_encoding`, `self.posterior_state_dist`, `self.marginalize`)
re-generates those as well, in the same file (`state_dist` and what it calls through harness/translate3.py).

Fail-closed: every statement / expression form not listed in `Post` (or in the translate_* function of a piece) raises
`Untranslatable`.

What the translator itself ASSUMES (trusted reading of the lymph objects; everything else is proved):
  * everything translate3.py assumes for `self.state_dist(...)` (its context parameters `transition_matrix`, `state_list`,
    `max_time`, `pmf_of`, `nodes`, `bnp`; `mode` is "HMM" or "BN"; keyword defaults are read from the `def` line);
  * `self.observation_matrix()` is a pure call returning the same 2-D array every time (parameter `observation_matrix`,
    instantiated with the model's matrix; piece `observation_matrix` below ties the method to
    matrix.generate_observation, piece `observation` of translate.py ties that function);
  * `self.get_all_modalities()` is the insertion-ordered dict name -> Modality of the model: `.keys()` = `mod_names`,
    `.values()` = `modalities`, `.items()` = `mods` (a modality = the model's record of spec / sens / kind);
    `self.graph.lnls` is the insertion-ordered dict name -> LNL node: `.keys()` = `lnl_names`, `len(...)` / iterating it =
    length of / iterating `lnl_names`; `self.is_trinary` is the boolean `is_trinary` (instantiated with `base = 3`);
  * `matrix.compute_encoding(lnls=, pattern=, base=)` is Observation.compute_encoding, its ValueError = `inl MValue`
    (pieces `element` / `compute_encoding` of translate.py / translate2.py); `matrix.generate_observation(modalities=,
    num_lnls=, base=)` is Observation.generate_observation;
  * a diagnosis is a dict modality name -> pattern (`given_diagnosis.get(name, {})` = the pattern or the empty pattern,
    `name in diagnosis`, `diagnosis[name]`); a pattern is a dict LNL name -> value-or-None: `pattern[key]` yields the value
    or raises KeyError and never IndexError (the `except IndexError` handler of diagnosis_prob, a single `raise`, is dead);
    `given_diagnosis` of `compute_encoding` is a dict (not None: posterior_state_dist returns before the call otherwise);
  * `given_params` is None, and `utils.safe_set_params(self, None)` has no effect (the translator checks that
    utils.safe_set_params still starts with `if params is None: return`);
  * numpy: a boolean array in `@` is promoted to 0.0 / 1.0; `v @ M` = np_vecmat (width = columns of M), `M.T` = np_transpose,
    `x * y` on 1-D arrays of equal length = element-wise product, `np.sum(x)` = the sum, `x / z` with z = 0 = NaN (`None`:
    0/0 and a/0 are not rationals; an all-NaN result and a result with inf entries are not told apart), a product with a NaN
    array is NaN; `np.kron` of two 1-D boolean arrays = kron_bvec; `np.array([True], dtype=bool)` = [true];
    `np.arange(n)` = 0 .. n-1, `M.shape[1]` = the number of columns of (the first row of) M,
    `np.array(list(product(*lists)))` = the cartesian product in lexicographic order, one row per tuple;
  * `NODE.comp_obs_prob(obs, table)` = `cop NODE obs table`, instantiated with `obs_prob_reading` (unknown finding = factor 1,
    else the table entry at (state of the node, 0 = healthy / 1 = involved): that reading is the obligation comp_obs_prob of
    translate2.py); a node of `self.graph.lnls.values()` is read as (name, current state) and `NODE.name` is its name;
    `MODALITY.confusion_matrix` = `cm MODALITY` (instantiated with Observation.confusion_matrix for the model's base:
    piece `confusion` of translate.py);
  * the caches are transparent: in `diagnosis_matrix`, `K = hash(...)`, `if K not in CACHE: CACHE[K] = E`,
    `return CACHE[K].T` returns `E.T` (an entry stored under the key K was computed by this very statement for an equal key;
    that the key determines the value is the subject of Hash.v / C20, not of this piece); `self.data_matrix(t_stage)` is the
    parameter `data_matrix : option string -> res (list bvec)` (one boolean row per patient; instantiated with
    Unilateral.data_matrix, tied to the source by piece generate_data_encoding of translate4.py);
  * shapes fit (numpy raises on operands whose shapes do not fit; the list primitives do not): under the hypotheses of the
    lemmas they do, except for a caller-supplied `given_state_dist` of the wrong length; Python ints are naturals.
"""
from __future__ import annotations

import ast

from . import translate3 as t3
from .translate import Untranslatable, _func, _src, _strip_doc
from .translate2 import _attr_chain
from .translate3 import _is_const, _signature

NAT, Q, VEC, MAT, STR, MODE = t3.NAT, t3.Q, t3.VEC, t3.MAT, t3.STR, t3.MODE
BVEC, DIAG, ODIAG, PAT, OVEC, NVEC, ONVEC, NQ, PNONE = (
    "bvec", "diagnosis", "option diagnosis", "pattern", "option vec", "vec or NaN", "None or (vec or NaN)", "Qc or NaN",
    "params (None)")
GALLINA_TY = {NAT: "nat", Q: "Qc", VEC: "vec", MAT: "mat", STR: "string", MODE: "bool", BVEC: "bvec", DIAG: "diagnosis",
              ODIAG: "option diagnosis", PAT: "pattern", OVEC: "option vec", NVEC: "option vec", ONVEC: "option (option vec)",
              NQ: "option Qc"}
# "Python None or a T" / "a T that may be NaN": the type inside the option
INNER = {OVEC: VEC, ODIAG: DIAG, ONVEC: NVEC, NVEC: VEC, NQ: Q}
NONE_OR = (OVEC, ODIAG, ONVEC)          # types on which `X is None` is a test

SIX = t3.SIX
CTX_TY = dict(t3.CTX_TY)
CTX_TY.update({"mod_names": "list string", "lnl_names": "list string", "is_trinary": "bool"})

# method -> (gen name, context parameters, python signature [(name, default repr | None)], argument types, result type)
# all of them may raise (type `res`)
METHODS = {
    "compute_encoding": ("gen_uni_compute_encoding", ["mod_names", "lnl_names"], [("given_diagnosis", "None")],
                         {"given_diagnosis": DIAG}, BVEC),
    "posterior_state_dist": ("gen_posterior_state_dist", SIX + ["observation_matrix", "mod_names", "lnl_names"],
                             [("given_params", "None"), ("given_state_dist", "None"), ("given_diagnosis", "None"),
                              ("t_stage", "'early'"), ("mode", "'HMM'")],
                             {"given_params": PNONE, "given_state_dist": OVEC, "given_diagnosis": ODIAG, "t_stage": STR,
                              "mode": MODE}, NVEC),
    "marginalize": ("gen_marginalize", SIX + ["lnl_names", "is_trinary"],
                    [("involvement", None), ("given_state_dist", "None"), ("t_stage", "'early'"), ("mode", "'HMM'")],
                    {"involvement": PAT, "given_state_dist": ONVEC, "t_stage": STR, "mode": MODE}, NQ),
    "risk": ("gen_risk", SIX + ["observation_matrix", "mod_names", "lnl_names", "is_trinary"],
             [("involvement", None), ("given_params", "None"), ("given_state_dist", "None"), ("given_diagnosis", "None"),
              ("t_stage", "'early'"), ("mode", "'HMM'")],
             {"involvement": PAT, "given_params": PNONE, "given_state_dist": OVEC, "given_diagnosis": ODIAG, "t_stage": STR,
              "mode": MODE}, NQ),
}


def _check_safe_set_params():
    """utils.safe_set_params(model, params=None) starts with `if params is None: return`"""
    fn = _func(ast.parse(_src("lymph/utils.py")), "safe_set_params")
    a = fn.args
    if [x.arg for x in a.args] != ["model", "params"] or a.vararg or a.kwarg or a.kwonlyargs or a.posonlyargs:
        raise Untranslatable("utils.safe_set_params: signature")
    st = _strip_doc(fn.body)
    want = ast.parse("if params is None:\n    return").body[0]
    if not st or ast.dump(st[0]) != ast.dump(want):
        raise Untranslatable("utils.safe_set_params does not start with `if params is None: return`")


def _call_args(call: ast.Call, want_sig, what: str) -> dict:
    """positional and keyword arguments of a call by parameter name"""
    got = {}
    names = [n for n, _ in want_sig]
    for k, a in enumerate(call.args):
        if isinstance(a, ast.Starred) or k >= len(names):
            raise Untranslatable(f"arguments of {what}")
        got[names[k]] = a
    for k in call.keywords:
        if k.arg is None or k.arg not in names or k.arg in got:
            raise Untranslatable(f"keyword argument of {what}")
        got[k.arg] = k.value
    return got


def _keywords(call: ast.Call, names, what: str):
    """a call with exactly the keyword arguments `names` (no positional ones), in that order of `names`"""
    if call.args or sorted(k.arg or "" for k in call.keywords) != sorted(names):
        raise Untranslatable(f"{what}: expected the keyword arguments {names}")
    kw = {k.arg: k.value for k in call.keywords}
    return [kw[n] for n in names]


class Post:
    """statements   NAME = E | for NAME in self.get_all_modalities().keys(): BODY (one accumulator)
                    | if X is None: [utils.safe_set_params(self, given_params);] X = E        (X: None or a value)
                    | if X is None: return E                                                  (afterwards X is a value)
                    | return E
       expressions  names, naturals, np.array([True], dtype=bool), np.kron(A, B) on boolean 1-D arrays,
                    matrix.compute_encoding(lnls=self.graph.lnls.keys(), pattern=P, base=B), D.get(NAME, {}),
                    `3 if self.is_trinary else 2`, A @ B (boolean 1-D @ 2-D, boolean 1-D @ 1-D-or-NaN), X.T,
                    self.observation_matrix(), A * B (1-D), A / np.sum(B), calls of self.state_dist and of the methods in METHODS"""

    RESERVED = t3.Pipe.RESERVED | set(CTX_TY) | {"bvec", "pattern", "diagnosis", "vmul", "b2q", "map", "kron_bvec"}
    RAISING = ("compute_encoding", "posterior_state_dist", "marginalize", "risk", "state_dist")

    def __init__(self, method: str, sigs: dict):
        self.method = method
        self.gen, self.ctx, _, self.argty, self.rty = METHODS[method]
        self.sigs = sigs                 # method -> actual python signature (own METHODS and translate3's state_dist)
        self.env = {}
        for n, ty in self.argty.items():
            self.env[n] = ("hmm" if ty == MODE else n, ty)
        self.pending = []                # [(fresh name, res-typed text)] in evaluation order
        self.count = 0
        self.calls = []                  # own translated methods this body calls
        self.t3calls = []                # translated methods of translate3 this body calls

    # ---- helpers ---------------------------------------------------------------------------------------------------
    def need(self, name: str) -> str:
        if name not in self.ctx:
            raise Untranslatable(f"{self.method} uses `{name}`, which is not among the things it reads in the model")
        return name

    def fresh(self) -> str:
        n = f"v'{self.count}"            # not a Python identifier: cannot capture a translated variable
        self.count += 1
        return n

    def binder(self, name: str) -> str:
        if name in self.RESERVED or name.startswith(("np_", "gen_", "mx_")) or not name.isidentifier() or not name.isascii():
            raise Untranslatable(f"{self.method}: variable name `{name}` clashes with a name of the generated term")
        return name

    def effect(self, text: str, ty: str):
        n = self.fresh()
        self.pending.append((n, text))
        return (n, ty)

    def take(self):
        p, self.pending = self.pending, []
        return p

    binds = staticmethod(t3.Pipe.binds)

    def ty_of(self, e):
        return self.env.get(e.id, (None, None))[1] if isinstance(e, ast.Name) else None

    # ---- expressions -----------------------------------------------------------------------------------------------
    def want(self, e, ty: str) -> str:
        t, have = self.expr(e)
        if have != ty:
            raise Untranslatable(f"{self.method}: expected a {ty}, found a {have}: {ast.dump(e)[:120]}")
        return t

    def coerce(self, t: str, have: str, ty: str) -> str:
        """a value of type `have` used where `ty` is expected (a value where None-or-value / value-or-NaN is expected)"""
        if have == ty:
            return t
        if INNER.get(ty) == have:
            return f"(Some {t})"
        raise Untranslatable(f"{self.method}: a {have} where a {ty} is expected")

    def arg(self, a, ty: str):
        """the text of an argument of type `ty` (None if nothing is passed for it)"""
        if ty == PNONE:
            if _is_const(a, None) or self.ty_of(a) == PNONE:
                return None
            raise Untranslatable(f"{self.method}: given_params other than None")
        if ty == MODE:
            if self.ty_of(a) == MODE:
                return "hmm"
            if _is_const(a, "HMM"):
                return "true"
            if _is_const(a, "BN"):
                return "false"
            raise Untranslatable(f"mode argument {ast.dump(a)[:80]}")
        if ty == STR:
            if isinstance(a, ast.Constant) and isinstance(a.value, str) and '"' not in a.value:
                return f'"{a.value}"%string'
            return self.want(a, STR)
        if ty in NONE_OR and _is_const(a, None):
            return "None"
        t, have = self.expr(a)
        return self.coerce(t, have, ty)

    def call_method(self, name: str, call: ast.Call):
        if name == "state_dist":
            gen, ctx, want_sig, argty, res, rty = t3.METHODS[name]
        else:
            gen, ctx, want_sig, argty, rty = METHODS[name]
        if self.sigs[name] != want_sig:
            raise Untranslatable(f"signature of {name}: {self.sigs[name]} (expected {want_sig})")
        got = _call_args(call, want_sig, f"self.{name}")
        args = []
        before = len(self.pending)
        for pname, dflt in want_sig:
            if pname in got:
                a = got[pname]
            elif dflt is not None:
                a = ast.parse(dflt, mode="eval").body
            else:
                raise Untranslatable(f"self.{name}: missing argument {pname}")
            t = self.arg(a, argty[pname])
            if t is not None:
                args.append(t)
        if len(self.pending) != before:      # keeps the evaluation order of several raising calls trivially right
            raise Untranslatable(f"self.{name}: an argument that may raise")
        for c in ctx:
            self.need(c)
        lst = self.t3calls if name == "state_dist" else self.calls
        if name not in lst:
            lst.append(name)
        return self.effect(f"({gen} {' '.join(ctx + args)})", rty)

    def base_expr(self, e) -> str:
        """the `base` argument of matrix.compute_encoding: a literal or `3 if self.is_trinary else 2`"""
        if isinstance(e, ast.Constant) and type(e.value) is int and e.value >= 0:
            return f"{e.value}%nat"
        if isinstance(e, ast.IfExp) and _attr_chain(e.test) == ["self", "is_trinary"] \
                and all(isinstance(x, ast.Constant) and type(x.value) is int and x.value >= 0 for x in (e.body, e.orelse)):
            return f"(if {self.need('is_trinary')} then {e.body.value} else {e.orelse.value})%nat"
        raise Untranslatable(f"{self.method}: base {ast.dump(e)[:120]}")

    def expr(self, e):
        if isinstance(e, ast.Name) and e.id in self.env:
            t, ty = self.env[e.id]
            if ty in (MODE, PNONE):
                raise Untranslatable(f"`{e.id}` used as a value")
            return (t, ty)
        if isinstance(e, ast.Attribute) and e.attr == "T":
            return (f"(np_transpose 0%Qc {self.want(e.value, MAT)})", MAT)
        if isinstance(e, ast.BinOp) and isinstance(e.op, ast.MatMult):
            a, ta = self.expr(e.left)           # left operand first: Python's evaluation order
            b, tb = self.expr(e.right)
            if (ta, tb) == (BVEC, MAT):
                return (f"(np_vecmat (map b2q {a}) {b})", VEC)
            if (ta, tb) == (BVEC, NVEC):
                return (f"(np_bdot_nan {a} {b})", NQ)
            raise Untranslatable(f"{self.method}: {ta} @ {tb}")
        if isinstance(e, ast.BinOp) and isinstance(e.op, ast.Mult):
            a = self.want(e.left, VEC)
            b = self.want(e.right, VEC)
            return (f"(vmul {a} {b})", VEC)
        if isinstance(e, ast.BinOp) and isinstance(e.op, ast.Div):
            a = self.want(e.left, VEC)
            b = self.want(e.right, Q)
            return (f"(np_div_scalar {a} {b})", NVEC)
        if isinstance(e, ast.Call):
            fch = _attr_chain(e.func)
            if fch == ["np", "sum"] and len(e.args) == 1 and not e.keywords:
                return (f"(np_sum {self.want(e.args[0], VEC)})", Q)
            if fch == ["np", "array"] and len(e.args) == 1 and len(e.keywords) == 1 and e.keywords[0].arg == "dtype" \
                    and isinstance(e.keywords[0].value, ast.Name) and e.keywords[0].value.id == "bool" \
                    and isinstance(e.args[0], ast.List) and len(e.args[0].elts) == 1 and _is_const(e.args[0].elts[0], True):
                return ("[true]", BVEC)
            if fch == ["np", "kron"] and len(e.args) == 2 and not e.keywords:
                a = self.want(e.args[0], BVEC)
                b = self.want(e.args[1], BVEC)
                return (f"(kron_bvec {a} {b})", BVEC)
            if fch == ["matrix", "compute_encoding"]:
                lnls, pat, base = _keywords(e, ["lnls", "pattern", "base"], "matrix.compute_encoding")
                if not (isinstance(lnls, ast.Call) and not lnls.args and not lnls.keywords
                        and _attr_chain(lnls.func) == ["self", "graph", "lnls", "keys"]):
                    raise Untranslatable("matrix.compute_encoding: lnls is not self.graph.lnls.keys()")
                p = self.want(pat, PAT)
                return self.effect(f"(mx_compute_encoding {self.need('lnl_names')} {p} {self.base_expr(base)})", BVEC)
            if isinstance(e.func, ast.Attribute) and e.func.attr == "get" and self.ty_of(e.func.value) == DIAG \
                    and len(e.args) == 2 and not e.keywords and isinstance(e.args[1], ast.Dict) and not e.args[1].keys:
                return (f"(np_diag_get_or_empty {self.want(e.args[0], STR)} {self.env[e.func.value.id][0]})", PAT)
            if fch == ["self", "observation_matrix"] and not e.args and not e.keywords:
                return (self.need("observation_matrix"), MAT)
            if fch is not None and len(fch) == 2 and fch[0] == "self" and (fch[1] in METHODS or fch[1] == "state_dist"):
                return self.call_method(fch[1], e)
        raise Untranslatable(f"{self.method}: expression {ast.dump(e)[:200]}")

    # ---- statements ------------------------------------------------------------------------------------------------
    @classmethod
    def may_raise(cls, stmts) -> bool:
        for s in stmts:
            for n in ast.walk(s):
                if isinstance(n, ast.Raise) or (isinstance(n, ast.Attribute) and n.attr in cls.RAISING):
                    return True
        return False

    def is_none_test(self, t):
        if (isinstance(t, ast.Compare) and len(t.ops) == 1 and isinstance(t.ops[0], ast.Is) and isinstance(t.left, ast.Name)
                and _is_const(t.comparators[0], None) and self.ty_of(t.left) in NONE_OR):
            return t.left.id
        return None

    def is_safe_set_params(self, s) -> bool:
        """utils.safe_set_params(self, given_params) with given_params = None: no effect"""
        if not (isinstance(s, ast.Expr) and isinstance(s.value, ast.Call)):
            return False
        c = s.value
        if _attr_chain(c.func) != ["utils", "safe_set_params"] or c.keywords or len(c.args) != 2:
            return False
        if not (isinstance(c.args[0], ast.Name) and c.args[0].id == "self" and self.ty_of(c.args[1]) == PNONE):
            return False
        _check_safe_set_params()
        return True

    def block(self, stmts, tail) -> str:
        if not stmts:
            if tail is None:
                raise Untranslatable(f"{self.method}: block falls through without return")
            return tail
        s, rest = stmts[0], stmts[1:]

        if isinstance(s, ast.Return):
            if rest or tail is not None or s.value is None:
                raise Untranslatable(f"{self.method}: return inside a loop / code after return")
            t, ty = self.expr(s.value)
            return self.binds(self.take(), f"inr {self.coerce(t, ty, self.rty)}")

        if isinstance(s, ast.Assign) and len(s.targets) == 1 and isinstance(s.targets[0], ast.Name):
            name = self.binder(s.targets[0].id)
            t, ty = self.expr(s.value)
            pend = self.take()
            self.env[name] = (name, ty)
            if pend and pend[-1][0] == t:       # the value IS the last effect: bind it to the name directly
                pend[-1] = (name, pend[-1][1])
                return self.binds(pend, self.block(rest, tail))
            return self.binds(pend, f"let {name} := {t} in\n  {self.block(rest, tail)}")

        if isinstance(s, ast.If) and not s.orelse:
            x = self.is_none_test(s.test)
            if x is None:
                raise Untranslatable(f"{self.method}: conditional {ast.dump(s.test)[:120]}")
            inner = INNER[self.env[x][1]]
            body = list(s.body)
            # if X is None: return E
            if len(body) == 1 and isinstance(body[0], ast.Return):
                if tail is not None:
                    raise Untranslatable("return inside a loop")
                saved = dict(self.env)
                then = self.block(body, None)
                self.env = saved
                self.env[x] = (x, inner)
                return f"match {x} with\n  | None => {then}\n  | Some {x} =>\n  {self.block(rest, tail)}\n  end"
            # if X is None: [utils.safe_set_params(self, given_params);] X = E
            if len(body) == 2 and self.is_safe_set_params(body[0]):
                body = body[1:]
            if not (len(body) == 1 and isinstance(body[0], ast.Assign) and len(body[0].targets) == 1
                    and isinstance(body[0].targets[0], ast.Name) and body[0].targets[0].id == x):
                raise Untranslatable(f"{self.method}: `if {x} is None:` is not followed by `{x} = E` / `return E`")
            self.binder(x)
            t, ty = self.expr(body[0].value)
            pend = self.take()
            val = self.coerce(t, ty, inner)
            if not pend:
                raise Untranslatable(f"{self.method}: default value without a call")
            dflt = pend[0][1] if (len(pend) == 1 and pend[0][0] == val) else self.binds(pend, f"inr {val}")
            self.env[x] = (x, inner)
            return (f"bind (match {x} with None => {dflt} | Some {x} => inr {x} end) "
                    f"(fun {x} =>\n  {self.block(rest, tail)})")

        if isinstance(s, ast.For) and not s.orelse:
            it = s.iter
            if not (isinstance(it, ast.Call) and not it.args and not it.keywords and isinstance(it.func, ast.Attribute)
                    and it.func.attr == "keys" and isinstance(it.func.value, ast.Call) and not it.func.value.args
                    and not it.func.value.keywords and _attr_chain(it.func.value.func) == ["self", "get_all_modalities"]
                    and isinstance(s.target, ast.Name)):
                raise Untranslatable(f"{self.method}: loop over {ast.dump(it)[:160]}")
            v = self.binder(s.target.id)
            acc = [n for n in t3.Pipe.assigned(s.body) if n in self.env and n != v]
            if len(acc) != 1:
                raise Untranslatable(f"{self.method}: loop accumulators {acc}")
            a = acc[0]
            aty = self.env[a][1]
            saved = dict(self.env)
            self.env[v] = (v, STR)
            if not self.may_raise(s.body):
                raise Untranslatable(f"{self.method}: loop body without a call that may raise")
            inner = self.block(list(s.body), f"inr {a}")
            if self.pending:
                raise Untranslatable("unbound effect in a loop body")
            if self.env[a][1] != aty:
                raise Untranslatable("the accumulator changes its type")
            self.env = saved
            self.env.pop(v, None)
            step = f"fun (acc : res {GALLINA_TY[aty]}) ({v} : string) => bind acc (fun {a} =>\n    {inner})"
            return (f"bind (fold_left ({step})\n    {self.need('mod_names')} (inr {a})) (fun {a} =>\n  "
                    f"{self.block(rest, tail)})")
        raise Untranslatable(f"{self.method}: statement {type(s).__name__}: {ast.dump(s)[:160]}")


# ----------------------------------------------------------------------------------------------------------------------
# one definition per method, with the definitions of the translated methods it calls in front
# ----------------------------------------------------------------------------------------------------------------------
def _class_tree():
    tree = ast.parse(_src("lymph/models/unilateral.py"))
    sigs = {m: _signature(_func(tree, m, "Unilateral")) for m in list(METHODS) + ["state_dist"]}
    return tree, sigs


def _definition(tree, sigs, method: str):
    gen, ctx, want_sig, argty, rty = METHODS[method]
    if sigs[method] != want_sig:
        raise Untranslatable(f"signature of {method}: {sigs[method]} (expected {want_sig})")
    fn = _func(tree, method, "Unilateral")
    p = Post(method, sigs)
    body = p.block(_strip_doc(fn.body), None)
    params = " ".join(f"({c} : {CTX_TY[c]})" for c in ctx)
    args = " ".join(f"({'hmm' if ty == MODE else n} : {GALLINA_TY[ty]})" for n, ty in argty.items() if ty != PNONE)
    return f"Definition {gen} {params} {args} : res ({GALLINA_TY[rty]}) :=\n  {body}.\n", p.calls, p.t3calls


def _with_deps(method: str) -> str:
    tree, sigs = _class_tree()
    done, order, t3deps = {}, [], []

    def visit(m, stack=()):
        if m in stack:
            raise Untranslatable(f"recursive call of {m}")
        if m in done:
            return
        text, calls, t3calls = _definition(tree, sigs, m)
        for c in t3calls:
            if c not in t3deps:
                t3deps.append(c)
        for c in calls:
            visit(c, stack + (m,))
        done[m] = text
        order.append(m)
    visit(method)
    head = "".join(t3._with_deps(m) for m in t3deps)      # state_dist and what it calls (state_dist_evo, evolve)
    return head + "".join(done[m] for m in order)


U6 = t3.U6
UPOST = f"{U6} (observation_matrix u) (u_mod_names u) (u_lnls u)"
UMARG = f"{U6} (u_lnls u) (Nat.eqb (u_base u) 3)"
URISK = f"{U6} (observation_matrix u) (u_mod_names u) (u_lnls u) (Nat.eqb (u_base u) 3)"
_WF = "wf_graphb (u_graph u) = true"
_WFL = "wf_graphb (u_graph u) = true -> lnls (u_graph u) <> []"
_POST = "match po with None => inr None | Some post => bind (marginalize_of u inv post) (fun r => inr (Some r)) end"


def translate_uni_compute_encoding() -> str:
    return (_with_deps("compute_encoding")
            + "Lemma gen_uni_compute_encoding_np : forall mods lnls d,\n"
              "  gen_uni_compute_encoding mods lnls d = np_compute_encoding mods lnls d.\n"
              "Proof. intros. reflexivity. Qed.\n"
              "Lemma gen_uni_compute_encoding_eq : forall u d,\n"
              "  gen_uni_compute_encoding (u_mod_names u) (u_lnls u) d = diagnosis_encoding u d.\n"
              "Proof. intros u d. rewrite gen_uni_compute_encoding_np. apply np_compute_encoding_model. Qed.\n")


def translate_posterior_state_dist() -> str:
    return (_with_deps("posterior_state_dist")
            + "Lemma gen_posterior_state_dist_np : forall T sl m pmf nodes bnp O mods lnls given d t hmm,\n"
              "  gen_posterior_state_dist T sl m pmf nodes bnp O mods lnls given d t hmm\n"
              "  = np_posterior_state_dist T sl m pmf nodes bnp O mods lnls given d t hmm.\n"
              "Proof. intros. reflexivity. Qed.\n"
              f"Lemma gen_posterior_state_dist_eq : forall u given d t hmm, {_WFL} ->\n"
              f"  gen_posterior_state_dist {UPOST} given d t hmm\n"
              "  = bind (match given with None => state_dist u t hmm | Some sd => inr sd end) (fun prior => posterior_of u prior d).\n"
              "Proof. intros u given d t hmm Hwf Hl. rewrite gen_posterior_state_dist_np. apply np_posterior_state_dist_model; assumption. Qed.\n"
              f"Lemma gen_posterior_given_eq : forall u prior d t hmm, {_WF} ->\n"
              f"  gen_posterior_state_dist {UPOST} (Some prior) d t hmm = posterior_of u prior d.\n"
              "Proof. intros u prior d t hmm Hwf. rewrite gen_posterior_state_dist_np. apply np_posterior_given_model; assumption. Qed.\n")


def translate_marginalize() -> str:
    return (_with_deps("marginalize")
            + "Lemma gen_marginalize_np : forall T sl m pmf nodes bnp lnls tri inv given t hmm,\n"
              "  gen_marginalize T sl m pmf nodes bnp lnls tri inv given t hmm = np_marginalize T sl m pmf nodes bnp lnls tri inv given t hmm.\n"
              "Proof. intros. reflexivity. Qed.\n"
              f"Lemma gen_marginalize_eq : forall u inv t hmm, {_WFL} ->\n"
              f"  gen_marginalize {UMARG} inv None t hmm\n"
              "  = bind (state_dist u t hmm) (fun sd => bind (marginalize_of u inv sd) (fun r => inr (Some r))).\n"
              "Proof. intros u inv t hmm Hwf Hl. rewrite gen_marginalize_np. apply np_marginalize_model; assumption. Qed.\n"
              f"Lemma gen_marginalize_given_eq : forall u inv t hmm, {_WF} ->\n"
              f"  (forall sd, gen_marginalize {UMARG} inv (Some (Some sd)) t hmm = bind (marginalize_of u inv sd) (fun r => inr (Some r)))\n"
              f"  /\\ gen_marginalize {UMARG} inv (Some None) t hmm\n"
              "     = match compute_encoding (u_lnls u) inv (u_base u) with None => inl MValue | Some _ => inr None end.\n"
              "Proof.\n  intros u inv t hmm Hwf. destruct (np_marginalize_given_model u inv t hmm Hwf) as [H1 H2]. split.\n"
              "  - intros sd. rewrite gen_marginalize_np. apply H1.\n  - rewrite gen_marginalize_np. exact H2.\nQed.\n")


def translate_risk() -> str:
    return (_with_deps("risk")
            + "Lemma gen_risk_np : forall T sl m pmf nodes bnp O mods lnls tri inv given d t hmm,\n"
              "  gen_risk T sl m pmf nodes bnp O mods lnls tri inv given d t hmm = np_risk T sl m pmf nodes bnp O mods lnls tri inv given d t hmm.\n"
              "Proof. intros. reflexivity. Qed.\n"
              f"Lemma gen_risk_eq : forall u inv d t hmm, {_WFL} -> compute_encoding (u_lnls u) inv (u_base u) <> None ->\n"
              f"  gen_risk {URISK} inv None d t hmm = risk u inv d t hmm.\n"
              "Proof. intros u inv d t hmm Hwf Hl Hinv. rewrite gen_risk_np. apply np_risk_model; assumption. Qed.\n"
              f"Lemma gen_risk_given_eq : forall u inv sd d t hmm, {_WFL} -> compute_encoding (u_lnls u) inv (u_base u) <> None ->\n"
              f"  gen_risk {URISK} inv (Some sd) d t hmm = bind (posterior_of u sd d) (fun po => {_POST}).\n"
              "Proof. intros u inv sd d t hmm Hwf Hl Hinv. rewrite gen_risk_np. apply np_risk_given_model; assumption. Qed.\n"
              f"Lemma gen_risk_nan_invalid : forall u inv d t hmm prior, {_WFL} ->\n"
              "  state_dist u t hmm = inr prior -> posterior_of u prior d = inr None -> compute_encoding (u_lnls u) inv (u_base u) = None ->\n"
              f"  gen_risk {URISK} inv None d t hmm = inl MValue /\\ risk u inv d t hmm = inr None.\n"
              "Proof. intros u inv d t hmm prior Hwf Hl Hs Hp He. rewrite gen_risk_np. apply (np_risk_nan_invalid u inv d t hmm prior); assumption. Qed.\n")



# ----------------------------------------------------------------------------------------------------------------------
# Unilateral.diagnosis_prob
# ----------------------------------------------------------------------------------------------------------------------
MODALITY, NODE2, OIND = "modality", "string * nat", "option indicator"


def _is_call0(e, chain) -> bool:
    """CHAIN() without arguments"""
    return isinstance(e, ast.Call) and not e.args and not e.keywords and _attr_chain(e.func) == chain


def _is_modalities(e, view: str) -> bool:
    """self.get_all_modalities().<view>()"""
    return (isinstance(e, ast.Call) and not e.args and not e.keywords and isinstance(e.func, ast.Attribute)
            and e.func.attr == view and _is_call0(e.func.value, ["self", "get_all_modalities"]))


class Prob:
    """statements   NAME = 1.0 | for A, B in self.get_all_modalities().items(): BODY | for V in self.graph.lnls.values(): BODY
                    (one accumulator each) | if NAME in D: V = D[NAME]; REST    (no else; D the diagnosis)
                    | try: V = P[NODE.name]  except KeyError: continue  [except IndexError [as X]: raise ...]     (P a pattern)
                    | ACC *= NODE.comp_obs_prob(V, MODALITY.confusion_matrix) | return NAME"""

    RESERVED = Post.RESERVED | {"mods", "cm", "cop", "nodes", "diag_get", "pat_find", "fst", "snd"}

    def __init__(self):
        self.env = {"diagnosis": ("diagnosis", DIAG)}

    def binder(self, name: str) -> str:
        if name in self.RESERVED or name.startswith(("np_", "gen_", "mx_")) or not name.isidentifier() or not name.isascii():
            raise Untranslatable(f"diagnosis_prob: variable name `{name}` clashes with a name of the generated term")
        return name

    def name_of(self, e, ty: str) -> str:
        if isinstance(e, ast.Name) and self.env.get(e.id, (None, None))[1] == ty:
            return self.env[e.id][0]
        raise Untranslatable(f"diagnosis_prob: expected a variable of type {ty}: {ast.dump(e)[:120]}")

    def loop(self, s: ast.For, lst: str, binder: str, bound: dict, rest, tail) -> str:
        acc = [n for n in t3.Pipe.assigned(s.body) if n in self.env and n not in bound]
        if len(acc) != 1 or self.env[acc[0]][1] != Q:
            raise Untranslatable(f"diagnosis_prob: loop accumulators {acc}")
        a = acc[0]
        saved = dict(self.env)
        self.env.update(bound)
        inner = self.block(list(s.body), a)
        self.env = saved
        for n in bound:
            if n in self.env:
                raise Untranslatable(f"diagnosis_prob: loop variable `{n}` shadows a variable")
        return f"let {a} := fold_left (fun ({a} : Qc) {binder} =>\n    {inner})\n    {lst} {a} in\n  {self.block(rest, tail)}"

    def block(self, stmts, tail) -> str:
        if not stmts:
            if tail is None:
                raise Untranslatable("diagnosis_prob: block falls through without return")
            return tail
        s, rest = stmts[0], stmts[1:]
        if isinstance(s, ast.Return):
            if rest or tail is not None:
                raise Untranslatable("diagnosis_prob: return inside a loop / code after return")
            return self.name_of(s.value, Q)
        if isinstance(s, ast.Assign) and len(s.targets) == 1 and isinstance(s.targets[0], ast.Name) \
                and isinstance(s.value, ast.Constant) and type(s.value.value) is float and s.value.value == int(s.value.value) \
                and s.value.value >= 0 and tail is None:
            name = self.binder(s.targets[0].id)
            self.env[name] = (name, Q)
            return f"let {name} := {int(s.value.value)}%Qc in\n  {self.block(rest, tail)}"
        if isinstance(s, ast.For) and not s.orelse:
            if _is_modalities(s.iter, "items") and isinstance(s.target, ast.Tuple) and len(s.target.elts) == 2 \
                    and all(isinstance(x, ast.Name) for x in s.target.elts) and s.target.elts[0].id != s.target.elts[1].id:
                a, b = (self.binder(x.id) for x in s.target.elts)
                return self.loop(s, "mods", f"'({a}, {b})", {a: (a, STR), b: (b, MODALITY)}, rest, tail)
            if _is_call0(s.iter, ["self", "graph", "lnls", "values"]) and isinstance(s.target, ast.Name):
                v = self.binder(s.target.id)
                return self.loop(s, "nodes", f"({v} : string * nat)", {v: (v, NODE2)}, rest, tail)
            raise Untranslatable(f"diagnosis_prob: loop over {ast.dump(s.iter)[:160]}")
        # if NAME in D: V = D[NAME]; REST
        if isinstance(s, ast.If) and not s.orelse and tail is not None:
            t = s.test
            if not (isinstance(t, ast.Compare) and len(t.ops) == 1 and isinstance(t.ops[0], ast.In) and s.body):
                raise Untranslatable(f"diagnosis_prob: conditional {ast.dump(t)[:120]}")
            key, d = self.name_of(t.left, STR), self.name_of(t.comparators[0], DIAG)
            f = s.body[0]
            if not (isinstance(f, ast.Assign) and len(f.targets) == 1 and isinstance(f.targets[0], ast.Name)
                    and isinstance(f.value, ast.Subscript) and self.name_of(f.value.value, DIAG) == d
                    and self.name_of(f.value.slice, STR) == key):
                raise Untranslatable("diagnosis_prob: `if NAME in D:` does not start with `V = D[NAME]`")
            v = self.binder(f.targets[0].id)
            if v in self.env:
                raise Untranslatable(f"diagnosis_prob: `{v}` is assigned twice")
            saved = dict(self.env)
            self.env[v] = (v, PAT)
            then = self.block(list(s.body[1:]) + list(rest), tail)     # falls through into the rest of the enclosing block
            self.env = saved
            other = self.block(list(rest), tail)
            return f"match diag_get {key} {d} with\n    | None => {other}\n    | Some {v} =>\n    {then}\n    end"
        # try: V = P[NODE.name] except KeyError: continue [except IndexError: raise]
        if isinstance(s, ast.Try) and tail is not None:
            ok = (len(s.body) == 1 and not s.orelse and not s.finalbody and isinstance(s.body[0], ast.Assign)
                  and len(s.body[0].targets) == 1 and isinstance(s.body[0].targets[0], ast.Name)
                  and isinstance(s.body[0].value, ast.Subscript) and 1 <= len(s.handlers) <= 2)
            if not ok:
                raise Untranslatable("diagnosis_prob: try statement")
            h = s.handlers[0]
            if not (isinstance(h.type, ast.Name) and h.type.id == "KeyError" and len(h.body) == 1 and isinstance(h.body[0], ast.Continue)):
                raise Untranslatable("diagnosis_prob: the first handler is not `except KeyError: continue`")
            for h in s.handlers[1:]:                    # dead for a dict lookup (module docstring)
                if not (isinstance(h.type, ast.Name) and h.type.id == "IndexError" and len(h.body) == 1 and isinstance(h.body[0], ast.Raise)):
                    raise Untranslatable("diagnosis_prob: the second handler is not `except IndexError: raise ...`")
            sub = s.body[0].value
            p = self.name_of(sub.value, PAT)
            k = sub.slice
            if not (isinstance(k, ast.Attribute) and k.attr == "name"):
                raise Untranslatable("diagnosis_prob: the key is not NODE.name")
            node = self.name_of(k.value, NODE2)
            v = self.binder(s.body[0].targets[0].id)
            if v in self.env:
                raise Untranslatable(f"diagnosis_prob: `{v}` is assigned twice")
            saved = dict(self.env)
            self.env[v] = (v, OIND)
            then = self.block(list(rest), tail)
            self.env = saved
            return f"match pat_find (fst {node}) {p} with\n      | None => {tail}\n      | Some {v} =>\n      {then}\n      end"
        # ACC *= NODE.comp_obs_prob(V, MODALITY.confusion_matrix)
        if isinstance(s, ast.AugAssign) and isinstance(s.op, ast.Mult) and isinstance(s.target, ast.Name):
            a = self.name_of(s.target, Q)
            c = s.value
            if not (isinstance(c, ast.Call) and isinstance(c.func, ast.Attribute) and c.func.attr == "comp_obs_prob"
                    and len(c.args) == 2 and not c.keywords and isinstance(c.args[1], ast.Attribute)
                    and c.args[1].attr == "confusion_matrix"):
                raise Untranslatable(f"diagnosis_prob: factor {ast.dump(c)[:160]}")
            node = self.name_of(c.func.value, NODE2)
            obs = self.name_of(c.args[0], OIND)
            m = self.name_of(c.args[1].value, MODALITY)
            return f"let {a} := ({a} * cop {node} {obs} (cm {m}))%Qc in\n  {self.block(rest, tail)}"
        raise Untranslatable(f"diagnosis_prob: statement {type(s).__name__}: {ast.dump(s)[:160]}")


def _method(name: str, want_sig):
    tree = ast.parse(_src("lymph/models/unilateral.py"))
    fn = _func(tree, name, "Unilateral")
    if _signature(fn) != want_sig:
        raise Untranslatable(f"signature of {name}: {_signature(fn)} (expected {want_sig})")
    return tree, fn


def translate_diagnosis_prob() -> str:
    _, fn = _method("diagnosis_prob", [("diagnosis", None)])
    body = Prob().block(_strip_doc(fn.body), None)
    return ("Definition gen_diagnosis_prob (mods : list (string * modality)) (cm : modality -> mat) (nodes : list (string * nat))\n"
            "  (cop : string * nat -> option indicator -> mat -> Qc) (diagnosis : diagnosis) : Qc :=\n  " + body + ".\n"
            "Lemma gen_diagnosis_prob_np : forall mods cm nodes cop d,\n"
            "  gen_diagnosis_prob mods cm nodes cop d = np_diagnosis_prob mods cm nodes cop d.\n"
            "Proof. intros. reflexivity. Qed.\n"
            "Lemma gen_diagnosis_prob_eq : forall b mods lnl_names x d,\n"
            "  gen_diagnosis_prob mods (confusion_matrix b) (combine lnl_names x) obs_prob_reading d = diagnosis_prob b mods lnl_names x d.\n"
            "Proof. intros. rewrite gen_diagnosis_prob_np. apply np_diagnosis_prob_model. Qed.\n")


# ----------------------------------------------------------------------------------------------------------------------
# Unilateral.observation_matrix / diagnosis_matrix / obs_list
# ----------------------------------------------------------------------------------------------------------------------
def _trinary_base(e) -> str:
    """`A if self.is_trinary else B` with natural literals"""
    if isinstance(e, ast.IfExp) and _attr_chain(e.test) == ["self", "is_trinary"] \
            and all(isinstance(x, ast.Constant) and type(x.value) is int and x.value >= 0 for x in (e.body, e.orelse)):
        return f"(if is_trinary then {e.body.value} else {e.orelse.value})%nat"
    raise Untranslatable(f"base {ast.dump(e)[:120]}")


def translate_observation_matrix() -> str:
    _, fn = _method("observation_matrix", [])
    st = _strip_doc(fn.body)
    if not (len(st) == 1 and isinstance(st[0], ast.Return) and isinstance(st[0].value, ast.Call)
            and _attr_chain(st[0].value.func) == ["matrix", "generate_observation"]):
        raise Untranslatable("observation_matrix is not `return matrix.generate_observation(...)`")
    mods, n, base = _keywords(st[0].value, ["modalities", "num_lnls", "base"], "matrix.generate_observation")
    if not _is_modalities(mods, "values"):
        raise Untranslatable("modalities is not self.get_all_modalities().values()")
    if not (isinstance(n, ast.Call) and isinstance(n.func, ast.Name) and n.func.id == "len" and len(n.args) == 1 and not n.keywords
            and _attr_chain(n.args[0]) == ["self", "graph", "lnls"]):
        raise Untranslatable("num_lnls is not len(self.graph.lnls)")
    return ("Definition gen_observation_matrix (modalities : list modality) (lnl_names : list string) (is_trinary : bool) : mat :=\n"
            f"  generate_observation modalities (length lnl_names) {_trinary_base(base)}.\n"
            "Lemma gen_observation_matrix_np : forall mods lnls tri, gen_observation_matrix mods lnls tri = np_observation_matrix mods lnls tri.\n"
            "Proof. intros. reflexivity. Qed.\n"
            f"Lemma gen_observation_matrix_eq : forall u, {_WF} ->\n"
            "  gen_observation_matrix (map snd (u_mods u)) (u_lnls u) (Nat.eqb (u_base u) 3) = observation_matrix u.\n"
            "Proof. intros u Hwf. rewrite gen_observation_matrix_np. apply np_observation_matrix_model. exact Hwf. Qed.\n")


BMAT = "boolean matrix"


def translate_diagnosis_matrix() -> str:
    """K = hash((t_stage, self.modalities_hash(), self._cache_version)); if K not in CACHE: CACHE[K] = E; return CACHE[K].T"""
    _, fn = _method("diagnosis_matrix", [("t_stage", "None")])
    st = _strip_doc(fn.body)
    if len(st) != 3:
        raise Untranslatable(f"diagnosis_matrix: {len(st)} statements")
    key, fill, ret = st
    ok = (isinstance(key, ast.Assign) and len(key.targets) == 1 and isinstance(key.targets[0], ast.Name)
          and isinstance(key.value, ast.Call) and isinstance(key.value.func, ast.Name) and key.value.func.id == "hash"
          and len(key.value.args) == 1 and not key.value.keywords and isinstance(key.value.args[0], ast.Tuple))
    if not ok:
        raise Untranslatable("diagnosis_matrix: the first statement is not `K = hash((...))`")
    k = key.targets[0].id
    want = sorted(ast.dump(ast.parse(x, mode="eval").body) for x in ("t_stage", "self.modalities_hash()", "self._cache_version"))
    if sorted(ast.dump(x) for x in key.value.args[0].elts) != want:
        raise Untranslatable("diagnosis_matrix: the cache key is not (t_stage, self.modalities_hash(), self._cache_version)")
    cache = ["self", "_diagnosis_matrix_cache"]

    def entry(e):
        return (isinstance(e, ast.Subscript) and _attr_chain(e.value) == cache and isinstance(e.slice, ast.Name) and e.slice.id == k)
    ok = (isinstance(fill, ast.If) and not fill.orelse and isinstance(fill.test, ast.Compare) and len(fill.test.ops) == 1
          and isinstance(fill.test.ops[0], ast.NotIn) and isinstance(fill.test.left, ast.Name) and fill.test.left.id == k
          and _attr_chain(fill.test.comparators[0]) == cache and len(fill.body) == 1 and isinstance(fill.body[0], ast.Assign)
          and len(fill.body[0].targets) == 1 and entry(fill.body[0].targets[0]))
    if not ok:
        raise Untranslatable(f"diagnosis_matrix: the second statement is not `if {k} not in CACHE: CACHE[{k}] = E`")
    pending = []

    def expr(e):
        if _is_call0(e, ["self", "observation_matrix"]):
            return ("observation_matrix", MAT)
        if isinstance(e, ast.Call) and _attr_chain(e.func) == ["self", "data_matrix"] and len(e.args) == 1 and not e.keywords \
                and isinstance(e.args[0], ast.Name) and e.args[0].id == "t_stage":
            pending.append((f"v'{len(pending)}", "(data_matrix t_stage)"))
            return (pending[-1][0], BMAT)
        if isinstance(e, ast.Attribute) and e.attr == "T":
            t, ty = expr(e.value)
            return (f"(np_transpose {'false' if ty == BMAT else '0%Qc'} {t})", ty)
        if isinstance(e, ast.BinOp) and isinstance(e.op, ast.MatMult):
            a, ta = expr(e.left)             # left operand first: Python's evaluation order
            b, tb = expr(e.right)
            if ta != MAT:
                raise Untranslatable("diagnosis_matrix: left operand of @")
            return (f"(np_matmul {a} {b if tb == MAT else f'(map (map b2q) {b})'})", MAT)
        raise Untranslatable(f"diagnosis_matrix: expression {ast.dump(e)[:160]}")
    val, ty = expr(fill.body[0].value)
    if ty != MAT:
        raise Untranslatable("diagnosis_matrix: the cached value is not a float matrix")
    if not (isinstance(ret, ast.Return) and isinstance(ret.value, ast.Attribute) and ret.value.attr == "T" and entry(ret.value.value)):
        raise Untranslatable(f"diagnosis_matrix: the last statement is not `return CACHE[{k}].T`")
    body = t3.Pipe.binds(pending, f"let cached := {val} in\n  inr (np_transpose 0%Qc cached)")
    return ("Definition gen_diagnosis_matrix (observation_matrix : mat) (data_matrix : option string -> res (list bvec))\n"
            "  (t_stage : option string) : res mat :=\n  " + body + ".\n"
            "Lemma gen_diagnosis_matrix_np : forall O D t, gen_diagnosis_matrix O D t = np_diagnosis_matrix O D t.\n"
            "Proof. intros. reflexivity. Qed.\n"
            f"Lemma gen_diagnosis_matrix_eq : forall u data t, {_WF} ->\n"
            "  gen_diagnosis_matrix (observation_matrix u) (data_matrix u data) t = diagnosis_matrix u data t.\n"
            "Proof. intros u data t Hwf. rewrite gen_diagnosis_matrix_np. apply np_diagnosis_matrix_model. exact Hwf. Qed.\n")


def translate_obs_list() -> str:
    """L = []; for M in self.get_all_modalities().values(): P = np.arange(M.confusion_matrix.shape[1]);
       for _ in self.graph.lnls: L.append(P.copy());  return np.array(list(product(*L)))"""
    tree, fn = _method("obs_list", [])
    if not any(isinstance(n, ast.ImportFrom) and n.module == "itertools" and n.level == 0
               and any(a.name == "product" and a.asname is None for a in n.names) for n in tree.body):
        raise Untranslatable("obs_list: `product` is not itertools.product")
    st = _strip_doc(fn.body)
    if len(st) != 3:
        raise Untranslatable(f"obs_list: {len(st)} statements")
    init, loop, ret = st
    b = Prob().binder
    if not (isinstance(init, ast.Assign) and len(init.targets) == 1 and isinstance(init.targets[0], ast.Name)
            and isinstance(init.value, ast.List) and not init.value.elts):
        raise Untranslatable("obs_list: the first statement is not `L = []`")
    lst = b(init.targets[0].id)
    if not (isinstance(loop, ast.For) and not loop.orelse and isinstance(loop.target, ast.Name) and _is_modalities(loop.iter, "values")
            and len(loop.body) == 2):
        raise Untranslatable("obs_list: the loop is not `for M in self.get_all_modalities().values():` with two statements")
    m = b(loop.target.id)
    rng, inner = loop.body
    want = ast.dump(ast.parse(f"np.arange({m}.confusion_matrix.shape[1])", mode="eval").body)
    if not (isinstance(rng, ast.Assign) and len(rng.targets) == 1 and isinstance(rng.targets[0], ast.Name)
            and ast.dump(rng.value) == want):
        raise Untranslatable(f"obs_list: the first loop statement is not `P = np.arange({m}.confusion_matrix.shape[1])`")
    p = b(rng.targets[0].id)
    if not (isinstance(inner, ast.For) and not inner.orelse and isinstance(inner.target, ast.Name)
            and _attr_chain(inner.iter) == ["self", "graph", "lnls"] and len(inner.body) == 1):
        raise Untranslatable("obs_list: the inner loop is not `for _ in self.graph.lnls:` with one statement")
    v = inner.target.id
    if v != "_":
        b(v)
    if len({lst, m, p, v}) != 4:
        raise Untranslatable("obs_list: variable names coincide")
    app = inner.body[0]
    ok = (isinstance(app, ast.Expr) and isinstance(app.value, ast.Call) and _attr_chain(app.value.func) == [lst, "append"]
          and len(app.value.args) == 1 and not app.value.keywords
          and (_is_call0(app.value.args[0], [p, "copy"]) or (isinstance(app.value.args[0], ast.Name) and app.value.args[0].id == p)))
    if not ok:
        raise Untranslatable(f"obs_list: the inner statement is not `{lst}.append({p}.copy())`")
    want = ast.dump(ast.parse(f"np.array(list(product(*{lst})))", mode="eval").body)
    if not (isinstance(ret, ast.Return) and ast.dump(ret.value) == want):
        raise Untranslatable(f"obs_list: the last statement is not `return np.array(list(product(*{lst})))`")
    return ("Definition gen_obs_list (modalities : list modality) (cm : modality -> mat) (lnl_names : list string) : list state :=\n"
            f"  let {lst} : list (list nat) := [] in\n"
            f"  let {lst} := fold_left (fun ({lst} : list (list nat)) ({m} : modality) =>\n"
            f"      let {p} := seq 0 (np_shape1 (cm {m})) in\n"
            f"      let {lst} := fold_left (fun ({lst} : list (list nat)) ({v} : string) =>\n"
            f"          let {lst} := {lst} ++ [{p}] in\n"
            f"          {lst}) lnl_names {lst} in\n"
            f"      {lst}) modalities {lst} in\n"
            f"  np_product {lst}.\n"
            "Lemma gen_obs_list_np : forall mods cm lnls, gen_obs_list mods cm lnls = np_obs_list mods cm lnls.\n"
            "Proof. intros. reflexivity. Qed.\n"
            "Lemma gen_obs_list_eq : forall u,\n"
            "  gen_obs_list (map snd (u_mods u)) (confusion_matrix (u_base u)) (u_lnls u) = u_obs_list u.\n"
            "Proof. intros u. rewrite gen_obs_list_np. apply np_obs_list_model. Qed.\n")


HEADER = ("(* GENERATED on every run by harness/translate8.py from the Python source of lymph; do not edit *)\n"
          "From LymphModel Require Import Base States Linalg Graph Transition Observation Dist Unilateral UniStatements Numpy\n"
          "  NumpyTransition NumpyPipelines NumpyPosterior.\n"
          "Local Open Scope nat_scope.\nOpen Scope Qc_scope.\n\n")

_WHERE = "lymph/models/unilateral.py Unilateral."
PIECES = {
    "uni_compute_encoding": (translate_uni_compute_encoding, "gen_uni_compute_encoding_eq", _WHERE + "compute_encoding"),
    "posterior_state_dist": (translate_posterior_state_dist, ["gen_posterior_state_dist_eq", "gen_posterior_given_eq"],
                             _WHERE + "posterior_state_dist"),
    "marginalize": (translate_marginalize, ["gen_marginalize_eq", "gen_marginalize_given_eq"], _WHERE + "marginalize"),
    "risk": (translate_risk, ["gen_risk_eq", "gen_risk_given_eq", "gen_risk_nan_invalid"], _WHERE + "risk"),
    "diagnosis_prob": (translate_diagnosis_prob, "gen_diagnosis_prob_eq", _WHERE + "diagnosis_prob"),
    "observation_matrix": (translate_observation_matrix, "gen_observation_matrix_eq", _WHERE + "observation_matrix"),
    "diagnosis_matrix": (translate_diagnosis_matrix, "gen_diagnosis_matrix_eq", _WHERE + "diagnosis_matrix"),
    "obs_list": (translate_obs_list, "gen_obs_list_eq", _WHERE + "obs_list"),
}


def generate(piece: str) -> str:
    fn, lemma, _ = PIECES[piece]
    lemmas = [lemma] if isinstance(lemma, str) else list(lemma)
    return HEADER + fn() + "".join(f"Print Assumptions {l}.\n" for l in lemmas)


if __name__ == "__main__":
    import sys
    for p in (sys.argv[1:] or PIECES):
        print(generate(p))
