"""Source-to-Gallina translator, seventh part: the numerical core of `lymph.models.Midline`.

On every run the methods

  Midline.midext_evo              -> gen_midext_evo             rows (a, b) = Midline.midext_evo  (rows [(1-p)^t, 1-(1-p)^t])
  Midline.contra_state_dist_evo   -> gen_contra_state_dist_evo  = Midline.contra_state_dist_evo, BOTH values of use_midext_evo
                                                                  (True: the recursion over the time steps; False: the static coin)
  Midline.state_dist              -> gen_ml_state_dist          = NumpyMidline.ml_state_dist_nd: central=True the central model's
                                                                  joint (Midline.ml_state_dist_central, AttributeError without a
                                                                  central model), else mode "HMM" the two slices of
                                                                  Midline.ml_state_dist, mode "BN" NotImplementedError
  Midline.obs_dist                -> gen_ml_obs_dist            = NumpyMidline.ml_obs_dist_nd / ml_obs_dist_of (the ext model's
                                                                  Bilateral.bi_obs_dist_of of the 2-D array / of each slice)
  Midline._hmm_likelihood         -> gen_ml_hmm_likelihood      = Midline.ml_hmm_likelihood_factors (the whole function: stage loop,
                                                                  ext / noext cohorts, the `unknown` cohort scored with the
                                                                  sum of the two joints inside try / except AttributeError,
                                                                  the central model's factors); additional hypotheses: both
                                                                  sides have the same number of LNLs, the contralateral graph
                                                                  of an `unknown` model is well-formed

are parsed with `ast` from $LYMPH_REPO/lymph/models/midline.py and re-generated as Gallina terms over the numpy primitives of
coq/theories/NumpyMidline.v and NumpyPipelines.v.  The generated file proves (1) by `reflexivity` (conversion) that the
generated term is the hand-written numpy-semantics definition `np_<function>` of NumpyMidline.v and (2) with the static
theorem `np_<function>_model` that it equals the model of Midline.v for every `ml` with `wf_midline ml = true` (midext_evo
needs no hypothesis; _hmm_likelihood two more, see above).  A piece that calls other translated methods (`self.midext_evo()`, `self.contra_state_dist_evo()`,
`self.state_dist(...)`, and `Unilateral.state_dist_evo` / `evolve` of the three sub-models, which are re-generated from
lymph/models/unilateral.py by translate3) emits those definitions in the same file.

Fail-closed: every statement / expression form not listed in `MPipe` raises `Untranslatable`.

What the translator itself ASSUMES (trusted reading of the lymph objects; everything else is proved):
  * `self.max_time` is a natural number (`max_time`; instantiated with ml_maxt = max_time of ext.ipsi), `self.midext_prob` a
    number (`midext_prob` = ml_midext), `self.use_midext_evo` a boolean (`use_midext_evo` = ml_evo);
  * `self.ext.ipsi`, `self.ext.contra`, `self.noext.contra` are Unilateral models (no other sub-model is readable); what a
    Midline method reads from one of them is the record `uctx` (transition matrix, state list, max_time):
    `self.B.S.state_dist_evo()` is `gen_state_dist_evo (uc_T B_S) (uc_sl B_S) (uc_maxt B_S)` with gen_state_dist_evo
    re-generated from Unilateral.state_dist_evo (translate3), `self.B.S.transition_matrix()` is `uc_T B_S`.  Both are pure
    calls; `state_dist_evo()` returns a NEWLY ALLOCATED array on every call (the translator checks that the method has no
    decorator, i.e. no cache; its body starts from np.zeros), so scaling the result in place changes nothing else;
  * `self.get_distribution(T).pmf` = `pmf_of T : res vec` (may raise; instantiated with get_pmf of ext.ipsi);
  * `self.central.state_dist(T, MODE)` = `central_state_dist T hmm : res mat`, the attribute access `self.central` included
    (AttributeError without a central model); instantiated with Midline.ml_state_dist_central, i.e. Bilateral.bi_state_dist of
    the central model.  The signature of Bilateral.state_dist is checked to be (t_stage="early", mode="HMM");
  * `self.ext.obs_dist(given_state_dist=X)` for a 2-D X = `ext_obs_dist X : mat` (total: with a given array
    Bilateral.obs_dist does not call state_dist; instantiated with Bilateral.bi_obs_dist_of (ml_ext ml));
  * `mode` is "HMM" or "BN" (`hmm : bool`), `central` a boolean, keyword defaults are read from the `def` line and checked;
  * `X.ndim == 2` on the value of state_dist (`nd` = a 2-D or a 3-D array) is the case distinction Nd2 / Nd3; in the branch
    the name denotes the 2-D array, after it the 3-D array;
  * in-place operations (`A *= x`, `A[i] = row`, `A[:, j] = col`) rebind the name.  This is sound because they are accepted
    only on a name bound IN THIS FUNCTION to a newly created array (a call / an arithmetic expression, never another name, a
    slice, `.T` or `.reshape`, which are views), and binding a view to a name is rejected altogether;
  * `np.empty` is read as an all-zero array (every slab is overwritten before the array is returned; if it were not, the
    proof against the model would fail);
  * _hmm_likelihood: the value is kept as the LIST OF ITS FACTORS as in translate3 (`0.0 if log else 1.0` = no factor,
    `utils.add_or_mult(llh, X, log=log)` appends X, the body of utils.add_or_mult is checked; `if log: llh += E else: llh *= E`
    with the same E = another likelihood appends the factors of E);
    `self.t_stages` = `all_t_stages` (instantiated with Midline.ml_t_stages);
    `contra_dist_evo = {}` followed by `contra_dist_evo["noext"], contra_dist_evo["ext"] = self.contra_state_dist_evo()` is a
    pair of names (dictionary with constant string keys); `for case in ["ext", "noext"]: BODY` is UNROLLED (the copies of BODY
    with the constant in place of `case`, which must not be assigned); `getattr(self, "ext" | "noext")` names a sub-model;
    `MODEL.SIDE.diagnosis_matrix(stage)` for MODEL such a name or `self.unknown` and SIDE ipsi / contra is
    `dm CASE SIDE stage : res mat`, the attribute accesses included (instantiated with NumpyMidline.ml_dm: the model's
    Unilateral.diagnosis_matrix of that side on the cohort d_ext / d_noext / d_unknown; AttributeError = MAttr when there is
    no `unknown` model or no cohort in it);
    `matrix.fast_trace(L, R)` is `Linalg.fast_trace L R`: this is the statement of the piece `fast_trace` of translate4
    (np_fast_trace_eq) for a P x S array L and an S x P array R, which is the shape of the arguments here;
    `try: BODY except AttributeError: pass` where BODY ends by rebinding the only outer variable it changes is
    `np_except_attr BODY old-value` (AttributeError anywhere in BODY leaves the variable unchanged; other exceptions
    propagate; the static proof shows that the model's diagnosis matrices never raise AttributeError, so that the
    handler only fires for a missing `unknown` model / cohort);
    `self.use_central` = `use_central` (ml_central is Some) and `self.central.likelihood(log=log, t_stage=T)` =
    `central_likelihood T : res vec`, the factors of the central model's HMM likelihood (Bilateral.bi_hmm_likelihood_factors on
    d_central; AttributeError without a central model / cohort); the signature of Bilateral.likelihood is checked;
  * shapes fit (numpy raises on operands whose shapes do not fit; the list primitives do not): under the hypotheses of the
    lemmas they do; Python ints used as sizes / indices are naturals; exceptions propagate in evaluation order.
"""
from __future__ import annotations

import ast
import copy

from .translate import Untranslatable, _func, _src, _strip_doc
from .translate2 import _attr_chain
from . import translate3
from .translate3 import _check_add_or_mult, _is_const, _signature

NAT, Q, IVEC, VEC, MAT, COLM, T3, LMAT, PAIR, ND, OND, STR, MODE, FLAG, FACT, LOG, OSTR, LSTR, DICT, MODELREF = (
    "nat", "Qc", "int array", "vec", "mat", "column", "3-d array", "list of 2-d arrays", "pair of 2-d arrays", "nd",
    "option nd", "string", "mode", "flag", "factors", "log", "option string", "list string", "dict of arrays", "sub-model")
GALLINA_TY = {NAT: "nat", Q: "Qc", IVEC: "list nat", VEC: "vec", MAT: "mat", COLM: "mat", T3: "list mat", LMAT: "list mat",
              PAIR: "mat * mat", ND: "nd", OND: "option nd", STR: "string", MODE: "bool", FLAG: "bool", FACT: "vec",
              OSTR: "option string", LSTR: "list string"}
ARRAYS = (IVEC, VEC, MAT, COLM, T3)
ERR = {"ValueError": "MValue", "KeyError": "MKey", "NotImplementedError": "MNotImpl", "AttributeError": "MAttr"}

CTX_TY = {"noext_contra": "uctx", "ext_contra": "uctx", "ext_ipsi": "uctx", "max_time": "nat", "midext_prob": "Qc",
          "use_midext_evo": "bool", "pmf_of": "string -> res vec", "central_state_dist": "string -> bool -> res mat",
          "ext_obs_dist": "mat -> mat", "all_t_stages": "list string", "dm": "mlcase -> mlside -> string -> res mat",
          "use_central": "bool", "central_likelihood": "option string -> res vec"}
EVO = ["noext_contra", "ext_contra", "max_time", "midext_prob", "use_midext_evo"]
SD = ["noext_contra", "ext_contra", "ext_ipsi", "max_time", "midext_prob", "use_midext_evo", "pmf_of", "central_state_dist"]
LLH = ["noext_contra", "ext_contra", "ext_ipsi", "max_time", "midext_prob", "use_midext_evo", "pmf_of", "all_t_stages", "dm",
       "use_central", "central_likelihood"]
CASES = {"ext": "CExt", "noext": "CNoext"}
SIDES = {"ipsi": "SIpsi", "contra": "SContra"}
SUBMODELS = {("noext", "contra"): "noext_contra", ("ext", "contra"): "ext_contra", ("ext", "ipsi"): "ext_ipsi"}

# method -> (gen name, context parameters, python signature [(name, default repr | None)], argument types, returns res?, type)
METHODS = {
    "midext_evo": ("gen_midext_evo", ["max_time", "midext_prob"], [], {}, False, MAT),
    "contra_state_dist_evo": ("gen_contra_state_dist_evo", EVO, [], {}, False, PAIR),
    "state_dist": ("gen_ml_state_dist", SD, [("t_stage", "'early'"), ("mode", "'HMM'"), ("central", "False")],
                   {"t_stage": STR, "mode": MODE, "central": FLAG}, True, ND),
    "obs_dist": ("gen_ml_obs_dist", SD + ["ext_obs_dist"],
                 [("given_state_dist", "None"), ("t_stage", "'early'"), ("mode", "'HMM'"), ("central", "False")],
                 {"given_state_dist": OND, "t_stage": STR, "mode": MODE, "central": FLAG}, True, ND),
    "_hmm_likelihood": ("gen_ml_hmm_likelihood", LLH, [("log", "True"), ("for_t_stage", "None")],
                        {"log": LOG, "for_t_stage": OSTR}, True, FACT),
}
BILATERAL_SIGS = {"state_dist": [("t_stage", "'early'"), ("mode", "'HMM'")],
                  "obs_dist": [("given_state_dist", "None"), ("t_stage", "'early'"), ("mode", "'HMM'")],
                  "likelihood": [("given_params", "None"), ("log", "True"), ("t_stage", "None"), ("mode", "'HMM'")]}


def _plain_method(tree, name: str, cls: str) -> ast.FunctionDef:
    fn = _func(tree, name, cls)
    if fn.decorator_list:
        raise Untranslatable(f"{cls}.{name} has a decorator (a cached method may return an array that something else holds)")
    return fn


class MPipe:
    """statements   NAME = E (E creates a value; binding a view of an array is rejected) | A, B = self.contra_state_dist_evo()
                    | NAME[:, k] = E | NAME[i] = E | NAME *= E       (only on a name bound here to a new array)
                    | if [not] self.use_midext_evo: S1 else: S2 ; REST  (REST is translated after either branch)
                    | if central: ...return | if mode == "HMM"/"BN": ...return | if X is None: X = E
                    | if X.ndim == 2: ...return | for t in range(n): BODY (one accumulator, no call that may raise)
                    | for V in ["c1", ...]: BODY (unrolled) | for stage in NAME (a list of T-stages): BODY (accumulator = factors)
                    | llh = 0.0 if log else 1.0 | llh = utils.add_or_mult(llh, E, log=log) | A += E (2-D arrays)
                    | X = A if O is None else B | D = {} | D["a"], D["b"] = self.contra_state_dist_evo() | M = getattr(self, "ext")
                    | try: BODY except AttributeError: pass | if self.use_central: S | if log: llh += E else: llh *= E
                    | return E | return A, B | raise ERROR(...) (last statement)
       expressions  names, naturals, integral floats, self.max_time, self.midext_prob, + - * ** @ on the type combinations
                    listed in `binop`, X.T, X.shape[1], M[i], M[:, k], R[k], V.reshape(-1, 1), [A, B], np.arange / zeros /
                    zeros_like / empty / diag / stack, the readings of `self` listed in the module docstring and calls of the
                    translated methods of METHODS"""

    RESERVED = set(CTX_TY) | set(translate3.CTX_TY) | {
        "bind", "inr", "inl", "fold_left", "length", "Some", "None", "acc", "hmm", "negb", "true", "false", "vec", "mat", "res",
        "nat", "string", "list", "option", "bool", "Qc", "app", "nd", "Nd2", "Nd3", "uctx", "uc_T", "uc_sl", "uc_maxt", "diag",
        "fst", "snd", "nth", "map", "fast_trace", "mlcase", "mlside", "CExt", "CNoext", "CUnknown", "SIpsi", "SContra", "MValue", "MKey", "MNotImpl", "MAttr", "fun", "let", "in", "if", "then", "else", "match",
        "with", "end", "forall", "exists", "as", "fix", "Type", "Prop", "Set", "at", "using", "where", "return"}

    def __init__(self, method: str, sigs: dict):
        self.method = method
        self.gen, self.ctx, _, self.argty, self.res, self.rty = METHODS[method]
        self.sigs = sigs
        self.env = {}
        for n, ty in self.argty.items():
            self.env[n] = ("hmm" if ty == MODE else n, ty)
        self.owned = set()               # names bound in this function to a newly created array
        self.pending = []
        self.count = 0
        self.calls = []                  # translated Midline methods this body calls
        self.uses_unilateral = False     # gen_state_dist_evo of translate3 is needed

    # ---- helpers -------------------------------------------------------------------------------------------------------
    def need(self, name: str) -> str:
        if name not in self.ctx:
            raise Untranslatable(f"{self.method} uses `{name}`, which is not among the things it reads in the model")
        return name

    def fresh(self) -> str:
        n = f"v'{self.count}"
        self.count += 1
        return n

    def binder(self, name: str) -> str:
        if name in self.RESERVED or name.startswith(("np_", "gen_", "ml_")) or not name.isidentifier() or not name.isascii():
            raise Untranslatable(f"{self.method}: variable name `{name}` clashes with a name of the generated term")
        return name

    def effect(self, text: str, ty: str):
        if not self.res:
            raise Untranslatable(f"{self.method}: a call that may raise in a function modelled as total")
        n = self.fresh()
        self.pending.append((n, text))
        return (n, ty)

    def take(self):
        p, self.pending = self.pending, []
        return p

    @staticmethod
    def binds(pending, text: str) -> str:
        for n, r in reversed(pending):
            text = f"bind {r} (fun {n} =>\n  {text})"
        return text

    def ty_of(self, name):
        return self.env.get(name, (None, None))[1]

    def want(self, e, ty: str) -> str:
        t, have = self.expr(e)
        if have != ty:
            raise Untranslatable(f"{self.method}: expected a {ty}, found a {have}: {ast.dump(e)[:120]}")
        return t

    @staticmethod
    def is_view(e) -> bool:
        """an expression whose value shares memory with an existing array (or IS an existing array)"""
        if isinstance(e, (ast.Name, ast.Subscript)):
            return True
        if isinstance(e, ast.Attribute) and e.attr == "T":
            return True
        if isinstance(e, ast.Call) and isinstance(e.func, ast.Attribute) and e.func.attr in ("reshape", "view", "ravel",
                                                                                                "squeeze", "transpose"):
            return True
        return False

    def dict_key(self, name: str, sl) -> str:
        if not (isinstance(sl, ast.Constant) and isinstance(sl.value, str) and sl.value.isidentifier() and sl.value.isascii()):
            raise Untranslatable(f"{self.method}: key of the dictionary `{name}`")
        return f"{self.binder(name)}'{sl.value}"

    @staticmethod
    def substitute(stmts, name: str, value):
        """copies of the statements with every read of `name` replaced by the constant `value`"""
        class Sub(ast.NodeTransformer):
            def visit_Name(self, n):
                if n.id == name:
                    if not isinstance(n.ctx, ast.Load):
                        raise Untranslatable(f"the loop variable `{name}` is assigned in the loop body")
                    return ast.copy_location(ast.Constant(value=value), n)
                return n
        return [Sub().visit(copy.deepcopy(x)) for x in stmts]

    # ---- arguments of calls ----------------------------------------------------------------------------------------------
    def mode_arg(self, e) -> str:
        if isinstance(e, ast.Name) and self.ty_of(e.id) == MODE:
            return "hmm"
        if _is_const(e, "HMM"):
            return "true"
        if _is_const(e, "BN"):
            return "false"
        raise Untranslatable(f"mode argument {ast.dump(e)[:80]}")

    def flag_arg(self, e) -> str:
        if isinstance(e, ast.Name) and self.ty_of(e.id) == FLAG:
            return self.env[e.id][0]
        if _is_const(e, True):
            return "true"
        if _is_const(e, False):
            return "false"
        raise Untranslatable(f"boolean argument {ast.dump(e)[:80]}")

    def str_arg(self, e) -> str:
        if isinstance(e, ast.Constant) and isinstance(e.value, str):
            if '"' in e.value:
                raise Untranslatable("T-stage literal")
            return f'"{e.value}"%string'
        return self.want(e, STR)

    @staticmethod
    def arguments(call: ast.Call, sig, what: str) -> dict:
        got = {}
        names = [n for n, _ in sig]
        for k, a in enumerate(call.args):
            if isinstance(a, ast.Starred) or k >= len(sig):
                raise Untranslatable(f"arguments of {what}")
            got[names[k]] = a
        for k in call.keywords:
            if k.arg is None or k.arg not in names or k.arg in got:
                raise Untranslatable(f"keyword argument of {what}")
            got[k.arg] = k.value
        for n, d in sig:
            if n not in got:
                if d is None:
                    raise Untranslatable(f"{what}: missing argument {n}")
                got[n] = ast.parse(d, mode="eval").body
        return got

    def call_method(self, name: str, call: ast.Call):
        gen, ctx, want_sig, argty, res, rty = METHODS[name]
        if self.sigs[name] != want_sig:
            raise Untranslatable(f"signature of {name}: {self.sigs[name]} (expected {want_sig})")
        got = self.arguments(call, want_sig, f"self.{name}")
        before = len(self.pending)
        args = []
        for pname, _ in want_sig:
            ty, a = argty[pname], got[pname]
            if ty == MODE:
                args.append(self.mode_arg(a))
            elif ty == FLAG:
                args.append(self.flag_arg(a))
            elif ty == STR:
                args.append(self.str_arg(a))
            elif ty == OND:
                args.append("None" if _is_const(a, None) else f"(Some {self.want(a, ND)})")
            else:
                raise Untranslatable(f"argument type {ty}")
        if len(self.pending) != before:
            raise Untranslatable(f"self.{name}: an argument that may raise")
        for c in ctx:
            self.need(c)
        if name not in self.calls:
            self.calls.append(name)
        text = f"({gen} {' '.join(ctx + args)})"
        return self.effect(text, rty) if res else (text, rty)

    # ---- expressions -----------------------------------------------------------------------------------------------------
    def binop(self, e: ast.BinOp):
        a, ta = self.expr(e.left)            # left operand first: Python's evaluation order
        b, tb = self.expr(e.right)
        op = type(e.op)
        if (ta, tb) == (NAT, NAT) and op in (ast.Add, ast.Sub):
            return (f"({a} {'+' if op is ast.Add else '-'} {b})%nat", NAT)
        if (ta, tb) == (Q, Q) and op in (ast.Add, ast.Sub, ast.Mult):
            sym = {ast.Add: "+", ast.Sub: "-", ast.Mult: "*"}[op]
            return (f"({a} {sym} {b})%Qc", Q)
        if (ta, tb) == (Q, IVEC) and op is ast.Pow:
            return (f"(np_spow {a} {b})", VEC)
        if (ta, tb) == (Q, VEC) and op is ast.Sub:
            return (f"(np_rsub {a} {b})", VEC)
        if (ta, tb) == (Q, VEC) and op is ast.Mult:
            return (f"(np_smul {a} {b})", VEC)
        if (ta, tb) == (VEC, VEC) and op is ast.Add:
            return (f"(np_vadd {a} {b})", VEC)
        if (ta, tb) == (VEC, MAT) and op is ast.MatMult:
            return (f"(np_vecmat {a} {b})", VEC)
        if (ta, tb) == (MAT, MAT) and op is ast.MatMult:
            return (f"(np_matmul {a} {b})", MAT)
        raise Untranslatable(f"{self.method}: operator {op.__name__} on a {ta} and a {tb}")

    def shape_kw(self, call: ast.Call, rank: int, allow_dtype: bool):
        if call.args:
            raise Untranslatable("positional shape")
        kw = {k.arg: k.value for k in call.keywords}
        if allow_dtype and "dtype" in kw:
            if not (isinstance(kw["dtype"], ast.Name) and kw["dtype"].id == "float"):
                raise Untranslatable("dtype")
            del kw["dtype"]
        if set(kw) != {"shape"} or not isinstance(kw["shape"], ast.Tuple) or len(kw["shape"].elts) != rank:
            raise Untranslatable("shape argument")
        return [self.want(x, NAT) for x in kw["shape"].elts]

    def submodel(self, chain):
        """['self', B, S, attr] -> context name of the Unilateral sub-model self.B.S"""
        if len(chain) == 4 and chain[0] == "self" and (chain[1], chain[2]) in SUBMODELS:
            return self.need(SUBMODELS[(chain[1], chain[2])])
        return None

    def expr(self, e):
        if isinstance(e, ast.Constant) and type(e.value) is int and e.value >= 0:
            return (f"{e.value}%nat", NAT)
        if isinstance(e, ast.Constant) and type(e.value) is float and e.value == int(e.value) and e.value >= 0:
            return (f"{int(e.value)}%Qc", Q)
        if isinstance(e, ast.Name) and e.id in self.env:
            t, ty = self.env[e.id]
            if ty in (MODE, FLAG, OND, LOG, DICT, MODELREF):
                raise Untranslatable(f"`{e.id}` used as a value")
            return (t, ty)
        ch = _attr_chain(e)
        if ch == ["self", "max_time"]:
            return (self.need("max_time"), NAT)
        if ch == ["self", "midext_prob"]:
            return (self.need("midext_prob"), Q)
        if isinstance(e, ast.Attribute) and e.attr == "T":
            return (f"(np_transpose 0%Qc {self.want(e.value, MAT)})", MAT)
        if isinstance(e, ast.Attribute) and e.attr == "pmf" and isinstance(e.value, ast.Call) \
                and _attr_chain(e.value.func) == ["self", "get_distribution"] and len(e.value.args) == 1 and not e.value.keywords:
            return self.effect(f"({self.need('pmf_of')} {self.str_arg(e.value.args[0])})", VEC)
        if ch == ["self", "t_stages"]:
            return (self.need("all_t_stages"), LSTR)
        if isinstance(e, ast.BinOp):
            return self.binop(e)
        if isinstance(e, ast.List) and len(e.elts) == 1 and not isinstance(e.elts[0], ast.Starred) \
                and isinstance(e.elts[0], ast.Name) and self.ty_of(e.elts[0].id) == STR:
            return (f"[{self.env[e.elts[0].id][0]}]", LSTR)
        if isinstance(e, ast.Subscript) and isinstance(e.value, ast.Name) and self.ty_of(e.value.id) == DICT:
            key = self.dict_key(e.value.id, e.slice)
            if key not in self.env:
                raise Untranslatable(f"{self.method}: dictionary entry {key} is not set")
            return self.env[key]
        if isinstance(e, ast.Subscript):
            # X.shape[1]
            if isinstance(e.value, ast.Attribute) and e.value.attr == "shape" and _is_const(e.slice, 1):
                return (f"(np_shape1 {self.want(e.value.value, MAT)})", NAT)
            if isinstance(e.value, ast.Name):
                ty = self.ty_of(e.value.id)
                x = self.env.get(e.value.id, (None,))[0]
                sl = e.slice
                if ty == MAT and isinstance(sl, ast.Tuple) and len(sl.elts) == 2 and isinstance(sl.elts[0], ast.Slice) \
                        and sl.elts[0].lower is None and sl.elts[0].upper is None and sl.elts[0].step is None:
                    return (f"(np_getcol {x} {self.want(sl.elts[1], NAT)})", VEC)
                if ty == MAT and not isinstance(sl, (ast.Tuple, ast.Slice)):
                    return (f"(np_row {x} {self.want(sl, NAT)})", VEC)
                if ty == T3 and not isinstance(sl, (ast.Tuple, ast.Slice)):
                    return (f"(np_slab {x} {self.want(sl, NAT)})", MAT)
        if isinstance(e, ast.List) and len(e.elts) == 2 and not any(isinstance(x, ast.Starred) for x in e.elts):
            a = self.want(e.elts[0], MAT)
            b = self.want(e.elts[1], MAT)
            return (f"[{a}; {b}]", LMAT)
        if isinstance(e, ast.Call):
            f = e.func
            fch = _attr_chain(f)
            # V.reshape(-1, 1)
            if isinstance(f, ast.Attribute) and f.attr == "reshape" and not e.keywords and len(e.args) == 2 \
                    and isinstance(e.args[0], ast.UnaryOp) and isinstance(e.args[0].op, ast.USub) \
                    and _is_const(e.args[0].operand, 1) and _is_const(e.args[1], 1):
                return (f"(np_reshape_col {self.want(f.value, VEC)})", COLM)
            if fch == ["np", "arange"] and len(e.args) == 1 and not e.keywords:
                return (f"(np_arange {self.want(e.args[0], NAT)})", IVEC)
            if fch == ["np", "zeros"]:
                r, c = self.shape_kw(e, 2, True)
                return (f"(np_zeros2 {r} {c})", MAT)
            if fch == ["np", "empty"]:
                a, b, c = self.shape_kw(e, 3, False)
                return (f"(np_empty3 {a} {b} {c})", T3)
            if fch == ["np", "zeros_like"] and len(e.args) == 1 and not e.keywords:
                return (f"(np_zeros_like {self.want(e.args[0], MAT)})", MAT)
            if fch == ["np", "diag"] and len(e.args) == 1 and not e.keywords:
                return (f"(np_diag {self.want(e.args[0], VEC)})", MAT)
            if fch == ["np", "stack"] and len(e.args) == 1 and not e.keywords:
                return (self.want(e.args[0], LMAT), T3)
            if fch is not None:
                sub = self.submodel(fch)
                if sub is not None and not e.args and not e.keywords:
                    if fch[3] == "state_dist_evo":
                        self.uses_unilateral = True
                        return (f"(gen_state_dist_evo (uc_T {sub}) (uc_sl {sub}) (uc_maxt {sub}))", MAT)
                    if fch[3] == "transition_matrix":
                        return (f"(uc_T {sub})", MAT)
                if fch == ["self", "central", "state_dist"]:
                    got = self.arguments(e, BILATERAL_SIGS["state_dist"], "self.central.state_dist")
                    t, m = self.str_arg(got["t_stage"]), self.mode_arg(got["mode"])
                    return self.effect(f"({self.need('central_state_dist')} {t} {m})", MAT)
                if fch == ["self", "ext", "obs_dist"]:
                    got = self.arguments(e, BILATERAL_SIGS["obs_dist"], "self.ext.obs_dist")
                    if _is_const(got["given_state_dist"], None) or len(e.args) + len(e.keywords) != 1:
                        raise Untranslatable("self.ext.obs_dist is only read with a given state distribution (and nothing else)")
                    return (f"({self.need('ext_obs_dist')} {self.want(got['given_state_dist'], MAT)})", MAT)
                if len(fch) == 2 and fch[0] == "self" and fch[1] in METHODS:
                    return self.call_method(fch[1], e)
                if fch == ["matrix", "fast_trace"] and len(e.args) == 2 and not e.keywords:
                    a = self.want(e.args[0], MAT)
                    b = self.want(e.args[1], MAT)
                    return (f"(fast_trace {a} {b})", VEC)
                # MODEL.SIDE.diagnosis_matrix(stage): MODEL = a name bound by getattr(self, "ext" / "noext"), or self.unknown
                if fch[-1] == "diagnosis_matrix" and len(e.args) == 1 and not e.keywords and fch[-2] in SIDES:
                    case = None
                    if len(fch) == 3 and self.ty_of(fch[0]) == MODELREF:
                        case = self.env[fch[0]][0]
                    elif fch[:-2] == ["self", "unknown"]:
                        case = "CUnknown"
                    if case is not None:
                        return self.effect(f"({self.need('dm')} {case} {SIDES[fch[-2]]} {self.want(e.args[0], STR)})", MAT)
                if fch == ["self", "central", "likelihood"]:
                    got = self.arguments(e, BILATERAL_SIGS["likelihood"], "self.central.likelihood")
                    kws = sorted(k.arg for k in e.keywords)
                    if e.args or kws != ["log", "t_stage"] or not (isinstance(got["log"], ast.Name) and self.ty_of(got["log"].id) == LOG) \
                            or not (isinstance(got["t_stage"], ast.Name) and self.ty_of(got["t_stage"].id) == OSTR):
                        raise Untranslatable("self.central.likelihood is only read as likelihood(log=log, t_stage=<optional stage>)")
                    return self.effect(f"({self.need('central_likelihood')} {self.env[got['t_stage'].id][0]})", FACT)
        raise Untranslatable(f"{self.method}: expression {ast.dump(e)[:200]}")

    # ---- statements ------------------------------------------------------------------------------------------------------
    @staticmethod
    def assigned(stmts) -> list:
        out = []
        for s in stmts:
            for n in ast.walk(s):
                tgs = []
                if isinstance(n, ast.Assign):
                    tgs = list(n.targets)
                elif isinstance(n, ast.AugAssign):
                    tgs = [n.target]
                for tg in tgs:
                    for x in (tg.elts if isinstance(tg, ast.Tuple) else [tg]):
                        if isinstance(x, ast.Subscript):
                            x = x.value
                        if isinstance(x, ast.Name) and x.id not in out:
                            out.append(x.id)
        return out

    def ret(self, text: str) -> str:
        return f"inr {text}" if self.res else text

    def inplace(self, name: str, ty: str) -> str:
        if self.ty_of(name) != ty or name not in self.owned:
            raise Untranslatable(f"{self.method}: in-place operation on `{name}`, which is not a {ty} created in this function")
        return name

    def snapshot(self):
        return (dict(self.env), set(self.owned))

    def restore(self, snap):
        self.env, self.owned = dict(snap[0]), set(snap[1])

    def block(self, stmts, tail) -> str:
        if not stmts:
            if tail is None:
                raise Untranslatable(f"{self.method}: block falls through without return")
            return tail
        s, rest = stmts[0], stmts[1:]

        if isinstance(s, ast.Return):
            if rest or tail is not None or s.value is None:
                raise Untranslatable(f"{self.method}: return inside a loop / code after return")
            v = s.value
            if isinstance(v, ast.Tuple):
                if self.rty != PAIR or len(v.elts) != 2:
                    raise Untranslatable("tuple return value")
                t = f"({self.want(v.elts[0], MAT)}, {self.want(v.elts[1], MAT)})"
            else:
                t, ty = self.expr(v)
                if self.rty == ND and ty == MAT:
                    t = f"(Nd2 {t})"
                elif self.rty == ND and ty == T3:
                    t = f"(Nd3 {t})"
                elif ty != self.rty:
                    raise Untranslatable(f"{self.method}: returns a {ty}, expected {self.rty}")
            return self.binds(self.take(), self.ret(t))

        if isinstance(s, ast.Raise):
            if rest or tail is not None or not self.res or s.cause is not None:
                raise Untranslatable("raise")
            exc = s.exc.func if isinstance(s.exc, ast.Call) else s.exc
            if not (isinstance(exc, ast.Name) and exc.id in ERR):
                raise Untranslatable("raised exception")
            return f"inl {ERR[exc.id]}"

        if isinstance(s, ast.Assign) and len(s.targets) == 1 and isinstance(s.targets[0], ast.Name):
            special = self.special_assign(s.targets[0].id, s.value, rest, tail)
            if special is not None:
                return special

        if isinstance(s, ast.Assign) and len(s.targets) == 1:
            tg, v = s.targets[0], s.value
            if isinstance(tg, ast.Name):
                name = self.binder(tg.id)
                t, ty = self.expr(v)
                if ty in ARRAYS + (LMAT, PAIR) and self.is_view(v):
                    raise Untranslatable(f"{self.method}: `{name} = ...` binds a view / another name of an existing array")
                pend = self.take()
                self.env[name] = (name, ty)
                self.owned.discard(name)
                if ty in ARRAYS:
                    self.owned.add(name)
                if pend and pend[-1][0] == t:
                    pend[-1] = (name, pend[-1][1])
                    return self.binds(pend, self.block(rest, tail))
                return self.binds(pend, f"let {name} := {t} in\n  {self.block(rest, tail)}")
            if isinstance(tg, ast.Tuple) and len(tg.elts) == 2 and all(isinstance(x, ast.Name) for x in tg.elts):
                a, b = (self.binder(x.id) for x in tg.elts)
                if a == b or not isinstance(v, ast.Call):
                    raise Untranslatable("tuple assignment")
                t = self.want(v, PAIR)
                if self.pending:
                    raise Untranslatable("tuple assignment with effects")
                for n in (a, b):
                    self.env[n] = (n, MAT)
                    self.owned.add(n)
                return f"let '({a}, {b}) := {t} in\n  {self.block(rest, tail)}"
            if isinstance(tg, ast.Tuple) and len(tg.elts) == 2 and isinstance(v, ast.Call) \
                    and all(isinstance(x, ast.Subscript) and isinstance(x.value, ast.Name) and self.ty_of(x.value.id) == DICT
                            for x in tg.elts):
                a, b = (self.dict_key(x.value.id, x.slice) for x in tg.elts)
                if a == b:
                    raise Untranslatable("tuple assignment")
                t = self.want(v, PAIR)
                if self.pending:
                    raise Untranslatable("tuple assignment with effects")
                for n in (a, b):
                    self.env[n] = (n, MAT)
                return f"let '({a}, {b}) := {t} in\n  {self.block(rest, tail)}"
            if isinstance(tg, ast.Subscript) and isinstance(tg.value, ast.Name):
                m, sl = tg.value.id, tg.slice
                ty = self.ty_of(m)
                if ty == MAT and isinstance(sl, ast.Tuple) and len(sl.elts) == 2 and isinstance(sl.elts[0], ast.Slice) \
                        and sl.elts[0].lower is None and sl.elts[0].upper is None and sl.elts[0].step is None:
                    self.inplace(m, MAT)
                    j = self.want(sl.elts[1], NAT)
                    x = self.want(v, VEC)
                    return self.binds(self.take(), f"let {m} := np_set_col {m} {j} {x} in\n  {self.block(rest, tail)}")
                if ty == MAT and not isinstance(sl, (ast.Tuple, ast.Slice)):
                    self.inplace(m, MAT)
                    i = self.want(sl, NAT)
                    x = self.want(v, VEC)
                    return self.binds(self.take(), f"let {m} := np_set_row {m} {i} {x} in\n  {self.block(rest, tail)}")
                if ty == T3 and not isinstance(sl, (ast.Tuple, ast.Slice)):
                    self.inplace(m, T3)
                    i = self.want(sl, NAT)
                    x = self.want(v, MAT)
                    return self.binds(self.take(), f"let {m} := np_set_slab {m} {i} {x} in\n  {self.block(rest, tail)}")
            raise Untranslatable(f"{self.method}: assignment target {ast.dump(tg)[:120]}")

        if isinstance(s, ast.AugAssign) and isinstance(s.op, ast.Mult) and isinstance(s.target, ast.Name):
            m = self.inplace(s.target.id, MAT)
            x, ty = self.expr(s.value)
            if ty == Q:
                op = "np_imul_s"
            elif ty == COLM:
                op = "np_imul_colm"
            else:
                raise Untranslatable(f"{self.method}: `{m} *= ` a {ty}")
            return self.binds(self.take(), f"let {m} := {op} {m} {x} in\n  {self.block(rest, tail)}")

        if isinstance(s, ast.AugAssign) and isinstance(s.op, ast.Add) and isinstance(s.target, ast.Name) \
                and self.ty_of(s.target.id) == MAT:
            m = self.inplace(s.target.id, MAT)
            x = self.want(s.value, MAT)
            return self.binds(self.take(), f"let {m} := np_iadd2 {m} {x} in\n  {self.block(rest, tail)}")

        if isinstance(s, ast.If):
            return self.conditional(s, rest, tail)

        # try: BODY (ending in the assignment of the one variable it rebinds) except AttributeError: pass
        if isinstance(s, ast.Try):
            ok = (len(s.handlers) == 1 and isinstance(s.handlers[0].type, ast.Name) and s.handlers[0].type.id == "AttributeError"
                  and len(s.handlers[0].body) == 1 and isinstance(s.handlers[0].body[0], ast.Pass)
                  and not s.orelse and not s.finalbody and self.res)
            if not ok:
                raise Untranslatable(f"{self.method}: try statement other than `try: ... except AttributeError: pass`")
            acc = [n for n in self.assigned(s.body) if n in self.env]
            last = s.body[-1]
            if len(acc) != 1 or self.ty_of(acc[0]) != FACT or not (isinstance(last, ast.Assign) and len(last.targets) == 1
                                                                    and isinstance(last.targets[0], ast.Name)
                                                                    and last.targets[0].id == acc[0]):
                raise Untranslatable(f"{self.method}: a try body must end by rebinding the one outer variable it changes ({acc})")
            a = acc[0]
            if sum(1 for n in ast.walk(ast.Module(body=list(s.body), type_ignores=[]))
                   if isinstance(n, (ast.Assign, ast.AugAssign)) and a in self.assigned([n])) != 1:
                raise Untranslatable("the try body rebinds its variable more than once")
            snap = self.snapshot()
            inner = self.block(list(s.body), f"inr {a}")
            if self.pending:
                raise Untranslatable("unbound effect in a try body")
            self.restore(snap)
            return f"bind (np_except_attr (\n  {inner}) {a}) (fun {a} =>\n  {self.block(rest, tail)})"

        if isinstance(s, ast.For) and not s.orelse and isinstance(s.target, ast.Name) and isinstance(s.iter, ast.List):
            # for case in ["ext", "noext"]: BODY   -> the copies of BODY with the constant in place of the loop variable
            consts = s.iter.elts
            if not consts or not all(isinstance(c, ast.Constant) and isinstance(c.value, str) for c in consts):
                raise Untranslatable("loop over a list that is not a list of string constants")
            unrolled = []
            for c in consts:
                unrolled += self.substitute(s.body, s.target.id, c.value)
            self.env.pop(s.target.id, None)
            return self.block(unrolled + list(rest), tail)

        if isinstance(s, ast.For) and not s.orelse and isinstance(s.target, ast.Name) and isinstance(s.iter, ast.Name) \
                and self.ty_of(s.iter.id) == LSTR:
            if not self.res:
                raise Untranslatable("loop over T-stages in a function modelled as total")
            lst = self.env[s.iter.id][0]
            v = self.binder(s.target.id)
            acc = [n for n in self.assigned(s.body) if n in self.env and n != v]
            if len(acc) != 1 or v in self.assigned(s.body) or self.ty_of(acc[0]) != FACT:
                raise Untranslatable(f"{self.method}: loop accumulators {acc}")
            a = acc[0]
            snap = self.snapshot()
            self.env[v] = (v, STR)
            inner = self.block(list(s.body), f"inr {a}")
            if self.pending:
                raise Untranslatable("unbound effect in a loop body")
            self.restore(snap)
            self.env.pop(v, None)
            return (f"bind (fold_left (fun (acc : res vec) ({v} : string) => bind acc (fun {a} =>\n    {inner}))\n"
                    f"    {lst} (inr {a})) (fun {a} =>\n  {self.block(rest, tail)})")

        if isinstance(s, ast.For) and not s.orelse:
            it, tg = s.iter, s.target
            if not (isinstance(it, ast.Call) and isinstance(it.func, ast.Name) and it.func.id == "range" and not it.keywords
                    and len(it.args) == 1 and isinstance(tg, ast.Name)):
                raise Untranslatable(f"{self.method}: loop over {ast.dump(it)[:160]}")
            hi = self.want(it.args[0], NAT)
            if self.pending:
                raise Untranslatable("iterable with effects")
            v = self.binder(tg.id)
            acc = [n for n in self.assigned(s.body) if n in self.env and n != v]
            if len(acc) != 1 or v in self.assigned(s.body):
                raise Untranslatable(f"{self.method}: loop accumulators {acc}")
            a = acc[0]
            aty = self.ty_of(a)
            if aty not in (MAT,):
                raise Untranslatable("loop accumulator type")
            snap = self.snapshot()
            self.env[v] = (v, NAT)
            inner = self.block(list(s.body), a)
            if self.pending:
                raise Untranslatable("unbound effect in a loop body")
            if self.ty_of(a) != aty:
                raise Untranslatable("the accumulator changes its type")
            self.restore(snap)
            self.env.pop(v, None)            # the loop variable is not readable afterwards
            return (f"let {a} := fold_left (fun ({a} : {GALLINA_TY[aty]}) ({v} : nat) =>\n    {inner})\n"
                    f"    (np_range 0%nat {hi}) {a} in\n  {self.block(rest, tail)}")
        raise Untranslatable(f"{self.method}: statement {type(s).__name__}: {ast.dump(s)[:160]}")

    def special_assign(self, target: str, v, rest, tail):
        """assignments whose right-hand side is not an array / number expression; None = an ordinary assignment"""
        # llh = 0.0 if log else 1.0   (no factor yet)
        if isinstance(v, ast.IfExp) and isinstance(v.test, ast.Name) and self.ty_of(v.test.id) == LOG:
            if not (_is_const(v.body, 0.0) and _is_const(v.orelse, 1.0)) or self.rty != FACT:
                raise Untranslatable("conditional expression on `log`")
            name = self.binder(target)
            self.env[name] = (name, FACT)
            return f"let {name} : vec := [] in\n  {self.block(rest, tail)}"
        # X = A if O is None else B     (O an optional T-stage; in B it is a T-stage)
        if isinstance(v, ast.IfExp):
            t = v.test
            if not (isinstance(t, ast.Compare) and len(t.ops) == 1 and isinstance(t.ops[0], ast.Is) and isinstance(t.left, ast.Name)
                    and _is_const(t.comparators[0], None) and self.ty_of(t.left.id) == OSTR):
                raise Untranslatable("conditional expression")
            o = t.left.id
            name = self.binder(target)
            ta = self.want(v.body, LSTR)
            saved = dict(self.env)
            self.env[o] = (o, STR)
            tb = self.want(v.orelse, LSTR)
            self.env = saved
            if self.pending:
                raise Untranslatable("conditional expression with effects")
            self.env[name] = (name, LSTR)
            return f"let {name} := match {o} with None => {ta} | Some {o} => {tb} end in\n  {self.block(rest, tail)}"
        # D = {}
        if isinstance(v, ast.Dict) and not v.keys:
            name = self.binder(target)
            for k in [k for k in self.env if k.startswith(name + "'")]:
                del self.env[k]
            self.env[name] = (name, DICT)
            return self.block(rest, tail)
        # M = getattr(self, "ext" | "noext")
        if isinstance(v, ast.Call) and isinstance(v.func, ast.Name) and v.func.id == "getattr":
            if not (len(v.args) == 2 and not v.keywords and isinstance(v.args[0], ast.Name) and v.args[0].id == "self"
                    and isinstance(v.args[1], ast.Constant) and v.args[1].value in CASES):
                raise Untranslatable("getattr")
            self.env[target] = (CASES[v.args[1].value], MODELREF)
            return self.block(rest, tail)
        # llh = utils.add_or_mult(llh, X, log=log)
        if isinstance(v, ast.Call) and _attr_chain(v.func) in (["utils", "add_or_mult"], ["add_or_mult"]):
            got = self.arguments(v, [("llh", None), ("arr", None), ("log", None)], "add_or_mult")
            if not (isinstance(got["llh"], ast.Name) and got["llh"].id == target and self.ty_of(target) == FACT
                    and isinstance(got["log"], ast.Name) and self.ty_of(got["log"].id) == LOG):
                raise Untranslatable("add_or_mult call")
            _check_add_or_mult()
            x = self.want(got["arr"], VEC)
            return self.binds(self.take(), f"let {target} := {self.env[target][0]} ++ {x} in\n  {self.block(rest, tail)}")
        return None

    @staticmethod
    def ends(body) -> bool:
        return bool(body) and isinstance(body[-1], (ast.Return, ast.Raise))

    def conditional(self, s: ast.If, rest, tail) -> str:
        t = s.test
        # if X is None: X = E
        if (isinstance(t, ast.Compare) and len(t.ops) == 1 and isinstance(t.ops[0], ast.Is) and isinstance(t.left, ast.Name)
                and _is_const(t.comparators[0], None) and self.ty_of(t.left.id) == OND):
            x = t.left.id
            if s.orelse or len(s.body) != 1 or not isinstance(s.body[0], ast.Assign) or len(s.body[0].targets) != 1 \
                    or not isinstance(s.body[0].targets[0], ast.Name) or s.body[0].targets[0].id != x:
                raise Untranslatable("`if X is None:` is not followed by the single assignment `X = E`")
            ta, tya = self.expr(s.body[0].value)
            pa = self.take()
            if tya != ND or not (len(pa) == 1 and pa[0][0] == ta):
                raise Untranslatable("default value of an optional array")
            self.env[x] = (x, ND)
            return (f"bind (match {x} with None => {pa[0][1]} | Some {x} => inr {x} end) "
                    f"(fun {x} =>\n  {self.block(rest, tail)})")
        # if X.ndim == 2: ... return
        if (isinstance(t, ast.Compare) and len(t.ops) == 1 and isinstance(t.ops[0], ast.Eq) and isinstance(t.left, ast.Attribute)
                and t.left.attr == "ndim" and isinstance(t.left.value, ast.Name) and self.ty_of(t.left.value.id) == ND
                and _is_const(t.comparators[0], 2)):
            x = t.left.value.id
            if s.orelse or tail is not None or not self.ends(s.body):
                raise Untranslatable("`if X.ndim == 2:` must end in return and have no else")
            snap = self.snapshot()
            self.env[x] = (x, MAT)
            then = self.block(s.body, None)
            self.restore(snap)
            self.env[x] = (x, T3)
            return f"match {x} with\n  | Nd2 {x} =>\n  {then}\n  | Nd3 {x} =>\n  {self.block(rest, tail)}\n  end"
        # if log: ACC += E  else: ACC *= E     (E the factors of another likelihood: appended)
        if isinstance(t, ast.Name) and self.ty_of(t.id) == LOG:
            ok = (len(s.body) == 1 and len(s.orelse) == 1 and isinstance(s.body[0], ast.AugAssign) and isinstance(s.orelse[0], ast.AugAssign)
                  and isinstance(s.body[0].op, ast.Add) and isinstance(s.orelse[0].op, ast.Mult)
                  and isinstance(s.body[0].target, ast.Name) and isinstance(s.orelse[0].target, ast.Name)
                  and s.body[0].target.id == s.orelse[0].target.id and self.ty_of(s.body[0].target.id) == FACT
                  and ast.dump(s.body[0].value) == ast.dump(s.orelse[0].value))
            if not ok:
                raise Untranslatable("`if log:` is not `ACC += E` / `else: ACC *= E` with the same E")
            a = s.body[0].target.id
            x = self.want(s.body[0].value, FACT)
            return self.binds(self.take(), f"let {a} := {a} ++ {x} in\n  {self.block(rest, tail)}")
        # boolean tests
        test = None
        if isinstance(t, ast.Name) and self.ty_of(t.id) == FLAG:
            test = self.env[t.id][0]
        elif _attr_chain(t) == ["self", "use_midext_evo"]:
            test = self.need("use_midext_evo")
        elif _attr_chain(t) == ["self", "use_central"]:
            test = self.need("use_central")
        elif isinstance(t, ast.UnaryOp) and isinstance(t.op, ast.Not) and _attr_chain(t.operand) == ["self", "use_midext_evo"]:
            test = f"(negb {self.need('use_midext_evo')})"
        elif (isinstance(t, ast.Compare) and len(t.ops) == 1 and isinstance(t.ops[0], ast.Eq) and isinstance(t.left, ast.Name)
              and self.ty_of(t.left.id) == MODE):
            if _is_const(t.comparators[0], "HMM"):
                test = "hmm"
            elif _is_const(t.comparators[0], "BN"):
                test = "(negb hmm)"
        if test is None:
            raise Untranslatable(f"{self.method}: conditional {ast.dump(t)[:120]}")
        snap = self.snapshot()
        if self.ends(s.body):
            if tail is not None:
                raise Untranslatable("return inside a loop")
            then = self.block(list(s.body), None)
        else:
            then = self.block(list(s.body) + list(rest), tail)
        self.restore(snap)
        if self.ends(s.orelse):
            if tail is not None:
                raise Untranslatable("return inside a loop")
            other = self.block(list(s.orelse), None)
        else:
            other = self.block(list(s.orelse) + list(rest), tail)
        self.restore(snap)
        return f"if {test} then (\n  {then})\n  else (\n  {other})"


# ----------------------------------------------------------------------------------------------------------------------
# one definition per method, with the definitions of the translated methods it calls in front
# ----------------------------------------------------------------------------------------------------------------------
def _class_tree():
    tree = ast.parse(_src("lymph/models/midline.py"))
    sigs = {m: _signature(_plain_method(tree, m, "Midline")) for m in METHODS}
    btree = ast.parse(_src("lymph/models/bilateral.py"))
    for m, want in BILATERAL_SIGS.items():
        if _signature(_func(btree, m, "Bilateral")) != want:
            raise Untranslatable(f"signature of Bilateral.{m}")
    utree = ast.parse(_src("lymph/models/unilateral.py"))
    for m in ("state_dist_evo", "evolve"):
        _plain_method(utree, m, "Unilateral")
    return tree, sigs


def _definition(tree, sigs, method: str):
    gen, ctx, want_sig, argty, res, rty = METHODS[method]
    if sigs[method] != want_sig:
        raise Untranslatable(f"signature of {method}: {sigs[method]} (expected {want_sig})")
    fn = _plain_method(tree, method, "Midline")
    p = MPipe(method, sigs)
    body = p.block(_strip_doc(fn.body), None)
    if p.pending:
        raise Untranslatable("unbound effect")
    params = " ".join(f"({c} : {CTX_TY[c]})" for c in ctx)
    args = " ".join(f"({'hmm' if ty == MODE else n} : {GALLINA_TY[ty]})" for n, ty in argty.items() if ty != LOG)
    out_ty = GALLINA_TY[rty]
    if res:
        out_ty = f"res {out_ty}"
    return f"Definition {gen} {params} {args} : {out_ty} :=\n  {body}.\n", p.calls, p.uses_unilateral


def _with_deps(method: str) -> str:
    tree, sigs = _class_tree()
    done, order, uni = {}, [], [False]

    def visit(m, stack=()):
        if m in stack:
            raise Untranslatable(f"recursive call of {m}")
        if m in done:
            return
        text, calls, u = _definition(tree, sigs, m)
        uni[0] = uni[0] or u
        for c in calls:
            visit(c, stack + (m,))
        done[m] = text
        order.append(m)
    visit(method)
    pre = translate3._with_deps("state_dist_evo") if uni[0] else ""
    return pre + "".join(done[m] for m in order)


ML_EVO = ("(uctx_of (b_contra (ml_noext ml))) (uctx_of (b_contra (ml_ext ml))) (ml_maxt ml) (ml_midext ml) (ml_evo ml)")
ML_SD = ("(uctx_of (b_contra (ml_noext ml))) (uctx_of (b_contra (ml_ext ml))) (uctx_of (b_ipsi (ml_ext ml))) (ml_maxt ml) "
         "(ml_midext ml) (ml_evo ml) (get_pmf (b_ipsi (ml_ext ml))) (ml_state_dist_central ml)")


def translate_midext_evo() -> str:
    return (_with_deps("midext_evo")
            + "Lemma gen_midext_evo_np : forall m p, gen_midext_evo m p = np_midext_evo m p.\n"
              "Proof. intros. reflexivity. Qed.\n"
              "Lemma gen_midext_evo_eq : forall ml,\n"
              "  map (fun r => (nth 0 r 0, nth 1 r 0)) (gen_midext_evo (ml_maxt ml) (ml_midext ml)) = midext_evo ml\n"
              "  /\\ gen_midext_evo (ml_maxt ml) (ml_midext ml) = map (fun ab : Qc * Qc => [fst ab; snd ab]) (midext_evo ml).\n"
              "Proof. intros ml. rewrite gen_midext_evo_np. split; [apply np_midext_evo_model|apply np_midext_evo_rows]. Qed.\n")


def translate_contra_state_dist_evo() -> str:
    return (_with_deps("contra_state_dist_evo")
            + "Lemma gen_contra_state_dist_evo_np : forall nc ec m p e,\n"
              "  gen_contra_state_dist_evo nc ec m p e = np_contra_state_dist_evo nc ec m p e.\n"
              "Proof. intros. reflexivity. Qed.\n"
              "Lemma gen_contra_state_dist_evo_eq : forall ml, wf_midline ml = true ->\n"
              f"  gen_contra_state_dist_evo {ML_EVO} = contra_state_dist_evo ml.\n"
              "Proof. intros ml Hwf. rewrite gen_contra_state_dist_evo_np. apply np_contra_state_dist_evo_model. exact Hwf. Qed.\n")


def translate_state_dist() -> str:
    return (_with_deps("state_dist")
            + "Lemma gen_ml_state_dist_np : forall nc ec ei m p e pmf csd t hmm central,\n"
              "  gen_ml_state_dist nc ec ei m p e pmf csd t hmm central = np_ml_state_dist nc ec ei m p e pmf csd t hmm central.\n"
              "Proof. intros. reflexivity. Qed.\n"
              "Lemma gen_ml_state_dist_eq : forall ml t hmm, wf_midline ml = true ->\n"
              f"  gen_ml_state_dist {ML_SD} t true false\n"
              "    = bind (ml_state_dist ml t) (fun sd => inr (Nd3 [fst sd; snd sd])) /\\\n"
              f"  gen_ml_state_dist {ML_SD} t false false = inl MNotImpl /\\\n"
              f"  gen_ml_state_dist {ML_SD} t hmm true\n"
              "    = bind (ml_state_dist_central ml t hmm) (fun m => inr (Nd2 m)).\n"
              "Proof.\n  intros ml t hmm Hwf. rewrite !gen_ml_state_dist_np. split; [|split].\n"
              "  - apply np_ml_state_dist_hmm. exact Hwf.\n"
              "  - apply (np_ml_state_dist_model ml t false false Hwf).\n"
              "  - apply np_ml_state_dist_central. exact Hwf.\nQed.\n")


def translate_obs_dist() -> str:
    return (_with_deps("obs_dist")
            + "Lemma gen_ml_obs_dist_np : forall nc ec ei m p e pmf csd eo g t hmm central,\n"
              "  gen_ml_obs_dist nc ec ei m p e pmf csd eo g t hmm central = np_ml_obs_dist nc ec ei m p e pmf csd eo g t hmm central.\n"
              "Proof. intros. reflexivity. Qed.\n"
              "Lemma gen_ml_obs_dist_eq : forall ml t hmm central, wf_midline ml = true ->\n"
              f"  gen_ml_obs_dist {ML_SD} (bi_obs_dist_of (ml_ext ml)) None t hmm central = ml_obs_dist_nd ml t hmm central /\\\n"
              f"  (forall sd, gen_ml_obs_dist {ML_SD} (bi_obs_dist_of (ml_ext ml)) (Some sd) t hmm central\n"
              "     = inr (ml_obs_dist_of ml sd)) /\\\n"
              f"  gen_ml_obs_dist {ML_SD} (bi_obs_dist_of (ml_ext ml)) None t true false\n"
              "    = bind (ml_state_dist ml t) (fun sd =>\n"
              "        inr (Nd3 [bi_obs_dist_of (ml_ext ml) (fst sd); bi_obs_dist_of (ml_ext ml) (snd sd)])).\n"
              "Proof.\n  intros ml t hmm central Hwf. rewrite !gen_ml_obs_dist_np.\n"
              "  destruct (np_ml_obs_dist_model ml t hmm central Hwf) as [H1 H2]. split; [|split].\n"
              "  - exact H1.\n  - exact H2.\n  - apply np_ml_obs_dist_hmm. exact Hwf.\nQed.\n")


ML_LLH = ("(uctx_of (b_contra (ml_noext ml))) (uctx_of (b_contra (ml_ext ml))) (uctx_of (b_ipsi (ml_ext ml))) (ml_maxt ml) "
          "(ml_midext ml) (ml_evo ml) (get_pmf (b_ipsi (ml_ext ml))) (ml_t_stages ml) (ml_dm ml data) (ml_use_central ml) "
          "(ml_central_likelihood ml data)")


def translate_hmm_likelihood() -> str:
    return (_with_deps("_hmm_likelihood")
            + "Lemma gen_ml_hmm_likelihood_np : forall nc ec ei m p e pmf ts dm uc cl t,\n"
              "  gen_ml_hmm_likelihood nc ec ei m p e pmf ts dm uc cl t = np_ml_hmm_likelihood nc ec ei m p e pmf ts dm uc cl t.\n"
              "Proof. intros. reflexivity. Qed.\n"
              "Lemma gen_ml_hmm_likelihood_eq : forall ml data t, wf_midline ml = true ->\n"
              "  u_n (b_ipsi (ml_ext ml)) = u_n (b_contra (ml_ext ml)) ->\n"
              "  (forall um, ml_unknown ml = Some um -> wf_graphb (u_graph (b_contra um)) = true) ->\n"
              f"  gen_ml_hmm_likelihood {ML_LLH} t = ml_hmm_likelihood_factors ml data t.\n"
              "Proof.\n  intros ml data t Hwf Hsame Hunk. rewrite gen_ml_hmm_likelihood_np.\n"
              "  apply np_ml_hmm_likelihood_model; assumption.\nQed.\n")


HEADER = ("(* GENERATED on every run by harness/translate7.py from the Python source of lymph; do not edit *)\n"
          "From LymphModel Require Import Base States Linalg Graph Transition Observation Dist Unilateral UniStatements Models\n"
          "  Bilateral Midline BiStatements Numpy NumpyTransition NumpyPipelines NumpyMidline.\n"
          "Local Open Scope nat_scope.\nOpen Scope Qc_scope.\n\n")

_WHERE = "lymph/models/midline.py Midline."
PIECES = {
    "ml_midext_evo": (translate_midext_evo, "gen_midext_evo_eq", _WHERE + "midext_evo"),
    "ml_contra_state_dist_evo": (translate_contra_state_dist_evo, "gen_contra_state_dist_evo_eq", _WHERE + "contra_state_dist_evo"),
    "ml_state_dist": (translate_state_dist, "gen_ml_state_dist_eq", _WHERE + "state_dist"),
    "ml_obs_dist": (translate_obs_dist, "gen_ml_obs_dist_eq", _WHERE + "obs_dist"),
    "ml_hmm_likelihood": (translate_hmm_likelihood, "gen_ml_hmm_likelihood_eq", _WHERE + "_hmm_likelihood"),
}


def generate(piece: str) -> str:
    fn, lemma, _ = PIECES[piece]
    return HEADER + fn() + f"Print Assumptions {lemma}.\n"


if __name__ == "__main__":
    import sys
    for p in (sys.argv[1:] or PIECES):
        print(generate(p))
