"""Entry point: python -m harness.main <Cxx> [--tier quick|thorough] [--replay file]"""
from __future__ import annotations

import argparse
import importlib
import os
import sys
import traceback

from .core import Ctx, HarnessError, part_a, translator_tie


def main(argv=None) -> int:
    ap = argparse.ArgumentParser()
    ap.add_argument("pid")
    ap.add_argument("--tier", default=os.environ.get("VERIF_TIER", "quick"), choices=["quick", "thorough"])
    ap.add_argument("--replay", default=None)
    ap.add_argument("--skip-proofs", action="store_true", help="development aid: skip part A")
    args = ap.parse_args(argv)
    seed = int(os.environ.get("VERIF_SEED", "20260929"))
    ctx = Ctx(args.pid, args.tier, seed, args.replay)
    ctx.dev_run = bool(args.skip_proofs)
    mod = importlib.import_module(f"harness.props.{args.pid.lower()}")
    try:
        if args.replay:
            return mod.replay(ctx, args.replay)
        a_ok = True if args.skip_proofs else part_a(ctx)
        try:
            mod.run(ctx, a_ok)
        except HarnessError:
            raise
        except Exception as e:  # noqa: BLE001
            # the harness tripped over something the implementation returned: the correspondence no longer checks
            ctx.violation(f"the correspondence run of {args.pid} aborted ({type(e).__name__}: {str(e)[:200]})",
                          {"broken": f"harness/props/{args.pid.lower()}.py run()", "traceback": traceback.format_exc()[-3000:]},
                          {"part": "B", "broken": "harness run aborted"}, found_input=False)
        translator_tie(ctx)
        return ctx.finish()
    except HarnessError as e:
        # the correspondence could not be evaluated at all (Coq rejected the generated cases, output unparsable, model
        # self-check failed ...): the property is not shown to hold on this tree -> reported, without a failing input
        print(f"HARNESS-ERROR {args.pid}: {e}", file=sys.stderr)
        traceback.print_exc()
        if args.replay:
            return 2
        ctx.violation(f"the correspondence of {args.pid} could not be evaluated ({str(e)[:300]})",
                      {"broken": f"harness run of {args.pid}", "error": str(e)[:3000], "traceback": traceback.format_exc()[-3000:]},
                      {"part": "B", "broken": "harness error"}, found_input=False)
        return ctx.finish()


if __name__ == "__main__":
    sys.exit(main())
