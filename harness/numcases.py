"""Shared generators / Coq terms for the numerical properties (C01-C04, C08, C13, C14, C15)."""
from __future__ import annotations

import copy

from lymph.utils import early_late_mapping

from . import gen, impl
from .coqterms import coq_bpatient, coq_patient, coq_uni
from .core import lst, s

IMPORTS_UNI = "Base States Linalg Graph Transition Observation Dist Unilateral"
IMPORTS_BI = IMPORTS_UNI + " Models Bilateral"
IMPORTS_ML = IMPORTS_BI + " Midline Cohort"


def tmap(raw):
    try:
        return early_late_mapping(raw)
    except ValueError:
        return f"invalid{raw}"


def gen_uni_case(rng, tier, min_mods=1, max_pat=5, with_extra_mod=True):
    base = rng.choice([2, 2, 3])
    maxl = 3 if base == 2 else 2
    g = gen.gen_graph(rng, max_lnls=maxl, base=base)
    n = len(gen.lnls_of(g))
    mt = rng.randint(0, 4)
    c = {"graph": g, "params": gen.gen_edge_params(rng, g), "mods": gen.gen_modalities(rng, min_mods, 2 if n < 3 else 1),
         "max_time": mt, "dists": gen.gen_dists(rng, mt)}
    mods = [m[0] for m in c["mods"]]
    table_mods = list(mods)
    if with_extra_mod and rng.random() < 0.25:
        table_mods.append("XX")            # a modality in the table that the model does not know
    if mods and rng.random() < 0.2:
        table_mods.remove(rng.choice(mods))  # a model modality absent from the table
    c["table_mods"] = table_mods
    lnls = gen.lnls_of(g)
    c["patients"] = [gen.gen_patient(rng, table_mods, lnls) for _ in range(rng.randint(0, max_pat))]
    return c


def uni_table(case, sides=("ipsi",), with_ext=False):
    return impl.table_from_patients(case["patients"], case["table_mods"], gen.lnls_of(case["graph"]), sides, with_ext)


def coq_patients(case, side="ipsi"):
    return lst(coq_patient(p, side, tmap) for p in case["patients"])


def nontrivial_cohort(case):
    rec = unk = 0
    for p in case["patients"]:
        for m, sides in p["find"].items():
            for sd, d in sides.items():
                for v in d.values():
                    if v is None:
                        unk += 1
                    else:
                        rec += 1
    return rec >= 1 and unk >= 1 and gen.is_nontrivial_params(case.get("params") or {"x": 0.5})


def shrink_uni_case(case):
    """Generic shrink candidates for cases with graph/params/mods/dists/patients."""
    out = []
    if len(case.get("patients", [])) > 1:
        for k in range(len(case["patients"])):
            c = copy.deepcopy(case)
            del c["patients"][k]
            out.append(c)
    g = case["graph"]
    names = gen.lnls_of(g)
    if len(names) > 1:
        for l in names:
            g2 = {"base": g["base"], "entries": [[k, n, [x for x in cs if x != l]] for k, n, cs in g["entries"] if n != l]}
            if any(cs for k, n, cs in g2["entries"] if k == "tumor"):
                c = copy.deepcopy(case)
                c["graph"] = g2
                if "params" in c and c["params"] is not None:
                    c["params"] = {n: case["params"].get(n, 0.5) for n in gen.edge_param_names(g2)}
                for p in c.get("patients", []):
                    for m, sides in p["find"].items():
                        for sd in sides.values():
                            sd.pop(l, None)
                out.append(c)
    if len(case.get("mods", [])) > 1:
        for k in range(len(case["mods"])):
            c = copy.deepcopy(case)
            name = c["mods"][k][0]
            del c["mods"][k]
            if "table_mods" in c and name in c["table_mods"]:
                c["table_mods"].remove(name)
            for p in c.get("patients", []):
                p["find"].pop(name, None)
            out.append(c)
    if case.get("max_time", 0) > 0:
        c = copy.deepcopy(case)
        c["max_time"] -= 1
        for t, d in c["dists"].items():
            if "frozen" in d:
                d["frozen"] = d["frozen"][:-1]
                if sum(d["frozen"]) == 0:
                    d["frozen"][0] = 1
        out.append(c)
    for name, v in (case.get("params") or {}).items():
        if v not in (0.0, 1.0, 0.5):
            c = copy.deepcopy(case)
            c["params"][name] = 0.5
            out.append(c)
    return out
