"""Source-to-Gallina translator, ninth part: `lymph.diagnosis_times.Distribution` (a stateful object with a cache, three
kinds of exceptions and a `try ... except ValueError` block) and the leaf branch of `Composite.set_distribution_params` /
`Composite.get_distribution_params`.

On every run the CURRENT Python source is parsed with `ast`, translated statement by statement into Gallina
(`gen_<function>`), the generated term is checked by CONVERSION (`reflexivity`) against `NumpyDist.np_<function>` (a
hand-written statement-by-statement reading of the same Python function) and `NumpyDist.v` proves once and for all that
`np_<function>` behaves like the hand-written model: `Dist.normalize`, and for the methods a SIMULATION with respect to
the representation relations `dist_repr` (model = a cell of DistModel.v, parametric function = the abstract `W`) and
`pdist_repr` (model = `Dist.dist` as used by Params.v): from related states the method returns the model's value /
raises exactly when the model says so, and leaves related states.

  piece                    source                                    model
  dist_normalize           Distribution.normalize (static)           Dist.normalize
  dist_is_updateable       Distribution.is_updateable (property)     DistModel.cell_updateable
  dist_max_time            Distribution.max_time (setter)            DistModel.cell_set_maxt (ValueError for value < 0)
  dist_pmf                 Distribution.pmf (property) + normalize   DistModel.cell_pmf, Dist.pmf
  dist_get_params          Distribution.get_params + is_updateable   DistModel.cell_kw, Params.dist_kw_dict
  dist_set_params          Distribution.set_params + pmf, normalize, DistModel.cell_set_params (set_kw),
                           is_updateable                             Params.dist_set_params (dist_assign)
  leaf_set_dist_params     Composite.set_distribution_params, leaf   Params.set_dists_for / u_set_distribution_params
  leaf_get_dist_params     Composite.get_distribution_params, leaf   Params.dists_get_params (before flatten)

Fail-closed: every statement / expression form that is not listed in `DM` / `LeafM` raises `Untranslatable`.
Python local `x` becomes the Gallina binder `x_`; no emitted global name or function parameter ends in `_` except the
threaded states `self_` (the Distribution object) and `distributions_` (the dict of a leaf; a Python local of that name is
rejected).  A local variable may not be bound to an attribute of the object without `.copy()` (`old = self._func.keywords`
would be an alias that changes with the object: rejected), and `D.update(...)` is only accepted on a fresh copy.

What the translator itself ASSUMES (trusted reading)
 * a `Distribution` object is the record `dobj K` of NumpyDist.v, threaded through the statements as `self_`:
     `self.support`  = `o_support` (a list of naturals; `np.arange(n)` for an int n is `np_arange n = seq 0 (Z.to_nat n)`),
     `self._frozen`  = `o_frozen : option (option vec)`: `None` = the attribute does not exist (after `del self._frozen`),
                       `Some None` = it is Python's None, `Some (Some p)` = it is the array p.  Reading it (`rd_frozen`) or
                       deleting it (`del_frozen`) raises AttributeError when it does not exist; `hasattr(self, "_frozen")`
                       is `py_hasattr`; assigning sets `Some ...`,
     `self._func`    = `o_func : option (list (string * K))`: `None` = Python's None, `Some kws` = `partial(f, **kws)` for
                       the ONE underlying parametric function f of this object, which stays ABSTRACT: it is the parameter
                       `the_func : list nat -> list (string * K) -> option vec` of the generated definitions
                       (`f(support, **kws)`; `None` = f raises ValueError; f raises nothing else and has no side effect).
                       `self._func.keywords` is `kws` (AttributeError when `_func` is None), calling `self._func(x)` when
                       `_func` is None is a TypeError, `self._func.keywords[n] = v` is `dict_set`, `.update(d)` is
                       `dict_update`, `.copy()` is the same value, `.items()` the list itself.
   `support` and `_func` always exist (every path of `__init__` assigns them); values of the dicts are of an abstract type
   `K` (Qc for DistModel.v, Params.val for Params.v).
 * a method is a function `dobj K -> ... -> dobj K * dres R` (`dres R = derr + R` of DistModel.v): the object as Python
   leaves it and either the exception (`DValue` = ValueError, `DType` = TypeError, `DAttr` = AttributeError) or the value.
   `raise ValueError(...) [from x]` is `inl DValue`; `try: B except ValueError [as x]: H` runs H exactly when B ends in
   `inl DValue` and lets the other exceptions pass; H must end in `raise`.  `or` is short-circuit.
 * properties are calls: `self.pmf` is `gen_pmf the_func self_`, `self.is_updateable` is `gen_is_updateable self_`,
   `self.normalize(x)` is `gen_normalize x` (the translator translates them from the same source in the same file).
 * numpy: an array of numbers is a `vec` (list Qc); `np.array(x)` of such a list is the list, `np.sum` is `sumQ`,
   `array / scalar` is `np_div` (element-wise exact division; a zero sum gives zeros in Qc, NaN / inf in IEEE: outside the
   model).  Python ints are `Z`; `value < 0`, `value + 1` are the Z operations.
 * `*args` is a list of user values of an abstract type `A`; `py_val : A -> option K` reads one (`None` = Python's None);
   `first, args = popfirst(args)` is Params.popfirst (piece `popfirst` of translate5) and the statement
   `if first is None: first = E` directly afterwards is `py_default py_val first E` (afterwards `first` is a `K`).
   `**kwargs` is of an abstract type `KW` and `kwargs.get(name, d)` is `kw_lookup kwargs name d` (a parameter).
 * `for name, value in self._func.keywords.items(): BODY` iterates over the items AS THEY ARE WHEN THE LOOP STARTS
   (`py_for`, which stops at the first exception); BODY may only assign `self._func.keywords[name]` for the loop's own
   `name`, an existing key, so the dict keeps its size and order while it is iterated and every value is read before it
   is overwritten.  The lemmas need the keys of the dict to be distinct (`NoDup`, true of every Python dict).
 * `warnings.warn(...)` is dropped; `as_dict` is True; `as_flat` is irrelevant in Distribution.get_params (`**_kwargs`).
 * Composite (leaf branch only; `self._is_distribution_leaf` is taken to be True, the `else` / fall-through branch for
   composites with children is NOT translated): `self._distributions` is an association list T-stage -> object threaded
   through the statements as in translate5 (`py_for_items`), `.keys()` is `map fst`; `distribution.is_updateable`,
   `distribution.set_params(*args, **kw)` and `distribution.get_params(as_flat=...)` are abstract methods (function
   parameters `is_updateable`, `set_params`, `get_params`) which the lemmas instantiate with `np_is_updateable`,
   `np_set_params`, `np_get_params`; `unflatten_and_split` is Params.unflatten_and_split (piece of translate5),
   `D = G.copy(); D.update(kwargs.get(t, {}))` is `kw_update (sub_kwargs t kwargs) G`; `continue` ends the iteration with
   the carried variable unchanged.
"""
from __future__ import annotations

import ast

from .translate import Untranslatable, _src, _strip_doc
from .translate2 import _attr_chain
from .translate5 import _assigned, _is_none, _params, _reads, g

VEC, OVEC, KWS, KV, BOOL, UNIT, ARGS, OFIRST, KW, INT, STR, SUPPORT, OFUNC = (
    "vec", "option vec", "list (string * K)", "K", "bool", "unit", "list A", "option A", "KW", "Z", "string",
    "list nat", "option (list (string * K))")


class NotPure(Exception):
    pass


def _cls(tree, name):
    for n in tree.body:
        if isinstance(n, ast.ClassDef) and n.name == name:
            return n
    raise Untranslatable(f"class {name} not found")


def _method(cls, name, deco):
    """the method `name` of the class with exactly the decorator `deco` (None | 'property' | 'staticmethod' | 'NAME.setter')"""
    found = []
    for n in cls.body:
        if isinstance(n, ast.FunctionDef) and n.name == name:
            ds = [ast.unparse(d) for d in n.decorator_list]
            if ds == ([] if deco is None else [deco]):
                found.append(n)
    if len(found) != 1:
        raise Untranslatable(f"{cls.name}.{name} with decorator {deco}: found {len(found)} definitions")
    return found[0]


def _bind(term: str, pat: str, cont: str) -> str:
    if term.startswith(("if ", "match ")):
        term = f"({term})"
    return f"match {term} with\n  | (self_, inl e) => (self_, inl e)\n  | (self_, inr {pat}) =>\n  {cont}\n  end"


# ----------------------------------------------------------------------------------------------------------------------
# Distribution.normalize: a pure numpy function
# ----------------------------------------------------------------------------------------------------------------------
def _normalize_def(cls) -> str:
    """statements  NAME = E | return E       E ::= NAME | np.array(E) | np.sum(E) | E / E (array / scalar)"""
    fn = _method(cls, "normalize", "staticmethod")
    _params(fn, ["distribution"])
    env = {"distribution": VEC}

    def expr(e):
        if isinstance(e, ast.Name) and e.id in env:
            return g(e.id), env[e.id]
        if isinstance(e, ast.Call) and _attr_chain(e.func) in (["np", "array"], ["np", "sum"]) and len(e.args) == 1 and not e.keywords:
            t, ty = expr(e.args[0])
            if ty != VEC:
                raise Untranslatable(f"np.{e.func.attr} of a {ty}")
            return (f"(np_array {t})", VEC) if e.func.attr == "array" else (f"(np_sum {t})", "Qc")
        if isinstance(e, ast.BinOp) and isinstance(e.op, ast.Div):
            a, b = expr(e.left), expr(e.right)
            if (a[1], b[1]) != (VEC, "Qc"):
                raise Untranslatable(f"division {a[1]} / {b[1]}")
            return f"(np_div {a[0]} {b[0]})", VEC
        raise Untranslatable(f"normalize: expression {ast.dump(e)[:160]}")

    def block(stmts):
        if not stmts:
            raise Untranslatable("normalize falls through")
        s, rest = stmts[0], stmts[1:]
        if isinstance(s, ast.Return) and not rest and s.value is not None:
            t, ty = expr(s.value)
            if ty != VEC:
                raise Untranslatable(f"normalize returns a {ty}")
            return t
        if isinstance(s, ast.Assign) and len(s.targets) == 1 and isinstance(s.targets[0], ast.Name):
            t, ty = expr(s.value)
            env[s.targets[0].id] = ty
            return f"let {g(s.targets[0].id)} := {t} in\n  {block(rest)}"
        raise Untranslatable(f"normalize: statement {ast.dump(s)[:160]}")
    return f"Definition gen_normalize (distribution_ : vec) : vec :=\n  {block(_strip_doc(fn.body))}.\n"


# ----------------------------------------------------------------------------------------------------------------------
# methods of Distribution
# ----------------------------------------------------------------------------------------------------------------------
class DM:
    """statements  return E | raise ValueError(...) [from NAME] | NAME = E | _ = E | A, B = popfirst(ARGS)
                   | if NAME is None: NAME = E        (NAME the first component of popfirst; see the module docstring)
                   | self.support = E | self._frozen = E | self._frozen = None | del self._frozen
                   | self._func.keywords[NAME] = E | self._func.keywords.update(E)
                   | if T: BLOCK-ending-in-return/raise | if T: BLOCK falling through (no return, no local assigned)
                   | for NAME, VALUE in self._func.keywords.items(): BODY
                   | try: BLOCK except ValueError [as NAME]: BLOCK-ending-in-raise
                   | warnings.warn(...) (dropped)
       pure expr   names, {}, None-tests `X is None` / `X is not None`, hasattr(self, "_frozen"), self.support, self._func,
                   not / or, value < 0, value + 1, np.arange(E), KWARGS.get(NAME, E), X.copy(),
                   `A if as_dict else B` (as_dict = True)
       effectful   self._frozen | self._func.keywords | self._func(E) | self.normalize(E) | self.pmf | self.is_updateable
                   | not E | A or B (short-circuit) | E is None | E.copy()"""

    def __init__(self, env: dict, ret_ty: str, const: dict | None = None):
        self.env = dict(env)
        self.ret_ty = ret_ty
        self.const = dict(const or {})
        self.n = 0
        self.loop_key = None              # inside the loop over the stored keywords: the python name of the key

    def fresh(self) -> str:
        self.n += 1
        return f"x{self.n}"

    # ---- expressions -----------------------------------------------------------------------------------------------
    def pure(self, e):
        if isinstance(e, ast.Name) and e.id in self.const:
            return self.const[e.id], BOOL
        if isinstance(e, ast.Name) and e.id in self.env:
            return g(e.id), self.env[e.id]
        if isinstance(e, ast.Dict) and not e.keys:
            return "([] : list (string * K))", KWS
        ch = _attr_chain(e)
        if ch == ["self", "support"]:
            return "(o_support self_)", SUPPORT
        if ch == ["self", "_func"]:
            return "(o_func self_)", OFUNC
        if ch is not None and ch[0] == "self":
            raise NotPure
        if isinstance(e, ast.Compare) and len(e.ops) == 1 and isinstance(e.ops[0], (ast.Is, ast.IsNot)) and _is_none(e.comparators[0]):
            t, ty = self.pure(e.left)
            if ty not in (OVEC, OFUNC):
                raise Untranslatable(f"None-test of a {ty}")
            t = f"(py_is_none {t})"
            return (t if isinstance(e.ops[0], ast.Is) else f"(negb {t})"), BOOL
        if (isinstance(e, ast.Compare) and len(e.ops) == 1 and isinstance(e.ops[0], ast.Lt) and isinstance(e.comparators[0], ast.Constant)
                and e.comparators[0].value == 0 and not isinstance(e.comparators[0].value, bool) and isinstance(e.comparators[0].value, int)):
            t, ty = self.pure(e.left)
            if ty != INT:
                raise Untranslatable(f"comparison of a {ty} with 0")
            return f"({t} <? 0)%Z", BOOL
        if (isinstance(e, ast.BinOp) and isinstance(e.op, ast.Add) and isinstance(e.right, ast.Constant)
                and isinstance(e.right.value, int) and not isinstance(e.right.value, bool) and e.right.value >= 0):
            t, ty = self.pure(e.left)
            if ty != INT:
                raise Untranslatable(f"addition to a {ty}")
            return f"({t} + {e.right.value})%Z", INT
        if isinstance(e, ast.Call) and isinstance(e.func, ast.Name) and not e.keywords:
            if (e.func.id == "hasattr" and len(e.args) == 2 and isinstance(e.args[0], ast.Name) and e.args[0].id == "self"
                    and isinstance(e.args[1], ast.Constant) and e.args[1].value == "_frozen"):
                return "(py_hasattr (o_frozen self_))", BOOL
        if isinstance(e, ast.Call) and _attr_chain(e.func) == ["np", "arange"] and len(e.args) == 1 and not e.keywords:
            t, ty = self.pure(e.args[0])
            if ty != INT:
                raise Untranslatable(f"np.arange of a {ty}")
            return f"(np_arange {t})", SUPPORT
        if isinstance(e, ast.Call) and isinstance(e.func, ast.Attribute) and not e.keywords:
            if e.func.attr == "copy" and not e.args:
                t, ty = self.pure(e.func.value)
                if ty != KWS:
                    raise Untranslatable(f"copy of a {ty}")
                return t, KWS
            if e.func.attr == "get" and len(e.args) == 2 and isinstance(e.func.value, ast.Name) and self.env.get(e.func.value.id) == KW:
                k, tk = self.pure(e.args[0])
                d, td = self.pure(e.args[1])
                if (tk, td) != (STR, KV):
                    raise Untranslatable(f"kwargs.get({tk}, {td})")
                return f"(kw_lookup {g(e.func.value.id)} {k} {d})", KV
            if _attr_chain(e.func) is not None and _attr_chain(e.func)[0] == "self":
                raise NotPure
        if isinstance(e, ast.UnaryOp) and isinstance(e.op, ast.Not):
            return f"(negb {self.boolean(e.operand)})", BOOL
        if isinstance(e, ast.BoolOp) and isinstance(e.op, ast.Or):
            return "(" + " || ".join(self.boolean(x) for x in e.values) + ")", BOOL
        if isinstance(e, ast.IfExp) and isinstance(e.test, ast.Name) and self.const.get(e.test.id) == "true":
            return self.pure(e.body)
        raise Untranslatable(f"expression {ast.dump(e)[:200]}")

    def boolean(self, e) -> str:
        t, ty = self.pure(e)
        if ty != BOOL:
            raise Untranslatable(f"boolean expected, got {ty}")
        return t

    def ev(self, e, k) -> str:
        """evaluate e (effects and exceptions included) and continue with k(text of the value, type)"""
        try:
            t, ty = self.pure(e)
        except NotPure:
            pass
        else:
            return k(t, ty)
        ch = _attr_chain(e)
        if ch == ["self", "_frozen"]:
            x = self.fresh()
            return _bind("rd_frozen self_", x, k(x, OVEC))
        if ch == ["self", "_func", "keywords"]:
            x = self.fresh()
            return _bind("rd_keywords self_", x, k(x, KWS))
        if ch == ["self", "pmf"]:
            x = self.fresh()
            return _bind("gen_pmf the_func self_", x, k(x, OVEC))
        if ch == ["self", "is_updateable"]:
            x = self.fresh()
            return _bind("gen_is_updateable self_", x, k(x, BOOL))
        if isinstance(e, ast.Call) and not e.keywords and len(e.args) == 1 and _attr_chain(e.func) == ["self", "_func"]:
            def call(t, ty):
                if ty != SUPPORT:
                    raise Untranslatable(f"self._func applied to a {ty}")
                x = self.fresh()
                return _bind(f"call_func the_func self_ {t}", x, k(x, VEC))
            return self.ev(e.args[0], call)
        if isinstance(e, ast.Call) and not e.keywords and len(e.args) == 1 and _attr_chain(e.func) == ["self", "normalize"]:
            def norm(t, ty):
                if ty != VEC:
                    raise Untranslatable(f"self.normalize applied to a {ty}")
                return k(f"(gen_normalize {t})", VEC)
            return self.ev(e.args[0], norm)
        if isinstance(e, ast.Call) and not e.keywords and not e.args and isinstance(e.func, ast.Attribute) and e.func.attr == "copy":
            def cp(t, ty):
                if ty != KWS:
                    raise Untranslatable(f"copy of a {ty}")
                return k(t, KWS)
            return self.ev(e.func.value, cp)
        if isinstance(e, ast.IfExp) and isinstance(e.test, ast.Name) and self.const.get(e.test.id) == "true":
            return self.ev(e.body, k)
        if isinstance(e, ast.UnaryOp) and isinstance(e.op, ast.Not):
            def neg(t, ty):
                if ty != BOOL:
                    raise Untranslatable(f"not of a {ty}")
                return k(f"(negb {t})", BOOL)
            return self.ev(e.operand, neg)
        if isinstance(e, ast.Compare) and len(e.ops) == 1 and isinstance(e.ops[0], (ast.Is, ast.IsNot)) and _is_none(e.comparators[0]):
            def isn(t, ty):
                if ty not in (OVEC, OFUNC):
                    raise Untranslatable(f"None-test of a {ty}")
                t = f"(py_is_none {t})"
                return k(t if isinstance(e.ops[0], ast.Is) else f"(negb {t})", BOOL)
            return self.ev(e.left, isn)
        if isinstance(e, ast.BoolOp) and isinstance(e.op, ast.Or) and len(e.values) == 2:
            # short-circuit: the second operand is only evaluated when the first one is false
            b, tb = self.eff(e.values[1])
            if tb != BOOL:
                raise Untranslatable("or of a non-boolean")

            def first(t, ty):
                if ty != BOOL:
                    raise Untranslatable("or of a non-boolean")
                return f"if {t} then (self_, inr true) else {b}"
            x = self.fresh()
            return _bind(self.ev(e.values[0], first), x, k(x, BOOL))
        raise Untranslatable(f"expression {ast.dump(e)[:200]}")

    def eff(self, e):
        """-> (closed term of type dobj K * dres T, T)"""
        box = {}

        def k(t, ty):
            box["ty"] = ty
            return f"(self_, inr {t})"
        term = self.ev(e, k)
        return term, box["ty"]

    # ---- statements ------------------------------------------------------------------------------------------------
    @staticmethod
    def is_warn(s) -> bool:
        return isinstance(s, ast.Expr) and isinstance(s.value, ast.Call) and _attr_chain(s.value.func) == ["warnings", "warn"]

    @staticmethod
    def check_raise(s, handler_var=None):
        ok = (isinstance(s.exc, ast.Call) and isinstance(s.exc.func, ast.Name) and s.exc.func.id == "ValueError"
              and (s.cause is None or (isinstance(s.cause, ast.Name) and s.cause.id == handler_var)))
        if not ok:
            raise Untranslatable("only `raise ValueError(...)` (inside a handler: `from` the caught exception)")

    def block(self, stmts, fall, handler_var=None) -> str:
        """`fall`: the term when the block falls through (None = not allowed)"""
        if not stmts:
            if fall is None:
                raise Untranslatable("block falls through")
            return fall
        s, rest = stmts[0], stmts[1:]
        nxt = lambda: self.block(rest, fall, handler_var)  # noqa: E731
        if self.is_warn(s):
            return nxt()
        if isinstance(s, ast.Return):
            if rest or s.value is None:
                raise Untranslatable("code after return / bare return")

            def ret(t, ty):
                if ty != self.ret_ty:
                    raise Untranslatable(f"returns a {ty}, expected {self.ret_ty}")
                return f"(self_, inr {t})"
            return self.ev(s.value, ret)
        if isinstance(s, ast.Raise):
            if rest:
                raise Untranslatable("code after raise")
            self.check_raise(s, handler_var)
            return "(self_, inl DValue)"
        if isinstance(s, ast.Delete):
            if not (len(s.targets) == 1 and _attr_chain(s.targets[0]) == ["self", "_frozen"]):
                raise Untranslatable("only `del self._frozen`")
            return _bind("del_frozen self_", "_", nxt())
        if isinstance(s, ast.If) and not s.orelse:
            # if NAME is None: NAME = E   (NAME : the first component of popfirst)
            t = s.test
            if (isinstance(t, ast.Compare) and len(t.ops) == 1 and isinstance(t.ops[0], ast.Is) and isinstance(t.left, ast.Name)
                    and _is_none(t.comparators[0]) and self.env.get(t.left.id) == OFIRST):
                nm = t.left.id
                ok = (len(s.body) == 1 and isinstance(s.body[0], ast.Assign) and len(s.body[0].targets) == 1
                      and isinstance(s.body[0].targets[0], ast.Name) and s.body[0].targets[0].id == nm)
                if not ok:
                    raise Untranslatable(f"`if {nm} is None:` must be followed by exactly `{nm} = E`")
                d, ty = self.pure(s.body[0].value)
                if ty != KV:
                    raise Untranslatable(f"default of {nm} is a {ty}")
                self.env[nm] = KV
                return f"let {g(nm)} := py_default py_val {g(nm)} {d} in\n  {nxt()}"
            if isinstance(s.body[-1], (ast.Return, ast.Raise)):
                def early(t, ty):
                    if ty != BOOL:
                        raise Untranslatable("test is not boolean")
                    saved = dict(self.env)
                    then = self.block(s.body, None, handler_var)
                    self.env = saved
                    return f"if {t} then\n  {then}\n  else\n  {nxt()}"
                return self.ev(s.test, early)
            if any(isinstance(n, (ast.Return, ast.Continue, ast.Break)) for x in s.body for n in ast.walk(x)):
                raise Untranslatable("return / continue / break inside an `if` that falls through")
            if [n for n in _assigned(s.body) if n != "self"]:
                raise Untranslatable("a local variable is assigned inside an `if` that falls through")

            def through(t, ty):
                if ty != BOOL:
                    raise Untranslatable("test is not boolean")
                saved = dict(self.env)
                then = self.block(s.body, "(self_, inr tt)", handler_var)
                self.env = saved
                return _bind(f"(if {t} then\n  {then}\n  else (self_, inr tt))", "_", nxt())
            return self.ev(s.test, through)
        if isinstance(s, ast.Try):
            ok = (len(s.handlers) == 1 and not s.orelse and not s.finalbody and isinstance(s.handlers[0].type, ast.Name)
                  and s.handlers[0].type.id == "ValueError" and s.handlers[0].body and isinstance(s.handlers[0].body[-1], ast.Raise))
            if not ok:
                raise Untranslatable("only `try: ... except ValueError [as x]: ...; raise ...`")
            if any(isinstance(n, (ast.Return, ast.Raise, ast.Continue, ast.Break)) for x in s.body for n in ast.walk(x)):
                raise Untranslatable("return / raise / continue / break inside `try`")
            if [n for n in _assigned(s.body) if n not in ("_", "self")]:
                raise Untranslatable("a local variable is assigned inside `try`")
            saved = dict(self.env)
            body = self.block(list(s.body), "(self_, inr tt)", handler_var)
            self.env = dict(saved)
            h = self.block(list(s.handlers[0].body), None, s.handlers[0].name)
            self.env = saved
            return (f"match ({body}) with\n  | (self_, inl DValue) =>\n  {h}\n  | (self_, inl e) => (self_, inl e)\n"
                    f"  | (self_, inr _) =>\n  {nxt()}\n  end")
        if isinstance(s, ast.For):
            return self.loop(s, rest, fall, handler_var)
        if isinstance(s, ast.Expr) and isinstance(s.value, ast.Call) and _attr_chain(s.value.func) == ["self", "_func", "keywords", "update"]:
            if len(s.value.args) != 1 or s.value.keywords:
                raise Untranslatable("keywords.update(...) with one positional argument expected")

            def upd(t, ty):
                if ty != KWS:
                    raise Untranslatable(f"keywords.update with a {ty}")
                return _bind(f"upd_keywords self_ {t}", "_", nxt())
            return self.ev(s.value.args[0], upd)
        if isinstance(s, ast.Assign) and len(s.targets) == 1:
            tg, v = s.targets[0], s.value
            # A, B = popfirst(ARGS)
            if (isinstance(tg, ast.Tuple) and len(tg.elts) == 2 and all(isinstance(x, ast.Name) for x in tg.elts)
                    and isinstance(v, ast.Call) and isinstance(v.func, ast.Name) and v.func.id == "popfirst"
                    and len(v.args) == 1 and not v.keywords and isinstance(v.args[0], ast.Name)
                    and self.env.get(v.args[0].id) == ARGS):
                a, b = (x.id for x in tg.elts)
                src = g(v.args[0].id)
                if a == b:
                    raise Untranslatable("popfirst: the two targets coincide")
                self.env[a], self.env[b] = OFIRST, ARGS
                return f"let '({g(a)}, {g(b)}) := Params.popfirst {src} in\n  {nxt()}"
            if isinstance(tg, ast.Name):
                if _attr_chain(v) is not None and _attr_chain(v)[0] == "self" and tg.id != "_":
                    # e.g. `old = self._func.keywords` without .copy(): the local would change with the object
                    raise Untranslatable(f"{tg.id} = {ast.unparse(v)}: a local alias of an attribute of the object (copy it)")

                def assign(t, ty):
                    if tg.id == "_":
                        return nxt()
                    if tg.id in self.env and self.env[tg.id] != ty:
                        raise Untranslatable(f"the type of {tg.id} changes")
                    self.env[tg.id] = ty
                    return f"let {g(tg.id)} := {t} in\n  {nxt()}"
                return self.ev(v, assign)
            ch = _attr_chain(tg)
            if ch == ["self", "support"]:
                def sup(t, ty):
                    if ty != SUPPORT:
                        raise Untranslatable(f"self.support = <{ty}>")
                    return f"let self_ := set_support self_ {t} in\n  {nxt()}"
                return self.ev(v, sup)
            if ch == ["self", "_frozen"]:
                if _is_none(v):
                    return f"let self_ := set_frozen self_ None in\n  {nxt()}"

                def frz(t, ty):
                    if ty != VEC:
                        raise Untranslatable(f"self._frozen = <{ty}>")
                    return f"let self_ := set_frozen self_ (Some {t}) in\n  {nxt()}"
                return self.ev(v, frz)
            if isinstance(tg, ast.Subscript) and _attr_chain(tg.value) == ["self", "_func", "keywords"]:
                if not (isinstance(tg.slice, ast.Name) and tg.slice.id == self.loop_key):
                    raise Untranslatable("self._func.keywords[...] may only be assigned for the key of the enclosing loop")

                def wr(t, ty):
                    if ty != KV:
                        raise Untranslatable(f"self._func.keywords[...] = <{ty}>")
                    return _bind(f"wr_keyword self_ {g(tg.slice.id)} {t}", "_", nxt())
                return self.ev(v, wr)
        raise Untranslatable(f"statement {type(s).__name__}: {ast.dump(s)[:160]}")

    def loop(self, s: ast.For, rest, fall, handler_var) -> str:
        ok = (not s.orelse and isinstance(s.iter, ast.Call) and not s.iter.args and not s.iter.keywords
              and _attr_chain(s.iter.func) == ["self", "_func", "keywords", "items"] and isinstance(s.target, ast.Tuple)
              and len(s.target.elts) == 2 and all(isinstance(x, ast.Name) for x in s.target.elts))
        if not ok:
            raise Untranslatable("loop is not `for NAME, VALUE in self._func.keywords.items()`")
        key, val = (x.id for x in s.target.elts)
        if key in self.env or val in self.env or key == val or self.loop_key is not None:
            raise Untranslatable("loop variables shadow other variables / nested loop")
        if any(isinstance(n, (ast.Return, ast.Break, ast.Continue, ast.Raise, ast.Try, ast.For)) for x in s.body for n in ast.walk(x)):
            raise Untranslatable("return / break / continue / raise / try / for inside the loop")
        assigned = _assigned(s.body)
        if {key, val} & set(assigned):
            raise Untranslatable("the loop variables are assigned in the body")
        carried = [n for n in assigned if n in self.env]
        local = [n for n in assigned if n not in self.env and n != "self"]
        if len(carried) != 1:
            raise Untranslatable(f"loop-carried variables {carried}")
        if ({key, val} | set(local)) & _reads(rest):
            raise Untranslatable("a variable of the loop body is used after the loop")
        c = carried[0]
        before = dict(self.env)
        self.env.update({key: STR, val: KV})
        self.loop_key = key
        body = self.block(list(s.body), f"(self_, inr {g(c)})", handler_var)
        self.loop_key = None
        if self.env[c] != before[c]:
            raise Untranslatable(f"the type of {c} changes in the loop")
        self.env = before
        x = self.fresh()
        inner = (f"match py_for (fun '(({g(key)}, {g(val)}) : string * K) self_ {g(c)} =>\n  {body}) {x} self_ {g(c)} with\n"
                 f"  | (self_, inl e) => (self_, inl e)\n  | (self_, inr {g(c)}) =>\n  {self.block(rest, fall, handler_var)}\n  end")
        return _bind("rd_keywords self_", x, inner)


SIG_K = "{K : Type}"
FUNC = "(the_func : list nat -> list (string * K) -> option vec)"


def _dist_cls():
    tree = ast.parse(_src("lymph/diagnosis_times.py"))
    imported = any(isinstance(n, ast.ImportFrom) and n.module == "lymph.utils" and any(a.name == "popfirst" and a.asname is None for a in n.names)
                   for n in tree.body)
    redefined = any(isinstance(n, (ast.FunctionDef, ast.ClassDef)) and n.name in ("popfirst", "unflatten_and_split", "flatten") for n in tree.body) or any(
        isinstance(n, ast.Assign) and any(isinstance(t, ast.Name) and t.id in ("popfirst", "unflatten_and_split", "flatten") for t in n.targets)
        for n in tree.body)
    if not imported or redefined:
        raise Untranslatable("popfirst is not (only) imported from lymph.utils")
    cls = _cls(tree, "Distribution")
    # no __getattr__ / __setattr__ / __slots__ tricks: attribute accesses mean what the docstring says
    for n in cls.body:
        if isinstance(n, ast.FunctionDef) and n.name in ("__getattr__", "__getattribute__", "__setattr__", "__delattr__"):
            raise Untranslatable(f"Distribution defines {n.name}")
    return tree, cls


def _dist_method(cls, name: str) -> str:
    if name == "normalize":
        return _normalize_def(cls)
    if name == "is_updateable":
        fn = _method(cls, "is_updateable", "property")
        _params(fn, ["self"])
        m = DM({}, BOOL)
        return f"Definition gen_is_updateable {SIG_K} (self_ : dobj K) : dobj K * dres bool :=\n  {m.block(_strip_doc(fn.body), None)}.\n"
    if name == "max_time":
        fn = _method(cls, "max_time", "max_time.setter")
        _params(fn, ["self", "value"])
        m = DM({"value": INT}, UNIT)
        return (f"Definition gen_max_time_set {SIG_K} (self_ : dobj K) (value_ : Z) : dobj K * dres unit :=\n  "
                f"{m.block(_strip_doc(fn.body), '(self_, inr tt)')}.\n")
    if name == "pmf":
        fn = _method(cls, "pmf", "property")
        _params(fn, ["self"])
        m = DM({}, OVEC)
        return f"Definition gen_pmf {SIG_K} {FUNC} (self_ : dobj K) : dobj K * dres (option vec) :=\n  {m.block(_strip_doc(fn.body), None)}.\n"
    if name == "get_params":
        fn = _method(cls, "get_params", None)
        _params(fn, ["self", "as_dict"], [True], kwarg="_kwargs")
        m = DM({}, KWS, const={"as_dict": "true"})
        return (f"Definition gen_get_params {SIG_K} (self_ : dobj K) : dobj K * dres (list (string * K)) :=\n  "
                f"{m.block(_strip_doc(fn.body), None)}.\n")
    if name == "set_params":
        fn = _method(cls, "set_params", None)
        _params(fn, ["self"], vararg="args", kwarg="kwargs")
        m = DM({"args": ARGS, "kwargs": KW}, ARGS)
        return ("Definition gen_set_params {K A KW : Type} " + FUNC + " (py_val : A -> option K)\n"
                "    (kw_lookup : KW -> string -> K -> K) (self_ : dobj K) (args_ : list A) (kwargs_ : KW) : dobj K * dres (list A) :=\n  "
                f"{m.block(_strip_doc(fn.body), None)}.\n")
    raise Untranslatable(name)


def translate_normalize() -> str:
    _, cls = _dist_cls()
    return (_dist_method(cls, "normalize")
            + "Lemma gen_normalize_np : forall w, gen_normalize w = np_normalize w.\nProof. intros. reflexivity. Qed.\n"
              "Lemma gen_normalize_eq : forall w, gen_normalize w = normalize w.\n"
              "Proof. intros w. rewrite gen_normalize_np. apply np_normalize_eq. Qed.\n")


def translate_is_updateable() -> str:
    _, cls = _dist_cls()
    return (_dist_method(cls, "is_updateable")
            + "Lemma gen_is_updateable_np : forall K (o : dobj K), gen_is_updateable o = np_is_updateable o.\nProof. intros. reflexivity. Qed.\n"
              "Lemma gen_is_updateable_eq : forall W func c o, dist_repr W func c o ->\n"
              "  gen_is_updateable o = (o, inr (cell_updateable c)).\n"
              "Proof. intros W func c o H. rewrite gen_is_updateable_np. apply (np_is_updateable_cell W func). exact H. Qed.\n")


def translate_max_time() -> str:
    _, cls = _dist_cls()
    return (_dist_method(cls, "max_time")
            + "Lemma gen_max_time_set_np : forall K (o : dobj K) v, gen_max_time_set o v = np_max_time_set o v.\nProof. intros. reflexivity. Qed.\n"
              "Lemma gen_max_time_set_eq : forall W func c o v, dist_repr W func c o ->\n"
              "  if (v <? 0)%Z then gen_max_time_set o v = (o, inl DValue)\n"
              "  else exists o', gen_max_time_set o v = (o', inr tt) /\\ dist_repr W func (cell_set_maxt c (Z.to_nat v)) o'.\n"
              "Proof. intros W func c o v H. rewrite gen_max_time_set_np. apply np_max_time_set_cell. exact H. Qed.\n")


def translate_pmf() -> str:
    _, cls = _dist_cls()
    return (_dist_method(cls, "normalize") + _dist_method(cls, "pmf")
            + "Lemma gen_pmf_np : forall K (func : list nat -> list (string * K) -> option vec) o, gen_pmf func o = np_pmf func o.\n"
              "Proof. intros. reflexivity. Qed.\n"
              "Lemma gen_pmf_eq : forall W func c o, dist_repr W func c o ->\n"
              "  exists o', gen_pmf func o = (o', match cell_pmf W c with inl e => inl e | inr p => inr (Some p) end)\n"
              "             /\\ dist_repr W func c o'.\n"
              "Proof. intros W func c o H. rewrite gen_pmf_np. apply np_pmf_cell. exact H. Qed.\n"
              "Lemma gen_pmf_params : forall maxt d o, pdist_repr maxt d o ->\n"
              "  exists o', gen_pmf (pfunc d) o = (o', match pmf maxt d with None => inl DValue | Some p => inr (Some p) end)\n"
              "             /\\ pdist_repr maxt d o'.\n"
              "Proof. intros maxt d o H. rewrite gen_pmf_np. apply np_pmf_params. exact H. Qed.\n")


def translate_get_params() -> str:
    _, cls = _dist_cls()
    return (_dist_method(cls, "is_updateable") + _dist_method(cls, "get_params")
            + "Lemma gen_get_params_np : forall K (o : dobj K), gen_get_params o = np_get_params o.\nProof. intros. reflexivity. Qed.\n"
              "Lemma gen_get_params_eq : forall W func c o, dist_repr W func c o -> gen_get_params o = (o, inr (cell_kw c)).\n"
              "Proof. intros W func c o H. rewrite gen_get_params_np. apply (np_get_params_cell W func). exact H. Qed.\n"
              "Lemma gen_get_params_params : forall maxt d o, pdist_repr maxt d o ->\n"
              "  gen_get_params o = (o, inr (vals (dist_kws d))) /\\ pdict_of_vals (vals (dist_kws d)) = Some (dist_kw_dict (dist_kws d)).\n"
              "Proof. intros maxt d o H. rewrite gen_get_params_np. split; [apply (np_get_params_params maxt); exact H | apply pdict_of_vals_vals]. Qed.\n")


def translate_set_params() -> str:
    _, cls = _dist_cls()
    return ("".join(_dist_method(cls, n) for n in ("normalize", "is_updateable", "pmf", "set_params"))
            + "Lemma gen_set_params_np : forall K A KW (func : list nat -> list (string * K) -> option vec) (pv : A -> option K)\n"
              "    (lk : KW -> string -> K -> K) o a kw, gen_set_params func pv lk o a kw = np_set_params func pv lk o a kw.\n"
              "Proof. intros. reflexivity. Qed.\n"
              "Lemma gen_set_params_eq : forall W func c o a kw, dist_repr W func c o -> NoDup (map fst (cell_kw c)) ->\n"
              "  exists o', match cell_set_params W c a kw with\n"
              "             | inl c' => gen_set_params func (fun x : option Qc => x) cell_lookup o a kw = (o', inl DValue) /\\ dist_repr W func c' o'\n"
              "             | inr (c', rest) => gen_set_params func (fun x : option Qc => x) cell_lookup o a kw = (o', inr rest) /\\ dist_repr W func c' o'\n"
              "             end.\n"
              "Proof. intros W func c o a kw H Hn. rewrite gen_set_params_np. apply np_set_params_cell; assumption. Qed.\n"
              "Lemma gen_set_params_params : forall maxt d o a kw, pdist_repr maxt d o -> NoDup (map fst (dist_kws d)) ->\n"
              "  exists o', gen_set_params (pfunc d) (@Some val) params_lookup o a kw\n"
              "             = (o', match snd (dist_set_params maxt d a kw) with None => inl DValue | Some a' => inr a' end)\n"
              "             /\\ pdist_repr maxt (fst (dist_set_params maxt d a kw)) o'.\n"
              "Proof. intros maxt d o a kw H Hn. rewrite gen_set_params_np. apply np_set_params_params; assumption. Qed.\n")


# ----------------------------------------------------------------------------------------------------------------------
# Composite.set_distribution_params / get_distribution_params: the leaf branch
# ----------------------------------------------------------------------------------------------------------------------
PARGS, PKWARGS, SPLIT, PDICT, NAMES = "args", "kwargs", "list (string * kwargs)", "pdict", "list string"


class LeafM:
    """the dict `self._distributions` (T-stage -> object) is threaded as `distributions_`, inside a loop body the object
       top level   A, B = unflatten_and_split(KWARGS, expected_keys=self._distributions.keys()) | NAME = {}
                   | for T, D in self._distributions.items(): BODY | if FLAG or not as_dict: NAME = flatten(NAME)
                   | return NAME | return NAME if as_dict else NAME.values()
       loop body   if not D.is_updateable: continue | X = G.copy() | X.update(KW.get(T, {}))
                   | ARGS = D.set_params(*ARGS, **X) | PARAMS[T] = D.get_params(as_flat=FLAG)"""
    ST = "distributions"

    def __init__(self, env: dict, ret_ty: str, const: dict):
        self.env = dict(env)
        self.ret_ty = ret_ty
        self.const = dict(const)
        self.owned = set()
        self.n = 0
        if self.ST in self.env:
            raise Untranslatable(f"a local variable is called {self.ST}")

    def fresh(self) -> str:
        self.n += 1
        return f"x{self.n}"

    @staticmethod
    def bind(st: str, term: str, pat: str, cont: str) -> str:
        return f"match {term} with\n  | ({st}, inl e) => ({st}, inl e)\n  | ({st}, inr {pat}) =>\n  {cont}\n  end"

    def name(self, e, ty) -> str:
        if not (isinstance(e, ast.Name) and self.env.get(e.id) == ty):
            raise Untranslatable(f"a variable of type {ty} expected: {ast.dump(e)[:120]}")
        return g(e.id)

    def flag(self, e) -> str:
        if isinstance(e, ast.Name) and e.id in self.const:
            return self.const[e.id]
        if isinstance(e, ast.Name) and self.env.get(e.id) == BOOL:
            return g(e.id)
        if isinstance(e, ast.UnaryOp) and isinstance(e.op, ast.Not):
            return f"(negb {self.flag(e.operand)})"
        if isinstance(e, ast.BoolOp) and isinstance(e.op, ast.Or):
            return "(" + " || ".join(self.flag(x) for x in e.values) + ")"
        raise Untranslatable(f"flag expression {ast.dump(e)[:160]}")

    def top(self, stmts) -> str:
        st = g(self.ST)
        if not stmts:
            raise Untranslatable("the leaf branch falls through")
        s, rest = stmts[0], stmts[1:]
        if isinstance(s, ast.Return):
            v = s.value
            if rest or v is None:
                raise Untranslatable("code after return / bare return")
            if isinstance(v, ast.IfExp) and isinstance(v.test, ast.Name) and self.const.get(v.test.id) == "true":
                v = v.body
            if not (isinstance(v, ast.Name) and self.env.get(v.id) == self.ret_ty):
                raise Untranslatable(f"return of a variable of type {self.ret_ty} expected")
            return f"({st}, inr {g(v.id)})"
        if isinstance(s, ast.Assign) and len(s.targets) == 1:
            tg, v = s.targets[0], s.value
            if (isinstance(tg, ast.Tuple) and len(tg.elts) == 2 and all(isinstance(x, ast.Name) for x in tg.elts)
                    and isinstance(v, ast.Call) and isinstance(v.func, ast.Name) and v.func.id == "unflatten_and_split"
                    and len(v.args) == 1 and len(v.keywords) == 1 and v.keywords[0].arg == "expected_keys"):
                kw = self.name(v.args[0], PKWARGS)
                k = v.keywords[0].value
                if not (isinstance(k, ast.Call) and not k.args and not k.keywords and _attr_chain(k.func) == ["self", "_distributions", "keys"]):
                    raise Untranslatable("expected_keys is not self._distributions.keys()")
                a, b = (x.id for x in tg.elts)
                if a == b:
                    raise Untranslatable("unflatten_and_split: the two targets coincide")
                self.env[a], self.env[b] = SPLIT, PKWARGS
                return f"let '({g(a)}, {g(b)}) := Params.unflatten_and_split {kw} (map fst {st}) in\n  {self.top(rest)}"
            if isinstance(tg, ast.Name) and isinstance(v, ast.Dict) and not v.keys:
                self.env[tg.id] = PDICT
                return f"let {g(tg.id)} := ([] : pdict) in\n  {self.top(rest)}"
        if (isinstance(s, ast.If) and not s.orelse and len(s.body) == 1 and isinstance(s.body[0], ast.Assign)
                and len(s.body[0].targets) == 1 and isinstance(s.body[0].targets[0], ast.Name)):
            nm, v = s.body[0].targets[0].id, s.body[0].value
            ok = (self.env.get(nm) == PDICT and isinstance(v, ast.Call) and isinstance(v.func, ast.Name) and v.func.id == "flatten"
                  and len(v.args) == 1 and not v.keywords and isinstance(v.args[0], ast.Name) and v.args[0].id == nm)
            if not ok:
                raise Untranslatable("`if FLAG: X = flatten(X)` expected")
            return f"let {g(nm)} := if {self.flag(s.test)} then gen_flatten fuel {g(nm)} [] else {g(nm)} in\n  {self.top(rest)}"
        if isinstance(s, ast.For):
            ok = (not s.orelse and isinstance(s.iter, ast.Call) and not s.iter.args and not s.iter.keywords
                  and _attr_chain(s.iter.func) == ["self", "_distributions", "items"] and isinstance(s.target, ast.Tuple)
                  and len(s.target.elts) == 2 and all(isinstance(x, ast.Name) for x in s.target.elts))
            if not ok:
                raise Untranslatable("loop is not `for T, D in self._distributions.items()`")
            key, obj = (x.id for x in s.target.elts)
            if key in self.env or obj in self.env or key == obj or self.ST in (key, obj):
                raise Untranslatable("loop variables shadow other variables")
            if any(isinstance(n, (ast.Return, ast.Break, ast.Raise, ast.Try, ast.For)) for x in s.body for n in ast.walk(x)):
                raise Untranslatable("return / break / raise / try / for inside the loop")
            if any(isinstance(n, ast.Attribute) and isinstance(n.value, ast.Name) and n.value.id == "self" for x in s.body for n in ast.walk(x)):
                raise Untranslatable("the loop body uses self")
            assigned = _assigned(s.body)
            if {key, obj} & set(assigned):
                raise Untranslatable("the loop variables are assigned in the body")
            carried = [n for n in assigned if n in self.env]
            local = [n for n in assigned if n not in self.env]
            if len(carried) != 1:
                raise Untranslatable(f"loop-carried variables {carried}")
            if ({key, obj} | set(local)) & _reads(rest):
                raise Untranslatable("a variable of the loop body is used after the loop")
            c = carried[0]
            before = dict(self.env)
            self.env[key] = STR
            body = self.body(list(s.body), obj, key, c)
            if self.env[c] != before[c]:
                raise Untranslatable(f"the type of {c} changes in the loop")
            self.env = before
            return self.bind(st, f"py_for_items_d (fun {g(key)} {g(obj)} {g(c)} =>\n  {body}) {st} {g(c)}", g(c), self.top(rest))
        raise Untranslatable(f"statement {type(s).__name__}: {ast.dump(s)[:160]}")

    def body(self, stmts, obj, key, c) -> str:
        o = g(obj)
        if not stmts:
            return f"({o}, inr {g(c)})"
        s, rest = stmts[0], stmts[1:]
        nxt = lambda: self.body(rest, obj, key, c)  # noqa: E731
        # if not D.is_updateable: continue
        if (isinstance(s, ast.If) and not s.orelse and len(s.body) == 1 and isinstance(s.body[0], ast.Continue)
                and isinstance(s.test, ast.UnaryOp) and isinstance(s.test.op, ast.Not)
                and _attr_chain(s.test.operand) == [obj, "is_updateable"]):
            x = self.fresh()
            return self.bind(o, f"is_updateable {o}", x, f"if (negb {x}) then ({o}, inr {g(c)})\n  else\n  {nxt()}")
        if isinstance(s, ast.Assign) and len(s.targets) == 1:
            tg, v = s.targets[0], s.value
            # X = G.copy()
            if (isinstance(tg, ast.Name) and isinstance(v, ast.Call) and not v.args and not v.keywords
                    and isinstance(v.func, ast.Attribute) and v.func.attr == "copy"):
                if tg.id in self.env and self.env[tg.id] != PKWARGS:
                    raise Untranslatable(f"the type of {tg.id} changes")
                t = self.name(v.func.value, PKWARGS)
                self.env[tg.id] = PKWARGS
                self.owned.add(tg.id)
                return f"let {g(tg.id)} := {t} in\n  {nxt()}"
            # ARGS = D.set_params(*ARGS, **X)
            if isinstance(tg, ast.Name) and isinstance(v, ast.Call) and _attr_chain(v.func) == [obj, "set_params"]:
                ok = (len(v.args) == 1 and isinstance(v.args[0], ast.Starred) and len(v.keywords) == 1 and v.keywords[0].arg is None
                      and self.env.get(tg.id) == PARGS)
                if not ok:
                    raise Untranslatable("expected ARGS = D.set_params(*ARGS, **KWARGS)")
                a, kw = self.name(v.args[0].value, PARGS), self.name(v.keywords[0].value, PKWARGS)
                x = self.fresh()
                return self.bind(o, f"set_params {o} {a} {kw}", x, f"let {g(tg.id)} := {x} in\n  {nxt()}")
            # PARAMS[T] = D.get_params(as_flat=FLAG)
            if (isinstance(tg, ast.Subscript) and isinstance(tg.value, ast.Name) and self.env.get(tg.value.id) == PDICT
                    and isinstance(tg.slice, ast.Name) and tg.slice.id == key
                    and isinstance(v, ast.Call) and _attr_chain(v.func) == [obj, "get_params"]):
                if v.args or len(v.keywords) != 1 or v.keywords[0].arg != "as_flat":
                    raise Untranslatable("expected D.get_params(as_flat=FLAG)")
                x, d = self.fresh(), g(tg.value.id)
                return self.bind(o, f"get_params {o} {self.flag(v.keywords[0].value)}", x,
                                 f"let {d} := kw_set [{g(key)}] (Node {x}) {d} in\n  {nxt()}")
        # X.update(KW.get(T, {}))
        if (isinstance(s, ast.Expr) and isinstance(s.value, ast.Call) and isinstance(s.value.func, ast.Attribute)
                and s.value.func.attr == "update" and isinstance(s.value.func.value, ast.Name)
                and len(s.value.args) == 1 and not s.value.keywords):
            x = s.value.func.value.id
            if self.env.get(x) != PKWARGS or x not in self.owned:
                raise Untranslatable(f"{x}.update(...): not a fresh copy of a flat dict")
            a = s.value.args[0]
            ok = (isinstance(a, ast.Call) and isinstance(a.func, ast.Attribute) and a.func.attr == "get" and not a.keywords
                  and len(a.args) == 2 and isinstance(a.args[0], ast.Name) and a.args[0].id == key
                  and isinstance(a.args[1], ast.Dict) and not a.args[1].keys)
            if not ok:
                raise Untranslatable("update with something else than KW.get(T, {})")
            sp = self.name(a.func.value, SPLIT)
            return f"let {g(x)} := kw_update (sub_kwargs {g(key)} {sp}) {g(x)} in\n  {nxt()}"
        raise Untranslatable(f"loop statement {type(s).__name__}: {ast.dump(s)[:160]}")


def _leaf_branch(fn):
    """the statements of the method with `if self._is_distribution_leaf: A [else: B]` replaced by A"""
    st = _strip_doc(fn.body)
    out, seen = [], 0
    for s in st:
        if isinstance(s, ast.If) and _attr_chain(s.test) == ["self", "_is_distribution_leaf"]:
            seen += 1
            out.extend(s.body)
            if s.body and isinstance(s.body[-1], ast.Return):
                break                         # what follows is the branch for composites with children
        else:
            out.append(s)
    if seen != 1:
        raise Untranslatable("expected exactly one `if self._is_distribution_leaf:`")
    return out


def _composite():
    tree, _ = _dist_cls()
    for f in ("unflatten_and_split", "flatten"):
        if not any(isinstance(n, ast.ImportFrom) and n.module == "lymph.utils" and any(a.name == f and a.asname is None for a in n.names)
                   for n in tree.body):
            raise Untranslatable(f"{f} is not imported from lymph.utils")
    return _cls(tree, "Composite")


def translate_leaf_set() -> str:
    fn = _method(_composite(), "set_distribution_params", None)
    _params(fn, ["self"], vararg="args", kwarg="kwargs")
    m = LeafM({"args": PARGS, "kwargs": PKWARGS}, PARGS, {})
    body = m.top(_leaf_branch(fn))
    return ("Definition gen_leaf_set_distribution_params {O} (is_updateable : O -> O * dres bool)\n"
            "    (set_params : O -> args -> kwargs -> O * dres args)\n"
            "    (distributions_ : list (string * O)) (args_ : args) (kwargs_ : kwargs) : list (string * O) * dres args :=\n  "
            + body + ".\n"
            "Lemma gen_leaf_set_distribution_params_np : forall O (iu : O -> O * dres bool) (sp : O -> args -> kwargs -> O * dres args) ds a kw,\n"
            "  gen_leaf_set_distribution_params iu sp ds a kw = np_leaf_set_distribution_params iu sp ds a kw.\n"
            "Proof. intros. reflexivity. Qed.\n"
            "Lemma gen_leaf_set_distribution_params_eq : forall u objs a kw, dists_repr (u_maxt u) (u_dists u) objs -> dists_nodup (u_dists u) ->\n"
            "  exists objs', gen_leaf_set_distribution_params pobj_is_updateable pobj_set_params objs a kw\n"
            "                = (objs', match snd (u_set_distribution_params u a kw) with None => inl DValue | Some a' => inr a' end)\n"
            "                /\\ dists_repr (u_maxt u) (u_dists (fst (u_set_distribution_params u a kw))) objs'.\n"
            "Proof. intros u objs a kw H Hn. rewrite gen_leaf_set_distribution_params_np. apply np_leaf_set_distribution_params_uni; assumption. Qed.\n")


def translate_leaf_get() -> str:
    from .translate5 import _flatten_def, _utils_tree
    fn = _method(_composite(), "get_distribution_params", None)
    _params(fn, ["self", "as_dict", "as_flat"], [True, True])
    m = LeafM({"as_flat": BOOL}, PDICT, {"as_dict": "true"})
    body = m.top(_leaf_branch(fn))
    return (_flatten_def(_utils_tree("flatten"))
            + "Definition gen_leaf_get_distribution_params {O} (fuel : nat) (is_updateable : O -> O * dres bool)\n"
            "    (get_params : O -> bool -> O * dres pdict)\n"
            "    (distributions_ : list (string * O)) (as_flat_ : bool) : list (string * O) * dres pdict :=\n  "
            + body + ".\n"
            "Lemma gen_leaf_get_distribution_params_np : forall O fuel (iu : O -> O * dres bool) (gp : O -> bool -> O * dres pdict) ds fl,\n"
            "  gen_leaf_get_distribution_params fuel iu gp ds fl = np_leaf_get_distribution_params fuel iu gp ds fl.\n"
            "Proof. intros. reflexivity. Qed.\n"
            "Lemma gen_leaf_get_distribution_params_eq : forall fuel maxt ds objs fl, dists_repr maxt ds objs -> dists_nodup ds ->\n"
            "  gen_leaf_get_distribution_params (S (S fuel)) pobj_is_updateable pobj_get_params objs fl = (objs, inr (dists_get_params ds fl)).\n"
            "Proof. intros fuel maxt ds objs fl H Hn. rewrite gen_leaf_get_distribution_params_np. apply (np_leaf_get_distribution_params_eq fuel maxt); assumption. Qed.\n")


HEADER = ("(* GENERATED on every run by harness/translate9.py from the Python source of lymph; do not edit *)\n"
          "From LymphModel Require Import Base States Linalg Graph Transition Observation Dist Unilateral Models DistModel Params NumpyParams NumpyDist.\n"
          "Local Open Scope nat_scope.\nLocal Open Scope string_scope.\nLocal Open Scope list_scope.\n\n")

PIECES = {
    "dist_normalize": (translate_normalize, "gen_normalize_eq", "lymph/diagnosis_times.py Distribution.normalize"),
    "dist_is_updateable": (translate_is_updateable, "gen_is_updateable_eq", "lymph/diagnosis_times.py Distribution.is_updateable"),
    "dist_max_time": (translate_max_time, "gen_max_time_set_eq", "lymph/diagnosis_times.py Distribution.max_time (setter)"),
    "dist_pmf": (translate_pmf, ["gen_pmf_eq", "gen_pmf_params"], "lymph/diagnosis_times.py Distribution.pmf (normalize)"),
    "dist_get_params": (translate_get_params, ["gen_get_params_eq", "gen_get_params_params"],
                        "lymph/diagnosis_times.py Distribution.get_params (is_updateable)"),
    "dist_set_params": (translate_set_params, ["gen_set_params_eq", "gen_set_params_params"],
                        "lymph/diagnosis_times.py Distribution.set_params (pmf, normalize, is_updateable)"),
    "leaf_set_dist_params": (translate_leaf_set, "gen_leaf_set_distribution_params_eq",
                             "lymph/diagnosis_times.py Composite.set_distribution_params (leaf branch)"),
    "leaf_get_dist_params": (translate_leaf_get, "gen_leaf_get_distribution_params_eq",
                             "lymph/diagnosis_times.py Composite.get_distribution_params (leaf branch, with utils.flatten)"),
}


def generate(piece: str) -> str:
    fn, lemma, _ = PIECES[piece]
    text = fn()
    lemmas = [lemma] if isinstance(lemma, str) else list(lemma)
    return HEADER + text + "".join(f"Print Assumptions {x}.\n" for x in lemmas)


if __name__ == "__main__":
    import sys
    for p in (sys.argv[1:] or PIECES):
        print(generate(p))
