"""Generators. Every random choice comes from the rng passed in."""
from __future__ import annotations

import itertools
import random

LNL_NAMES = ["I", "II", "III", "IV"]
TUMOR_NAMES = ["T", "U"]
MOD_NAMES = ["CT", "MRI", "PET", "path"]
TSTAGES = ["early", "late"]


def gen_value(rng: random.Random) -> float:
    r = rng.random()
    if r < 0.2:
        return float(rng.choice([0, 1]))
    if r < 0.85:
        return rng.randint(0, 16) / 16.0
    if r < 0.97:
        return rng.randint(1, 1023) / 1024.0     # off-grid but short dyadic (cheap exact arithmetic)
    return rng.random()                           # full 53-bit double (small quota: big rationals are slow)


def gen_graph(rng: random.Random, max_lnls: int = 3, base: int | None = None, max_tumors: int = 2,
              p_arc: float = 0.6) -> dict:
    """A random lymph graph: DAG over LNLs (order independent of listing), tumour arcs, shuffled listing."""
    if base is None:
        base = rng.choice([2, 2, 3])
    n = rng.randint(1, max_lnls)
    lnl_names = rng.sample(LNL_NAMES, n)
    nt = 1 if rng.random() < 0.7 else min(2, max_tumors)
    tumors = TUMOR_NAMES[:nt]
    topo = lnl_names[:]
    rng.shuffle(topo)
    conns = {name: [] for name in tumors + lnl_names}
    for t in tumors:
        for l in lnl_names:
            if rng.random() < 0.7:
                conns[t].append(l)
    if not any(conns[t] for t in tumors):
        conns[tumors[0]].append(rng.choice(lnl_names))
    for i, a in enumerate(topo):
        for b in topo[i + 1:]:
            if rng.random() < p_arc:
                conns[a].append(b)
    for k in conns:
        rng.shuffle(conns[k])
    entries = [["tumor", t, conns[t]] for t in tumors] + [["lnl", l, conns[l]] for l in lnl_names]
    rng.shuffle(entries)
    return {"base": base, "entries": entries}


def graph_dict(gspec: dict) -> dict:
    return {(k, n): list(c) for k, n, c in gspec["entries"]}


def lnls_of(gspec: dict) -> list[str]:
    return [n for k, n, _ in gspec["entries"] if k == "lnl"]


def tumors_of(gspec: dict) -> list[str]:
    return [n for k, n, _ in gspec["entries"] if k == "tumor"]


def edge_param_names(gspec: dict) -> list[str]:
    """Parameter names in creation order of the edges (= Representation.get_params order)."""
    kinds = {n: k for k, n, _ in gspec["entries"]}
    tri = gspec["base"] == 3
    names = []
    for k, n, cs in gspec["entries"]:
        if k == "lnl" and tri:
            names.append(f"{n}_growth")
        for c in cs:
            names.append(f"{n}to{c}_spread")
            if tri and k == "lnl":
                names.append(f"{n}to{c}_micro")
    return names


def gen_edge_params(rng: random.Random, gspec: dict) -> dict[str, float]:
    return {name: gen_value(rng) for name in edge_param_names(gspec)}


def gen_modalities(rng: random.Random, lo: int = 0, hi: int = 2) -> list:
    k = rng.randint(lo, hi)
    names = rng.sample(MOD_NAMES, k)
    mods = []
    for nm in names:
        def sv():
            r = rng.random()
            if r < 0.15:
                return 1.0
            if r < 0.25:
                return 0.5
            if r < 0.3:
                return 0.0
            if r < 0.85:
                return rng.randint(8, 16) / 16.0
            if r < 0.97:
                return rng.randint(1, 1023) / 1024.0
            return rng.random()
        sp_, sn_ = sv(), sv()
        if rng.random() < 0.1:
            sn_ = sp_                      # equal specificity and sensitivity (a coincidence that hides field mix-ups)
        mods.append([nm, sp_, sn_, rng.choice(["clinical", "pathological"])])
    if len(mods) >= 2 and rng.random() < 0.15:
        # two modalities of different kind sharing specificity AND sensitivity (anything keyed on (spec, sens) mixes them up)
        mods[1][1], mods[1][2] = mods[0][1], mods[0][2]
        mods[1][3] = "clinical" if mods[0][3] == "pathological" else "pathological"
    return mods


def gen_dist(rng: random.Random, max_time: int) -> dict:
    r = rng.random()
    if r < 0.6:
        w = [rng.choice([0, 1, 2, 3, 5]) for _ in range(max_time + 1)]
        if sum(w) == 0:
            w[rng.randrange(len(w))] = 1
        return {"frozen": w}
    if r < 0.85:
        return {"fam": 0, "kw": {"p": gen_value(rng)}}
    return {"fam": 1, "kw": {"a": rng.randint(0, 8) / 4.0, "b": rng.randint(1, 8) / 4.0}}


def gen_dists(rng: random.Random, max_time: int, stages=None) -> dict:
    stages = stages or TSTAGES
    k = rng.choice([1, 2, 2])
    chosen = rng.sample(stages, min(k, len(stages)))
    return {t: gen_dist(rng, max_time) for t in chosen}


def gen_finding(rng: random.Random):
    return rng.choice([True, False, None])


def gen_patient(rng: random.Random, mod_names: list[str], lnl_names: list[str], sides=("ipsi",),
                with_ext: bool = False) -> dict:
    p = {"t": rng.choice([0, 1, 2, 3, 4]), "find": {}}
    for m in mod_names:
        p["find"][m] = {}
        for sd in sides:
            p["find"][m][sd] = {l: gen_finding(rng) for l in lnl_names}
    if with_ext:
        p["ext"] = rng.choice([True, False, None])
        p["central"] = (rng.random() < 0.3) if p["ext"] is True else (None if rng.random() < 0.2 else False)
    return p


def is_nontrivial_params(params: dict[str, float]) -> bool:
    return any(0.0 < v < 1.0 for v in params.values())
