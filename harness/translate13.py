"""Source-to-Gallina translator, thirteenth part: the SAMPLERS of lymph, as functions of the stream of uniform numbers.

On every run the functions

  utils.draw_diagnosis              -> gen_draw_diagnosis        (rows of possible_diagnosis at Sampling.draw_diagnosis_with)
  Distribution.draw_diag_times      -> gen_draw_diag_times       (num=None: Sampling.draw_diag_time; num=n: n of them in order)
  Unilateral.draw_diagnosis         -> gen_uni_draw_diagnosis    (rows of obs_list at Sampling.draw_diagnosis)
  Unilateral.draw_patients          -> gen_uni_draw_patients     (the table of Sampling.draw_patients_uni / table_uni)
  Bilateral.draw_patients           -> gen_bi_draw_patients      (the table of Sampling.draw_patients_bi / table_bi)

are parsed with `ast` from $LYMPH_REPO/lymph/{utils,diagnosis_times,models/unilateral,models/bilateral}.py and re-generated
as Gallina terms over the primitives of coq/theories/NumpySampling.v.  The generated file proves (1) by `reflexivity`
(conversion) that the generated term is the hand-written line-by-line definition `np_<function>` of NumpySampling.v and (2)
with the static theorem `np_<function>_model` that it equals the model of coq/theories/Sampling.v: the value AND the state
in which the generator is left (the stream minus the uniforms consumed, in the order the code consumes them).  A piece that
calls another translated function re-generates that function as well, in the same file (`self.state_dist_evo()` through
harness/translate3.py).

Hypotheses of the lemmas: the graph(s) are well-formed (`wf_graphb`, where a transition / observation matrix is involved),
the stream is long enough (`length times <= length xs`, `3 * num <= length xs`, `4 * num <= length xs`: the real stream
never ends) and the indices the MODEL draws are in range (`o < length possible_diagnosis`, `t <= max_time`: the predicates
`uni_draws_in_range` / `bi_draws_in_range` on the model's result); the theorems `uni_draw_diagnosis_in_range`,
`uni_draws_in_range_ok`, `bi_draws_in_range_ok` of NumpySampling.v derive the latter from the hypotheses of the C16
theorems (`wf_uni` / `wf_bilateral`, `uni_in_unit`, `stages_ok`, every uniform in [0, 1)), and `np_uni_draw_patients_C16`,
`np_bi_draw_patients_C16` restate the two samplers under those hypotheses alone.  `uni_frame_table_uni` reads the unilateral
table back into `Sampling.table_uni` (by position: `uni_labels_blocks` says that the labels come in one block per modality).

Fail-closed: every statement / expression form not listed in `Samp` raises `Untranslatable`.

What the translator itself ASSUMES (trusted reading; everything else is proved)
  * THE GENERATOR.  `rng` is a `numpy.random.Generator`; its state is the stream of uniforms on [0, 1) it will produce, next
    one first (`list Qc`, threaded through the statements as the Gallina variable `rng`; a function that receives the
    generator returns `(value, rng)`).  `rng.choice(a, p=p)` consumes ONE uniform u and returns
    `a[(cumsum(p) / sum(p)).searchsorted(u, side="right")]` = `nth (Sampling.choice p u) a`; `rng.choice(a, p=p, size=n)`
    does this n times in order (numpy draws `random(size)`, which fills the array in order from the same stream); with
    `size=None` the result is a scalar (`np_sized`).  numpy's checks (len(a) = len(p), p >= 0, sum p = 1 within a tolerance)
    raise ValueError and are outside the model, as is floating-point rounding (`sum(stage_dist) != 1.0` is exact here).
    `if rng is None: rng = np.random.default_rng(seed)` and `rng = rng or np.random.default_rng(seed)` are accepted as the
    first statements and dropped: whichever generator is used, `rng` denotes ITS stream (a Generator object is truthy).
    A callee must be handed the generator explicitly (`rng=rng`); a call without it would seed a fresh generator and is
    rejected, as is passing `seed`.  Statements are evaluated in order and at most one generator-consuming call occurs per
    statement (as the whole right-hand side, the whole returned expression or the element of a list comprehension, whose
    elements are evaluated in order: `py_comp_rng`).
  * numpy: `M[idx]` with a list / array of integers = the rows in that order (`np_take_rows`; an index out of range gives the
    empty row, numpy raises IndexError), `A @ B` on 2-D arrays = `NumpyPosterior.np_matmul` (width = number of columns of
    B), iterating a 2-D array yields its rows, `np.arange(len(X))` = 0 .. len(X)-1, `X.astype(bool)` on an integer array =
    "non-zero", `sum(x)` = the exact sum, `np.array(x) / s` = element-wise exact division, `np.concatenate([A, B], axis=1)`
    = the rows of A and B side by side.
  * pandas (only the assembly of the returned table): `pd.MultiIndex.from_product([A, B, C])` = the labels (a, b, c) in
    lexicographic order, last level fastest; `pd.DataFrame(data, columns=cols)` = the table whose rows are the rows of the
    2-D boolean array `data`, column k carrying the label `cols[k]` (pandas raises unless the widths agree; they do:
    obs_list has one column per (modality, LNL)); `frame[key] = values` adds a column of strings under the label `key`
    (`key` is not among the labels: no modality is called "tumor" with an LNL "t_stage") without touching the others;
    `frame.reorder_levels(order=[1, 0, 2], axis="columns")` swaps the first two components of every label and moves no
    data; `frame.sort_index(axis="columns", level=0)` permutes labelled columns together with their labels: it is NOT
    interpreted (`pd_sort_index_columns` is a parameter of the generated definition; the lemma holds for every function put
    there).  `RAW_T_COL` is the module constant of unilateral.py, checked to be ("tumor", "1", "t_stage").
  * lymph objects.  In `Distribution.draw_diag_times`: `self.support`, `self.pmf` are the parameters `support : list nat`,
    `pmf : vec` (`pmf` does not raise: the model, Sampling.stage_pmf, puts [] for a distribution whose parametric function
    raises, which cannot happen after the constructor / set_params, C18).  In `Unilateral`: `self.state_dist_evo()` is the
    translated method (translate3), `self.observation_matrix()` / `self.obs_list` are pure and are the parameters
    `observation_matrix : mat`, `obs_list : list state` (tied to the source by pieces observation_matrix / obs_list of
    translate8); `self.get_t_stages("distributions")` / `self.t_stages` = `t_stages`, the keys of the dict of distributions;
    `self.get_all_distributions()[T]` / `self.get_distribution(T)` is the Distribution stored under T, read as
    (`dist_support T`, `dist_pmf T`), instantiated with np.arange(max_time + 1) and the model's pmf;
    `list(self.get_all_modalities().keys())` = `mod_keys`, `list(self.graph.lnls.keys())` = `lnl_keys`.
    In `Bilateral`: `self.ipsi` / `self.contra` are Unilateral instances, `self.SIDE.draw_diagnosis(...)` is the translated
    Unilateral method on the parameters of that side, `self.ipsi.graph.lnls` the ipsilateral LNLs.
    Keyword defaults are read from the `def` line and must be the expected ones; `**_kwargs` is unused.
  * shapes fit and Python ints used as sizes / indices are naturals.
"""
from __future__ import annotations

import ast

from . import translate3 as t3
from .translate import Untranslatable, _func, _src, _strip_doc
from .translate2 import _attr_chain
from .translate3 import _is_const

NAT, Q, VEC, MAT, STR, LNAT, LSTR, NMAT, BMAT, ONAT, LABELS, LABEL, FRAME, DISTS, DIST = (
    "nat", "Qc", "vec", "mat", "string", "list nat", "list string", "list (list nat)", "list (list bool)", "option nat",
    "list label", "label", "np_frame", "dict of distributions", "distribution")
LIST_OF = {NAT: LNAT, STR: LSTR}
DEFAULT = {LNAT: ("0%nat", NAT), LSTR: ('""%string', STR)}      # element default and type of rng.choice(a=...)

CTX_TY = {"transition_matrix": "mat", "state_list": "list state", "max_time": "nat", "observation_matrix": "mat",
          "obs_list": "list state", "support": "list nat", "pmf": "vec", "t_stages": "list string",
          "dist_support": "string -> list nat", "dist_pmf": "string -> vec", "mod_keys": "list string",
          "lnl_keys": "list string", "pd_sort_index_columns": "np_frame -> np_frame"}
UD = ["transition_matrix", "state_list", "max_time", "observation_matrix", "obs_list"]
for _side in ("ipsi", "contra"):
    for _c in UD:
        CTX_TY[f"{_side}_{_c}"] = CTX_TY[_c]
BI_UD = {s: [f"{s}_{c}" for c in UD] for s in ("ipsi", "contra")}
_RNG_SIG = [("rng", "None"), ("seed", "42")]

# function -> where it lives, its generated name, context parameters (readings of `self`), python signature, argument
# types, result type (a type, or ("sized", element type, name of the size argument))
FUNCS = {
    "utils.draw_diagnosis": dict(
        file="lymph/utils.py", cls=None, name="draw_diagnosis", gen="gen_draw_diagnosis", ctx=[],
        sig=[("diagnosis_times", None), ("state_evolution", None), ("observation_matrix", None),
             ("possible_diagnosis", None)] + _RNG_SIG, kwargs=None,
        args={"diagnosis_times": LNAT, "state_evolution": MAT, "observation_matrix": MAT, "possible_diagnosis": NMAT},
        ret=BMAT),
    "Distribution.draw_diag_times": dict(
        file="lymph/diagnosis_times.py", cls="Distribution", name="draw_diag_times", gen="gen_draw_diag_times",
        ctx=["support", "pmf"], sig=[("num", "None")] + _RNG_SIG, kwargs=None, args={"num": ONAT}, ret=("sized", NAT, "num")),
    "Unilateral.draw_diagnosis": dict(
        file="lymph/models/unilateral.py", cls="Unilateral", name="draw_diagnosis", gen="gen_uni_draw_diagnosis", ctx=UD,
        sig=[("diag_times", None)] + _RNG_SIG, kwargs=None, args={"diag_times": LNAT}, ret=BMAT),
    "Unilateral.draw_patients": dict(
        file="lymph/models/unilateral.py", cls="Unilateral", name="draw_patients", gen="gen_uni_draw_patients",
        ctx=UD + ["t_stages", "dist_support", "dist_pmf", "mod_keys", "lnl_keys"],
        sig=[("num", None), ("stage_dist", None)] + _RNG_SIG, kwargs="_kwargs", args={"num": NAT, "stage_dist": VEC}, ret=FRAME),
    "Bilateral.draw_patients": dict(
        file="lymph/models/bilateral.py", cls="Bilateral", name="draw_patients", gen="gen_bi_draw_patients",
        ctx=BI_UD["ipsi"] + BI_UD["contra"] + ["t_stages", "dist_support", "dist_pmf", "mod_keys", "lnl_keys",
                                               "pd_sort_index_columns"],
        sig=[("num", None), ("stage_dist", None)] + _RNG_SIG, kwargs="_kwargs", args={"num": NAT, "stage_dist": VEC}, ret=FRAME),
}


def _signature(fn: ast.FunctionDef, method: bool):
    """-> ([(name, default repr | None)], name of **kwargs | None)"""
    a = fn.args
    if a.vararg or a.kwonlyargs or a.posonlyargs:
        raise Untranslatable(f"{fn.name}: signature")
    names = [x.arg for x in a.args]
    if method:
        if not names or names[0] != "self":
            raise Untranslatable(f"{fn.name}: not a method")
        names = names[1:]
    dflt = [None] * (len(names) - len(a.defaults)) + [repr(ast.literal_eval(d)) if isinstance(d, ast.Constant) else "?"
                                                       for d in a.defaults]
    return list(zip(names, dflt)), (a.kwarg.arg if a.kwarg else None)


def _tree(rel: str):
    return ast.parse(_src(rel))


def _function(key: str):
    """the FunctionDef of FUNCS[key]: defined once in its scope, undecorated, its signature checked"""
    f = FUNCS[key]
    tree = _tree(f["file"])
    fn = _func(tree, f["name"], f["cls"])
    scope = tree.body if f["cls"] is None else next(n.body for n in tree.body if isinstance(n, ast.ClassDef) and n.name == f["cls"])
    if sum(isinstance(n, (ast.FunctionDef, ast.AsyncFunctionDef)) and n.name == f["name"] for n in scope) != 1:
        raise Untranslatable(f"{key} is defined more than once")
    if fn.decorator_list:
        raise Untranslatable(f"{key} is decorated")
    sig, kw = _signature(fn, f["cls"] is not None)
    if sig != f["sig"] or kw != f["kwargs"]:
        raise Untranslatable(f"signature of {key}: {sig} **{kw} (expected {f['sig']} **{f['kwargs']})")
    if kw is not None and any(isinstance(n, ast.Name) and n.id == kw for s in fn.body for n in ast.walk(s)):
        raise Untranslatable(f"{key}: **{kw} is used")
    return tree, fn


def _raw_t_col() -> str:
    """the module constant RAW_T_COL of unilateral.py as a label"""
    tree = _tree("lymph/models/unilateral.py")
    found = [s for s in tree.body if isinstance(s, ast.Assign) and len(s.targets) == 1 and isinstance(s.targets[0], ast.Name)
             and s.targets[0].id == "RAW_T_COL"]
    if len(found) != 1:
        raise Untranslatable("RAW_T_COL is not assigned exactly once at module level")
    return _label(found[0].value)


def _label(e) -> str:
    if isinstance(e, ast.Tuple) and len(e.elts) == 3 and all(isinstance(x, ast.Constant) and isinstance(x.value, str)
                                                             and '"' not in x.value for x in e.elts):
        return "(" + ", ".join(f'"{x.value}"%string' for x in e.elts) + ")"
    raise Untranslatable(f"column label {ast.dump(e)[:120]}")


class Samp:
    """statements   (first) if rng is None: rng = np.random.default_rng(seed) | rng = rng or np.random.default_rng(seed)
                    | if sum(X) != 1.0: [warnings.warn(...)] X = np.array(X) / sum(X)
                    | NAME = PURE | NAME = DRAW | FRAME[LABEL] = NAME | return PURE | return DRAW
       DRAW         rng.choice(a=A, p=P [, size=N]) (a may be positional) | [DRAW for V in PURE]
                    | D.draw_diag_times(rng=rng) with D = DISTS[T] or self.get_distribution(T)
                    | self.draw_diagnosis(TIMES, rng=rng) | self.ipsi.draw_diagnosis(...) | self.contra.draw_diagnosis(...)
       PURE         names | M[IDX] | A @ B | np.arange(len(X)) | X.astype(bool) | np.concatenate([A, B], axis=1)
                    | the readings of `self` listed in the module docstring | [string literals] | RAW_T_COL / a tuple of three
                    string literals | pd.MultiIndex.from_product([A, B, C]) | pd.DataFrame(X, columns=C)
                    | F.reorder_levels(order=[1, 0, 2], axis="columns") | F.sort_index(axis="columns", level=0)"""

    RESERVED = t3.Pipe.RESERVED | set(CTX_TY) | {
        "rng", "rng_next", "choice", "label", "hd", "tl", "nth", "map", "map2", "seq", "fst", "snd", "negb", "Qc_eqb",
        "mk_frame", "fr_cols", "fr_rows", "fr_extra", "firstn", "skipn"}

    def __init__(self, key: str):
        self.key = key
        self.f = FUNCS[key]
        self.cls = self.f["cls"]
        self.env = {n: (n, ty) for n, ty in self.f["args"].items()}
        self.calls = []                  # translated functions this body calls (keys of FUNCS)
        self.t3calls = []                # translated methods of translate3 this body calls

    # ---- helpers ---------------------------------------------------------------------------------------------------
    def need(self, name: str) -> str:
        if name not in self.f["ctx"]:
            raise Untranslatable(f"{self.key} uses `{name}`, which is not among the things it reads in the model")
        return name

    def binder(self, name: str) -> str:
        if name in self.RESERVED or name.startswith(("np_", "gen_", "py_", "pd_")) or not name.isidentifier() or not name.isascii():
            raise Untranslatable(f"{self.key}: variable name `{name}` clashes with a name of the generated term")
        return name

    def ty_of(self, e):
        return self.env.get(e.id, (None, None))[1] if isinstance(e, ast.Name) else None

    def want(self, e, ty: str) -> str:
        t, have = self.expr(e)
        if have != ty:
            raise Untranslatable(f"{self.key}: expected a {ty}, found a {have}: {ast.dump(e)[:120]}")
        return t

    @staticmethod
    def is_rng(e) -> bool:
        return isinstance(e, ast.Name) and e.id == "rng"

    def side_ctx(self, side):
        """context parameters of the Unilateral instance `self` (side None) / `self.ipsi` / `self.contra`"""
        names = UD if side is None else BI_UD[side]
        return [self.need(n) for n in names]

    # ---- pure expressions --------------------------------------------------------------------------------------------
    def str_list(self, e) -> str:
        """a list of strings: a name or a list of literals"""
        if isinstance(e, ast.List):
            if e.elts and all(isinstance(x, ast.Constant) and isinstance(x.value, str) and '"' not in x.value for x in e.elts):
                return "[" + "; ".join(f'"{x.value}"%string' for x in e.elts) + "]"
            raise Untranslatable(f"{self.key}: list {ast.dump(e)[:120]}")
        return self.want(e, LSTR)

    def expr(self, e):
        if isinstance(e, ast.Name):
            if e.id in self.env:
                return self.env[e.id]
            if e.id == "RAW_T_COL" and self.cls == "Unilateral":
                return (_raw_t_col(), LABEL)
        if isinstance(e, ast.Tuple):
            return (_label(e), LABEL)
        if isinstance(e, ast.List):
            return (self.str_list(e), LSTR)
        ch = _attr_chain(e)
        if ch == ["self", "support"] and self.cls == "Distribution":
            return (self.need("support"), LNAT)
        if ch == ["self", "pmf"] and self.cls == "Distribution":
            return (self.need("pmf"), VEC)
        if ch == ["self", "obs_list"] and self.cls == "Unilateral":
            return (self.need("obs_list"), NMAT)
        if ch == ["self", "t_stages"] and self.cls == "Bilateral":
            return (self.need("t_stages"), LSTR)
        # M[IDX]
        if isinstance(e, ast.Subscript) and not isinstance(e.slice, (ast.Tuple, ast.Slice)):
            m, ty = self.expr(e.value)
            if ty in (MAT, NMAT):
                return (f"(np_take_rows {m} {self.want(e.slice, LNAT)})", ty)
            if ty == DISTS:
                return (self.want(e.slice, STR), DIST)
            raise Untranslatable(f"{self.key}: subscript of a {ty}")
        if isinstance(e, ast.BinOp) and isinstance(e.op, ast.MatMult):
            a = self.want(e.left, MAT)
            b = self.want(e.right, MAT)
            return (f"(np_matmul {a} {b})", MAT)
        if isinstance(e, ast.Call):
            f, fch = e.func, _attr_chain(e.func)
            # np.arange(len(X))
            if fch == ["np", "arange"] and len(e.args) == 1 and not e.keywords:
                n = e.args[0]
                if isinstance(n, ast.Call) and isinstance(n.func, ast.Name) and n.func.id == "len" and len(n.args) == 1 and not n.keywords:
                    x, ty = self.expr(n.args[0])
                    if ty in (NMAT, MAT, LNAT, LSTR):
                        return (f"(np_arange (length {x}))", LNAT)
                raise Untranslatable(f"{self.key}: np.arange argument")
            # X.astype(bool)
            if isinstance(f, ast.Attribute) and f.attr == "astype" and len(e.args) == 1 and not e.keywords \
                    and isinstance(e.args[0], ast.Name) and e.args[0].id == "bool":
                return (f"(np_astype_bool {self.want(f.value, NMAT)})", BMAT)
            # np.concatenate([A, B], axis=1)
            if fch == ["np", "concatenate"] and len(e.args) == 1 and isinstance(e.args[0], ast.List) and len(e.args[0].elts) == 2 \
                    and len(e.keywords) == 1 and e.keywords[0].arg == "axis" and _is_const(e.keywords[0].value, 1):
                a, b = (self.want(x, BMAT) for x in e.args[0].elts)
                return (f"(np_concat1 {a} {b})", BMAT)
            # readings of self
            if self.cls == "Unilateral":
                if fch == ["self", "state_dist_evo"] and not e.args and not e.keywords:
                    gen, ctx = t3.METHODS["state_dist_evo"][:2]
                    if "state_dist_evo" not in self.t3calls:
                        self.t3calls.append("state_dist_evo")
                    return (f"({gen} {' '.join(self.need(c) for c in ctx)})", MAT)
                if fch == ["self", "observation_matrix"] and not e.args and not e.keywords:
                    return (self.need("observation_matrix"), MAT)
                if fch == ["self", "get_t_stages"] and len(e.args) == 1 and not e.keywords and _is_const(e.args[0], "distributions"):
                    return (self.need("t_stages"), LSTR)
            if self.cls in ("Unilateral", "Bilateral"):
                if fch == ["self", "get_all_distributions"] and not e.args and not e.keywords:
                    self.need("dist_pmf")
                    return ("", DISTS)
                if fch == ["self", "get_distribution"] and len(e.args) == 1 and not e.keywords:
                    self.need("dist_pmf")
                    return (self.want(e.args[0], STR), DIST)
                # list(D.keys())
                if isinstance(f, ast.Name) and f.id == "list" and len(e.args) == 1 and not e.keywords:
                    k = e.args[0]
                    if isinstance(k, ast.Call) and not k.args and not k.keywords and isinstance(k.func, ast.Attribute) and k.func.attr == "keys":
                        d = k.func.value
                        if isinstance(d, ast.Call) and not d.args and not d.keywords and _attr_chain(d.func) == ["self", "get_all_modalities"]:
                            return (self.need("mod_keys"), LSTR)
                        lnls = ["self", "graph", "lnls"] if self.cls == "Unilateral" else ["self", "ipsi", "graph", "lnls"]
                        if _attr_chain(d) == lnls:
                            return (self.need("lnl_keys"), LSTR)
                    raise Untranslatable(f"{self.key}: list(...) of {ast.dump(k)[:120]}")
            # pandas
            if fch == ["pd", "MultiIndex", "from_product"] and len(e.args) == 1 and not e.keywords \
                    and isinstance(e.args[0], ast.List) and len(e.args[0].elts) == 3:
                a, b, c = (self.str_list(x) for x in e.args[0].elts)
                return (f"(pd_from_product {a} {b} {c})", LABELS)
            if fch == ["pd", "DataFrame"] and len(e.args) == 1 and len(e.keywords) == 1 and e.keywords[0].arg == "columns":
                return (f"(pd_DataFrame {self.want(e.args[0], BMAT)} {self.want(e.keywords[0].value, LABELS)})", FRAME)
            if isinstance(f, ast.Attribute) and f.attr in ("reorder_levels", "sort_index") and not e.args:
                fr = self.want(f.value, FRAME)
                kw = {k.arg: k.value for k in e.keywords}
                if len(kw) != len(e.keywords) or not _is_const(kw.get("axis"), "columns"):
                    raise Untranslatable(f"{self.key}: {f.attr} arguments")
                if f.attr == "reorder_levels" and set(kw) == {"order", "axis"} and isinstance(kw["order"], ast.List) \
                        and [getattr(x, "value", None) for x in kw["order"].elts] == [1, 0, 2] \
                        and all(type(x.value) is int for x in kw["order"].elts):
                    return (f"(pd_reorder_102 {fr})", FRAME)
                if f.attr == "sort_index" and set(kw) == {"axis", "level"} and _is_const(kw["level"], 0):
                    return (f"({self.need('pd_sort_index_columns')} {fr})", FRAME)
                raise Untranslatable(f"{self.key}: {f.attr} arguments")
        raise Untranslatable(f"{self.key}: expression {ast.dump(e)[:200]}")

    # ---- generator-consuming expressions -----------------------------------------------------------------------------
    def rng_kw(self, call: ast.Call, what: str):
        """the keyword arguments of a call that must hand over the generator: `rng=rng` present, no `seed`"""
        kw = {}
        for k in call.keywords:
            if k.arg is None or k.arg in kw:
                raise Untranslatable(f"{what}: keyword arguments")
            kw[k.arg] = k.value
        if "seed" in kw or not self.is_rng(kw.pop("rng", None)):
            raise Untranslatable(f"{what}: the generator is not handed over as `rng=rng` (a fresh generator would be seeded)")
        return kw

    def draw(self, e):
        """-> (text of type T * list Qc, T) for a generator-consuming expression, None for any other expression"""
        if isinstance(e, ast.ListComp):
            if len(e.generators) != 1:
                raise Untranslatable(f"{self.key}: comprehension")
            g = e.generators[0]
            if g.ifs or g.is_async or not isinstance(g.target, ast.Name):
                raise Untranslatable(f"{self.key}: comprehension")
            lst, lty = self.expr(g.iter)
            vty = {MAT: VEC, LSTR: STR}.get(lty)
            if vty is None:
                raise Untranslatable(f"{self.key}: comprehension over a {lty}")
            v = self.binder(g.target.id)
            if v in self.env:
                raise Untranslatable(f"{self.key}: comprehension variable `{v}` shadows a variable")
            self.env[v] = (v, vty)
            try:
                d = self.draw(e.elt)
            finally:
                del self.env[v]
            if d is None or d[1] not in LIST_OF:
                raise Untranslatable(f"{self.key}: the element of the comprehension is not a scalar draw")
            return (f"py_comp_rng (fun {v} rng =>\n      {d[0]}) {lst} rng", LIST_OF[d[1]])
        if not isinstance(e, ast.Call) or not isinstance(e.func, ast.Attribute):
            return None
        f = e.func
        # rng.choice(a=A, p=P [, size=N])
        if self.is_rng(f.value):
            if f.attr != "choice":
                raise Untranslatable(f"{self.key}: rng.{f.attr}")
            kw = {}
            if len(e.args) == 1:
                kw["a"] = e.args[0]
            elif e.args:
                raise Untranslatable(f"{self.key}: rng.choice arguments")
            for k in e.keywords:
                if k.arg not in ("a", "p", "size") or k.arg in kw:
                    raise Untranslatable(f"{self.key}: rng.choice argument {k.arg}")
                kw[k.arg] = k.value
            if "a" not in kw or "p" not in kw:
                raise Untranslatable(f"{self.key}: rng.choice without a / p")
            a, aty = self.expr(kw["a"])
            if aty not in DEFAULT:
                raise Untranslatable(f"{self.key}: rng.choice over a {aty}")
            d, ety = DEFAULT[aty]
            p = self.want(kw["p"], VEC)
            if "size" not in kw or _is_const(kw["size"], None):
                size, rty = "None", ety
            else:
                s, sty = self.expr(kw["size"])
                if sty == NAT:
                    size, rty = f"(Some {s})", aty
                elif sty == ONAT:
                    size, rty = s, ("sized", ety, s)
                else:
                    raise Untranslatable(f"{self.key}: size of type {sty}")
            return (f"np_rng_choice {d} {a} {p} {size} rng", rty)
        # D.draw_diag_times(rng=rng)
        if f.attr == "draw_diag_times":
            t, ty = self.expr(f.value)
            if ty != DIST:
                raise Untranslatable(f"{self.key}: draw_diag_times of a {ty}")
            if e.args:
                raise Untranslatable(f"{self.key}: draw_diag_times arguments")
            kw = self.rng_kw(e, "draw_diag_times")
            _function("Distribution.draw_diag_times")           # signature (defaults) as expected
            num = kw.pop("num", None)
            if kw:
                raise Untranslatable(f"{self.key}: draw_diag_times arguments {sorted(kw)}")
            if num is None or _is_const(num, None):
                size, rty = "None", NAT
            else:
                size, rty = f"(Some {self.want(num, NAT)})", LNAT
            self.call("Distribution.draw_diag_times")
            return (f"gen_draw_diag_times ({self.need('dist_support')} {t}) ({self.need('dist_pmf')} {t}) {size} rng", rty)
        # self.draw_diagnosis(TIMES, rng=rng) / self.SIDE.draw_diagnosis(TIMES, rng=rng)
        if f.attr == "draw_diagnosis":
            ch = _attr_chain(f.value)
            if ch == ["self"] and self.cls == "Unilateral":
                side = None
            elif ch in (["self", "ipsi"], ["self", "contra"]) and self.cls == "Bilateral":
                side = ch[1]
            else:
                raise Untranslatable(f"{self.key}: draw_diagnosis of {ch}")
            kw = self.rng_kw(e, "draw_diagnosis")
            _function("Unilateral.draw_diagnosis")
            if len(e.args) == 1 and not kw:
                times = e.args[0]
            elif not e.args and set(kw) == {"diag_times"}:
                times = kw["diag_times"]
            else:
                raise Untranslatable(f"{self.key}: draw_diagnosis arguments")
            self.call("Unilateral.draw_diagnosis")
            return (f"gen_uni_draw_diagnosis {' '.join(self.side_ctx(side))} {self.want(times, LNAT)} rng", BMAT)
        return None

    def call(self, key: str):
        if key not in self.calls:
            self.calls.append(key)

    # ---- statements --------------------------------------------------------------------------------------------------
    @staticmethod
    def is_default_rng(e) -> bool:
        return (isinstance(e, ast.Call) and _attr_chain(e.func) == ["np", "random", "default_rng"] and len(e.args) == 1
                and not e.keywords and isinstance(e.args[0], ast.Name) and e.args[0].id == "seed")

    def is_rng_init(self, s) -> bool:
        if isinstance(s, ast.If) and not s.orelse and len(s.body) == 1:
            t, b = s.test, s.body[0]
            return (isinstance(t, ast.Compare) and len(t.ops) == 1 and isinstance(t.ops[0], ast.Is) and self.is_rng(t.left)
                    and _is_const(t.comparators[0], None) and isinstance(b, ast.Assign) and len(b.targets) == 1
                    and self.is_rng(b.targets[0]) and self.is_default_rng(b.value))
        if isinstance(s, ast.Assign) and len(s.targets) == 1 and self.is_rng(s.targets[0]):
            v = s.value
            return (isinstance(v, ast.BoolOp) and isinstance(v.op, ast.Or) and len(v.values) == 2 and self.is_rng(v.values[0])
                    and self.is_default_rng(v.values[1]))
        return False

    def renorm(self, s):
        """if sum(X) != 1.0: [warnings.warn(...)] X = np.array(X) / sum(X)   -> X, or None"""
        if not (isinstance(s, ast.If) and not s.orelse and isinstance(s.test, ast.Compare) and len(s.test.ops) == 1
                and isinstance(s.test.ops[0], ast.NotEq)):
            return None
        l, r = s.test.left, s.test.comparators[0]
        if not (isinstance(l, ast.Call) and isinstance(l.func, ast.Name) and l.func.id == "sum" and len(l.args) == 1 and not l.keywords
                and isinstance(l.args[0], ast.Name) and self.ty_of(l.args[0]) == VEC and _is_const(r, 1.0)):
            raise Untranslatable(f"{self.key}: conditional {ast.dump(s.test)[:120]}")
        x = l.args[0].id
        body = [b for b in s.body if not (isinstance(b, ast.Expr) and isinstance(b.value, ast.Call)
                                          and _attr_chain(b.value.func) == ["warnings", "warn"])]
        want = ast.dump(ast.parse(f"{x} = np.array({x}) / sum({x})").body[0])
        if len(body) != 1 or ast.dump(body[0]) != want:
            raise Untranslatable(f"{self.key}: the body of `if sum({x}) != 1.0` is not `{x} = np.array({x}) / sum({x})`")
        return x

    def block(self, stmts, first=True) -> str:
        if not stmts:
            raise Untranslatable(f"{self.key}: falls through without return")
        s, rest = stmts[0], stmts[1:]
        if first and self.is_rng_init(s):
            return self.block(rest, True)
        x = self.renorm(s)
        if x is not None:
            self.binder(x)
            return (f"let {x} := if negb (Qc_eqb (py_sum {x}) 1) then np_array_div {x} (py_sum {x}) else {x} in\n  "
                    + self.block(rest, False))
        if isinstance(s, ast.Return):
            if rest or s.value is None:
                raise Untranslatable(f"{self.key}: code after return")
            d = self.draw(s.value)
            t, ty = d if d is not None else self.expr(s.value)
            if ty != self.f["ret"]:
                raise Untranslatable(f"{self.key}: returns a {ty}, expected {self.f['ret']}")
            return t if d is not None else f"({t}, rng)"
        if isinstance(s, ast.Assign) and len(s.targets) == 1:
            tg = s.targets[0]
            if isinstance(tg, ast.Name):
                name = self.binder(tg.id)
                d = self.draw(s.value)
                if d is not None:
                    if isinstance(d[1], tuple):
                        raise Untranslatable(f"{self.key}: a draw of unknown size bound to a variable")
                    self.env[name] = (name, d[1])
                    return f"let '({name}, rng) := {d[0]} in\n  {self.block(rest, False)}"
                t, ty = self.expr(s.value)
                if ty == DIST:
                    raise Untranslatable(f"{self.key}: a distribution bound to a variable")
                if ty == DISTS:                       # an alias of the dict of distributions: no value
                    self.env[name] = ("", DISTS)
                    return self.block(rest, False)
                self.env[name] = (name, ty)
                return f"let {name} := {t} in\n  {self.block(rest, False)}"
            if isinstance(tg, ast.Subscript) and isinstance(tg.value, ast.Name) and self.ty_of(tg.value) == FRAME \
                    and not isinstance(tg.slice, ast.Slice):
                fr = tg.value.id
                key = self.want(tg.slice, LABEL)
                return f"let {fr} := pd_set_column {fr} {key} {self.want(s.value, LSTR)} in\n  {self.block(rest, False)}"
        raise Untranslatable(f"{self.key}: statement {type(s).__name__}: {ast.dump(s)[:160]}")


# ----------------------------------------------------------------------------------------------------------------------
# one definition per function, with the definitions of the translated functions it calls in front
# ----------------------------------------------------------------------------------------------------------------------
def _ret_ty(ret) -> str:
    return f"np_sized {ret[1]} {ret[2]}" if isinstance(ret, tuple) else ret


def _definition(key: str):
    f = FUNCS[key]
    _, fn = _function(key)
    p = Samp(key)
    body = p.block(_strip_doc(fn.body))
    params = " ".join(f"({c} : {CTX_TY[c]})" for c in f["ctx"])
    args = " ".join(f"({n} : {ty})" for n, ty in f["args"].items())
    text = (f"Definition {f['gen']} {params} {args} (rng : list Qc)\n  : {_ret_ty(f['ret'])} * list Qc :=\n  {body}.\n")
    return text, p.calls, p.t3calls


def _with_deps(key: str) -> str:
    done, order, t3deps = {}, [], []

    def visit(k, stack=()):
        if k in stack:
            raise Untranslatable(f"recursive call of {k}")
        if k in done:
            return
        text, calls, t3calls = _definition(k)
        for c in t3calls:
            if c not in t3deps:
                t3deps.append(c)
        for c in calls:
            visit(c, stack + (k,))
        done[k] = text
        order.append(k)
    visit(key)
    head = "".join(t3._with_deps(m) for m in t3deps)          # state_dist_evo and what it calls (evolve)
    return head + "".join(done[k] for k in order)


UCTX = "(transition_matrix u) (u_states u) (u_maxt u) (observation_matrix u) (u_obs_list u)"
UPAT = f"{UCTX} (stage_names u) (uni_support u) (total_pmf u) (u_mod_names u) (u_lnls u)"


def translate_utils_draw_diagnosis() -> str:
    return (_with_deps("utils.draw_diagnosis")
            + "Lemma gen_draw_diagnosis_np : forall times evo O PD rng,\n"
              "  gen_draw_diagnosis times evo O PD rng = np_draw_diagnosis times evo O PD rng.\n"
              "Proof. intros. reflexivity. Qed.\n"
              "Lemma gen_draw_diagnosis_eq : forall times evo O PD xs, (length times <= length xs)%nat ->\n"
              "  Forall (fun o => (o < length PD)%nat) (draw_diagnosis_with (ncols O) evo O times xs) ->\n"
              "  gen_draw_diagnosis times evo O PD xs\n"
              "  = (obs_rows PD (draw_diagnosis_with (ncols O) evo O times xs), skipn (length times) xs).\n"
              "Proof. intros. rewrite gen_draw_diagnosis_np. apply np_draw_diagnosis_model; assumption. Qed.\n")


def translate_dist_draw_diag_times() -> str:
    return (_with_deps("Distribution.draw_diag_times")
            + "Lemma gen_draw_diag_times_np : forall support pmf num rng,\n"
              "  gen_draw_diag_times support pmf num rng = np_draw_diag_times support pmf num rng.\n"
              "Proof. intros. reflexivity. Qed.\n"
              "Lemma gen_draw_diag_times_eq : forall u s x xs, (draw_diag_time u s x <= u_maxt u)%nat ->\n"
              "  gen_draw_diag_times (np_arange (u_maxt u + 1)) (stage_pmf u s) None (x :: xs) = (draw_diag_time u s x, xs).\n"
              "Proof. intros. rewrite gen_draw_diag_times_np. apply np_draw_diag_times_model; assumption. Qed.\n"
              "Lemma gen_draw_diag_times_array_eq : forall u s n xs, (n <= length xs)%nat ->\n"
              "  Forall (fun t => (t <= u_maxt u)%nat) (map (draw_diag_time u s) (firstn n xs)) ->\n"
              "  gen_draw_diag_times (np_arange (u_maxt u + 1)) (stage_pmf u s) (Some n) xs\n"
              "  = (map (draw_diag_time u s) (firstn n xs), skipn n xs).\n"
              "Proof. intros. rewrite gen_draw_diag_times_np. apply np_draw_diag_times_array_model; assumption. Qed.\n")


def translate_uni_draw_diagnosis() -> str:
    return (_with_deps("Unilateral.draw_diagnosis")
            + "Lemma gen_uni_draw_diagnosis_np : forall T sl m O OL times rng,\n"
              "  gen_uni_draw_diagnosis T sl m O OL times rng = np_uni_draw_diagnosis T sl m O OL times rng.\n"
              "Proof. intros. reflexivity. Qed.\n"
              "Lemma gen_uni_draw_diagnosis_eq : forall u times xs,\n"
              "  wf_graphb (u_graph u) = true -> (length times <= length xs)%nat ->\n"
              "  Forall (fun o => (o < length (u_obs_list u))%nat) (draw_diagnosis u times xs) ->\n"
              f"  gen_uni_draw_diagnosis {UCTX} times xs\n"
              "  = (obs_rows (u_obs_list u) (draw_diagnosis u times xs), skipn (length times) xs).\n"
              "Proof. intros. rewrite gen_uni_draw_diagnosis_np. apply np_uni_draw_diagnosis_model; assumption. Qed.\n")


def translate_uni_draw_patients() -> str:
    return (_with_deps("Unilateral.draw_patients")
            + "Lemma gen_uni_draw_patients_np : forall T sl m O OL ts dsup dpmf mk lk num sd rng,\n"
              "  gen_uni_draw_patients T sl m O OL ts dsup dpmf mk lk num sd rng\n"
              "  = np_uni_draw_patients T sl m O OL ts dsup dpmf mk lk num sd rng.\n"
              "Proof. intros. reflexivity. Qed.\n"
              "Lemma gen_uni_draw_patients_eq : forall u num sd xs,\n"
              "  wf_graphb (u_graph u) = true -> (3 * num <= length xs)%nat ->\n"
              "  uni_draws_in_range u (draw_patients_uni u num sd xs) ->\n"
              f"  gen_uni_draw_patients {UPAT} num sd xs\n"
              "  = (uni_frame u (draw_patients_uni u num sd xs), skipn num (skipn num (skipn num xs))).\n"
              "Proof. intros. rewrite gen_uni_draw_patients_np. apply np_uni_draw_patients_model; assumption. Qed.\n")


def _bctx(side: str) -> str:
    u = f"(b_{side} b)"
    return f"(transition_matrix {u}) (u_states {u}) (u_maxt {u}) (observation_matrix {u}) (u_obs_list {u})"


BPAT = (f"{_bctx('ipsi')}\n    {_bctx('contra')}\n    (stage_names (b_ipsi b)) (uni_support (b_ipsi b)) (total_pmf (b_ipsi b)) "
        "(u_mod_names (b_ipsi b)) (u_lnls (b_ipsi b))")


def translate_bi_draw_patients() -> str:
    return (_with_deps("Bilateral.draw_patients")
            + "Lemma gen_bi_draw_patients_np : forall Ti sli mi Oi OLi Tc slc mc Oc OLc ts dsup dpmf mk lk srt num sd rng,\n"
              "  gen_bi_draw_patients Ti sli mi Oi OLi Tc slc mc Oc OLc ts dsup dpmf mk lk srt num sd rng\n"
              "  = np_bi_draw_patients Ti sli mi Oi OLi Tc slc mc Oc OLc ts dsup dpmf mk lk srt num sd rng.\n"
              "Proof. intros. reflexivity. Qed.\n"
              "Lemma gen_bi_draw_patients_eq : forall b sort_cols num sd xs,\n"
              "  wf_graphb (u_graph (b_ipsi b)) = true -> wf_graphb (u_graph (b_contra b)) = true ->\n"
              "  (4 * num <= length xs)%nat -> bi_draws_in_range b (draw_patients_bi b num sd xs) ->\n"
              f"  gen_bi_draw_patients {BPAT} sort_cols num sd xs\n"
              "  = (bi_frame b sort_cols (draw_patients_bi b num sd xs), skipn num (skipn num (skipn num (skipn num xs)))).\n"
              "Proof. intros. rewrite gen_bi_draw_patients_np. apply np_bi_draw_patients_model; assumption. Qed.\n")


HEADER = ("(* GENERATED on every run by harness/translate13.py from the Python source of lymph; do not edit *)\n"
          "From LymphModel Require Import Base States Linalg Graph Transition Observation Dist Unilateral UniStatements\n"
          "  Models Bilateral Numpy NumpyTransition NumpyPipelines NumpyPosterior Sampling SamplingProofs NumpySampling.\n"
          "Local Open Scope nat_scope.\nOpen Scope Qc_scope.\n\n")

PIECES = {
    "utils_draw_diagnosis": (translate_utils_draw_diagnosis, "gen_draw_diagnosis_eq", "lymph/utils.py draw_diagnosis"),
    "dist_draw_diag_times": (translate_dist_draw_diag_times, ["gen_draw_diag_times_eq", "gen_draw_diag_times_array_eq"],
                             "lymph/diagnosis_times.py Distribution.draw_diag_times"),
    "uni_draw_diagnosis": (translate_uni_draw_diagnosis, "gen_uni_draw_diagnosis_eq",
                           "lymph/models/unilateral.py Unilateral.draw_diagnosis"),
    "uni_draw_patients": (translate_uni_draw_patients, "gen_uni_draw_patients_eq",
                          "lymph/models/unilateral.py Unilateral.draw_patients"),
    "bi_draw_patients": (translate_bi_draw_patients, "gen_bi_draw_patients_eq",
                         "lymph/models/bilateral.py Bilateral.draw_patients"),
}


def generate(piece: str) -> str:
    fn, lemma, _ = PIECES[piece]
    lemmas = [lemma] if isinstance(lemma, str) else list(lemma)
    return HEADER + fn() + "".join(f"Print Assumptions {l}.\n" for l in lemmas)


if __name__ == "__main__":
    import sys
    for p in (sys.argv[1:] or PIECES):
        print(generate(p))
