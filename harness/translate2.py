"""Source-to-Gallina translator, second part: straight-line numpy code and simple accumulation loops.

`translate.py` re-generates the table-like core (tensors, confusion matrices, element maps).  This module translates the
*control structure* of small functions -- assignments, `for` loops that accumulate into variables defined before the loop,
early `return` under `if`, `continue`, a trailing `if acc == 0: break` -- into Gallina `let` / `fold_left` terms, and the
numpy index helpers into the list primitives of `coq/theories/Numpy.v`.  A generated file then PROVES the translated
function equal to the hand-written model for ALL arguments:

  utils.get_state_idx_matrix        -> gen_get_state_idx_matrix  (every column = States.state_idx_col)
  utils.tile_and_repeat             -> gen_tile_and_repeat       (row 0 on a 1-D element = Observation.tile_and_repeat_row)
  utils.row_wise_kron               -> gen_row_wise_kron         (= Linalg.row_wise_kron for equally long arguments)
  graph.LymphNodeLevel.comp_trans_prob      -> gen_comp_trans_prob      (= Transition.comp_trans_prob)
  graph.LymphNodeLevel.comp_bayes_net_prob  -> gen_comp_bayes_net_prob  (= Unilateral.bn_node_prob; trinary raises)
  graph.AbstractNode.comp_obs_prob          -> gen_comp_obs_prob        (unknown finding = factor 1, else table entry)
  models.Unilateral.transition_prob         -> gen_transition_prob      (= Transition.transition_prob, `break` included)
  matrix.compute_encoding (main loop)       -> gen_compute_encoding     (= Observation.compute_encoding)
  matrix.generate_transition                -> gen_generate_transition  (N x N index grids, fancy indexing, np.where; =
                                               NumpyTransition.np_generate_transition by conversion, which is PROVED equal
                                               to Transition.generate_transition for every well-formed graph)

Fail-closed: every statement / expression form that is not listed in `Imp` raises `Untranslatable`.

What the translator itself *assumes* (trusted base, stated per function in HOOKS below): how attribute accesses on lymph
objects are read (`self.inc` = the list of incoming arcs, `edge.parent.state` = the parent's digit in the current state,
`edge.transition_tensor[p, a, c]` = entry of the arc's tensor, `isinstance(edge.parent, Tumor)` = `edge.is_tumor_spread`,
`lnl not in pattern or pd.isna(pattern[lnl])` = "the pattern has no value for the LNL"), that `log=False`, that Python ints
used as sizes / indices are naturals (a subtraction that would go negative is outside every lemma's hypotheses), and the
numpy reading in Numpy.v (`np.tile`, `np.repeat`, `np.arange().reshape(n, -1)`, `np.kron` on vectors, `np.logical_and`).
"""
from __future__ import annotations

import ast

from .translate import Untranslatable, _func, _is_np, _src, _strip_doc

NAT, Q, BOOL, INT = "nat", "Q", "bool", "int"      # INT = integer literal not yet committed to nat or Qc


def _lit(n: int, ty: str) -> str:
    if ty == Q:
        return f"{n}%Qc" if n >= 0 else f"(-({-n}))%Qc"
    if n < 0:
        raise Untranslatable("negative natural literal")
    return f"{n}%nat"


class Imp:
    """statements: NAME = E | NAME op= E (op in + *) | for V in ITER: BODY | if T: BLOCK-ending-in-return/continue/raise
                   | return E | (last statement of a loop body) if ACC == 0: break
       expressions: names, int / integral float constants, + - * **, A if T else B, ==, and whatever `hook` accepts"""

    def __init__(self, env: dict, hook, loops: dict, skip_stmt=None, raises_none=False):
        self.env = dict(env)            # python name -> (gallina text, type)
        self.hook = hook                # hook(imp, e) -> (text, type) | None
        self.loops = loops              # ast.dump(iter) matcher: fn(imp, iter_node, target_node) -> (list text, binder text, {name: (txt, ty)})
        self.skip_stmt = skip_stmt or (lambda s: False)
        self.raises_none = raises_none  # `raise` -> None, normal result -> Some

    # ---- expressions -----------------------------------------------------
    def coerce(self, tv, ty):
        t, have = tv
        if have == ty:
            return t
        if have == INT:
            return _lit(int(t), ty)
        if have == NAT and ty == Q:
            return f"(qnat {t})"
        raise Untranslatable(f"cannot use a {have} as {ty}: {t}")

    def expr(self, e):
        h = self.hook(self, e)
        if h is not None:
            return h
        if isinstance(e, ast.Constant) and not isinstance(e.value, bool):
            if isinstance(e.value, int):
                return (str(e.value), INT)
            if isinstance(e.value, float) and e.value == int(e.value):
                return (_lit(int(e.value), Q), Q)
        if isinstance(e, ast.UnaryOp) and isinstance(e.op, ast.USub) and isinstance(e.operand, ast.Constant) \
                and isinstance(e.operand.value, int) and not isinstance(e.operand.value, bool):
            return (str(-e.operand.value), INT)
        if isinstance(e, ast.Name) and e.id in self.env:
            return self.env[e.id]
        if isinstance(e, ast.BinOp) and isinstance(e.op, ast.Pow):
            b, x = self.expr(e.left), self.expr(e.right)
            if b[1] == INT and int(b[0]) < 0:
                return (f"(qpow {_lit(int(b[0]), Q)} {self.coerce(x, NAT)})", Q)
            return (f"(Nat.pow {self.coerce(b, NAT)} {self.coerce(x, NAT)})", NAT)
        if isinstance(e, ast.BinOp) and isinstance(e.op, (ast.Add, ast.Sub, ast.Mult)):
            a, b = self.expr(e.left), self.expr(e.right)
            op = {ast.Add: "+", ast.Sub: "-", ast.Mult: "*"}[type(e.op)]
            ty = Q if Q in (a[1], b[1]) else NAT
            scope = "Qc" if ty == Q else "nat"
            return (f"({self.coerce(a, ty)} {op} {self.coerce(b, ty)})%{scope}", ty)
        if isinstance(e, ast.IfExp):
            t = self.test(e.test)
            a, b = self.expr(e.body), self.expr(e.orelse)
            ty = a[1] if a[1] != INT else b[1]
            if ty == INT:
                ty = NAT
            return (f"(if {t} then {self.coerce(a, ty)} else {self.coerce(b, ty)})", ty)
        raise Untranslatable(f"expression {ast.dump(e)[:200]}")

    def test(self, t) -> str:
        h = self.hook(self, t)
        if h is not None:
            if h[1] != BOOL:
                raise Untranslatable("test is not boolean")
            return h[0]
        if isinstance(t, ast.Compare) and len(t.ops) == 1 and isinstance(t.ops[0], ast.Eq):
            a, b = self.expr(t.left), self.expr(t.comparators[0])
            if Q in (a[1], b[1]):
                return f"(Qc_eqb {self.coerce(a, Q)} {self.coerce(b, Q)})"
            return f"(Nat.eqb {self.coerce(a, NAT)} {self.coerce(b, NAT)})"
        if isinstance(t, ast.Name) and t.id in self.env and self.env[t.id][1] == BOOL:
            return self.env[t.id][0]
        raise Untranslatable(f"test {ast.dump(t)[:200]}")

    # ---- statements ------------------------------------------------------
    @staticmethod
    def assigned(stmts) -> list:
        out = []
        for s in stmts:
            for n in ast.walk(s):
                if isinstance(n, (ast.Assign, ast.AugAssign)):
                    tg = n.targets[0] if isinstance(n, ast.Assign) else n.target
                    if isinstance(tg, ast.Name) and tg.id not in out:
                        out.append(tg.id)
        return out

    def var_type(self, name, stmts, first_ty):
        """an integer literal initialisation takes the type of the later assignments to the same variable"""
        if first_ty != INT:
            return first_ty
        for s in stmts:
            for n in ast.walk(s):
                if isinstance(n, ast.AugAssign) and isinstance(n.target, ast.Name) and n.target.id == name:
                    saved = dict(self.env)
                    try:
                        self.env[name] = (name, Q)
                        ty = self.expr(n.value)[1]
                    except Untranslatable:
                        ty = Q
                    finally:
                        self.env = saved
                    return Q if ty in (Q, INT) else ty
        return NAT

    def wrap(self, txt: str) -> str:
        return f"Some ({txt})" if self.raises_none else txt

    def block(self, stmts, tail) -> str:
        """`tail` = text produced when the block falls through (None: falling through is an error)"""
        if not stmts:
            if tail is None:
                raise Untranslatable("block falls through without return")
            return tail
        s, rest = stmts[0], stmts[1:]
        if self.skip_stmt(s):
            return self.block(rest, tail)
        if isinstance(s, ast.Return):
            if rest:
                raise Untranslatable("code after return")
            tv = self.expr(s.value)
            return self.wrap(tv[0] if tv[1] != INT else _lit(int(tv[0]), Q))
        if isinstance(s, ast.Raise):
            if not self.raises_none or rest:
                raise Untranslatable("raise")
            return "None"
        if isinstance(s, ast.Continue):
            if rest or tail is None:
                raise Untranslatable("continue")
            return tail
        if isinstance(s, ast.Assign) and len(s.targets) == 1 and isinstance(s.targets[0], ast.Name):
            name = s.targets[0].id
            t, ty0 = self.expr(s.value)
            ty = self.var_type(name, rest, ty0)
            t = self.coerce((t, ty0), ty)
            self.env[name] = (name, ty)
            return f"let {name} := {t} in\n  {self.block(rest, tail)}"
        if isinstance(s, ast.AugAssign) and isinstance(s.target, ast.Name) and isinstance(s.op, (ast.Add, ast.Mult)):
            name = s.target.id
            if name not in self.env:
                raise Untranslatable(f"augmented assignment to unknown {name}")
            cur = self.env[name]
            v = self.expr(s.value)
            ty = Q if Q in (cur[1], v[1]) else cur[1]
            op = "+" if isinstance(s.op, ast.Add) else "*"
            scope = "Qc" if ty == Q else "nat"
            self.env[name] = (name, ty)
            return f"let {name} := ({self.coerce(cur, ty)} {op} {self.coerce(v, ty)})%{scope} in\n  {self.block(rest, tail)}"
        if isinstance(s, ast.If) and not s.orelse:
            saved = dict(self.env)
            then = self.block(s.body, None if not self._ends_continue(s.body) else tail)
            self.env = saved
            return f"if {self.test(s.test)} then ({then})\n  else ({self.block(rest, tail)})"
        if isinstance(s, ast.For) and not s.orelse:
            return self.loop(s, rest, tail)
        raise Untranslatable(f"statement {type(s).__name__}: {ast.dump(s)[:160]}")

    @staticmethod
    def _ends_continue(body) -> bool:
        return bool(body) and isinstance(body[-1], ast.Continue)

    def loop(self, s: ast.For, rest, tail) -> str:
        for match in self.loops:
            r = match(self, s.iter, s.target)
            if r is not None:
                break
        else:
            raise Untranslatable(f"loop over {ast.dump(s.iter)[:160]}")
        lst, binder, bound = r
        acc = [n for n in self.assigned(s.body) if n in self.env]
        if not acc:
            raise Untranslatable("loop without accumulator")
        body = list(s.body)
        brk = None
        if (isinstance(body[-1], ast.If) and not body[-1].orelse and len(body[-1].body) == 1
                and isinstance(body[-1].body[0], ast.Break)):
            brk = body.pop().test
        saved = dict(self.env)
        self.env.update(bound)
        tup = acc[0] if len(acc) == 1 else "(" + ", ".join(acc) + ")"
        if brk is None:
            inner = self.block(body, tup)
            step = f"fun {'' if len(acc) == 1 else chr(39)}{tup} {binder} =>\n    {inner}"
            init = tup
            res = f"fold_left ({step})\n    {lst} {init}"
        else:
            if len(acc) != 1:
                raise Untranslatable("break with several accumulators")
            marker = "@@BREAK@@"
            inner = self.block(body, marker)
            # the accumulator after the body and the break test evaluated on it
            self.env[acc[0]] = (acc[0], self.env[acc[0]][1])
            inner = inner.replace(marker, f"({acc[0]}, {self.test(brk)})")
            step = (f"fun (st : Qc * bool) {binder} =>\n    let '({acc[0]}, stop) := st in\n"
                    f"    if stop then ({acc[0]}, stop) else {inner}")
            res = f"fst (fold_left ({step})\n    {lst} ({acc[0]}, false))"
        types_after = {n: self.env[n] for n in acc}
        self.env = saved
        self.env.update(types_after)
        pat = tup if len(acc) == 1 else "'" + tup
        return f"let {pat} := {res} in\n  {self.block(rest, tail)}"


# ----------------------------------------------------------------------------------------------------------------------
# helpers for hooks
# ----------------------------------------------------------------------------------------------------------------------
def _attr_chain(e):
    """self.graph.lnls -> ['self', 'graph', 'lnls'] (None if not a pure attribute chain)"""
    out = []
    while isinstance(e, ast.Attribute):
        out.append(e.attr)
        e = e.value
    if isinstance(e, ast.Name):
        out.append(e.id)
        return out[::-1]
    return None


def _sub3(e):
    """X[a, b, c] -> (X, [a, b, c])"""
    if isinstance(e, ast.Subscript) and isinstance(e.slice, ast.Tuple) and len(e.slice.elts) == 3:
        return e.value, list(e.slice.elts)
    return None


def _kw(call, names):
    """keyword-or-positional arguments of a call in the order `names`"""
    got = {}
    for k, a in enumerate(call.args):
        got[names[k]] = a
    for k in call.keywords:
        if k.arg not in names or k.arg in got:
            raise Untranslatable(f"argument {k.arg}")
        got[k.arg] = k.value
    if set(got) != set(names):
        raise Untranslatable(f"arguments {sorted(got)} != {names}")
    return [got[n] for n in names]


# ----------------------------------------------------------------------------------------------------------------------
# numpy index helpers (utils.py)
# ----------------------------------------------------------------------------------------------------------------------
class Arr:
    """2-D arrays as lists of rows; accepted: np.arange(N).reshape(N, -1), np.tile(M, (A, B)) / np.tile(M, NAME) with NAME a
    pair parameter, np.repeat(M, K, axis=0|1), NAME[0|1] of a pair parameter"""

    def __init__(self, scal: Imp, arrays: dict, pairs: dict):
        self.s, self.arrays, self.pairs = scal, dict(arrays), pairs

    def nat(self, e) -> str:
        if (isinstance(e, ast.Subscript) and isinstance(e.value, ast.Name) and e.value.id in self.pairs
                and isinstance(e.slice, ast.Constant) and e.slice.value in (0, 1)):
            return self.pairs[e.value.id][e.slice.value]
        return self.s.coerce(self.s.expr(e), NAT)

    def pair(self, e):
        if isinstance(e, ast.Name) and e.id in self.pairs:
            return self.pairs[e.id]
        if isinstance(e, ast.Tuple) and len(e.elts) == 2:
            return (self.nat(e.elts[0]), self.nat(e.elts[1]))
        raise Untranslatable("pair expected")

    def arr(self, e) -> str:
        if isinstance(e, ast.Name) and e.id in self.arrays:
            return self.arrays[e.id]
        if (isinstance(e, ast.Call) and isinstance(e.func, ast.Attribute) and e.func.attr == "reshape" and len(e.args) == 2
                and isinstance(e.args[1], ast.UnaryOp) and isinstance(e.args[1].op, ast.USub)
                and isinstance(e.args[1].operand, ast.Constant) and e.args[1].operand.value == 1
                and _is_np(e.func.value, "arange") and len(e.func.value.args) == 1
                and ast.dump(e.func.value.args[0]) == ast.dump(e.args[0])):
            return f"(np_col (seq 0 {self.nat(e.args[0])}))"
        if _is_np(e, "tile") and len(e.args) == 2:
            a, b = self.pair(e.args[1])
            return f"(np_tile2 {self.arr(e.args[0])} {a} {b})"
        if (isinstance(e, ast.Call) and isinstance(e.func, ast.Attribute) and e.func.attr == "repeat"
                and isinstance(e.func.value, ast.Name) and e.func.value.id == "np" and len(e.args) == 2
                and len(e.keywords) == 1 and e.keywords[0].arg == "axis" and isinstance(e.keywords[0].value, ast.Constant)
                and e.keywords[0].value.value in (0, 1)):
            return f"(np_repeat{e.keywords[0].value.value} {self.arr(e.args[0])} {self.nat(e.args[1])})"
        raise Untranslatable(f"array expression {ast.dump(e)[:200]}")

    def body(self, stmts) -> str:
        out = []
        for k, s in enumerate(stmts):
            if isinstance(s, ast.Return) and k == len(stmts) - 1:
                return "".join(out) + self.arr(s.value)
            if isinstance(s, ast.Assign) and len(s.targets) == 1 and isinstance(s.targets[0], ast.Name):
                out.append(f"let {s.targets[0].id} := {self.arr(s.value)} in\n  ")
                self.arrays[s.targets[0].id] = s.targets[0].id
                continue
            raise Untranslatable(f"statement {type(s).__name__}")
        raise Untranslatable("no return")


def _nohook(imp, e):
    return None


def translate_state_idx() -> str:
    fn = _func(ast.parse(_src("lymph/utils.py")), "get_state_idx_matrix")
    params = [a.arg for a in fn.args.args]
    if params != ["lnl_idx", "num_lnls", "num_states"]:
        raise Untranslatable(f"signature {params}")
    a = Arr(Imp({p: (p, NAT) for p in params}, _nohook, []), {}, {})
    body = a.body(_strip_doc(fn.body))
    return ("Definition gen_get_state_idx_matrix (lnl_idx num_lnls num_states : nat) : list (list nat) :=\n  " + body + ".\n"
            "Lemma gen_get_state_idx_matrix_eq : forall k n b,\n"
            "  gen_get_state_idx_matrix k n b = map (fun c => repeat c (Nat.pow b n)) (state_idx_col k n b).\n"
            "Proof. intros k n b. unfold gen_get_state_idx_matrix. cbv zeta. apply np_state_idx_matrix. Qed.\n")


def translate_tile_and_repeat() -> str:
    fn = _func(ast.parse(_src("lymph/utils.py")), "tile_and_repeat")
    params = [a.arg for a in fn.args.args]
    if params != ["mat", "tile", "repeat"]:
        raise Untranslatable(f"signature {params}")
    a = Arr(Imp({}, _nohook, []), {"mat": "mat"}, {"tile": ("t0", "t1"), "repeat": ("r0", "r1")})
    body = a.body(_strip_doc(fn.body))
    return ("Definition gen_tile_and_repeat {A} (mat : list (list A)) (t0 t1 r0 r1 : nat) : list (list A) :=\n  " + body + ".\n"
            "Lemma gen_tile_and_repeat_eq : forall (A : Type) (el : list A) t r,\n"
            "  nth 0 (gen_tile_and_repeat [el] 1 t 1 r) [] = tile_and_repeat_row el t r.\n"
            "Proof. intros A el t r. unfold gen_tile_and_repeat, tile_and_repeat_row. cbv zeta. apply np_tile_and_repeat_row. Qed.\n")


def translate_row_wise_kron() -> str:
    """result = np.zeros((a.shape[0], _)); for i in range(a.shape[0]): result[i] = np.kron(a[i], b[i]); return result"""
    fn = _func(ast.parse(_src("lymph/utils.py")), "row_wise_kron")
    params = [a.arg for a in fn.args.args]
    if params != ["a", "b"]:
        raise Untranslatable(f"signature {params}")
    st = _strip_doc(fn.body)
    if len(st) != 3:
        raise Untranslatable(f"{len(st)} statements")
    init, loop, ret = st

    def is_rows(e, name):
        return (isinstance(e, ast.Subscript) and isinstance(e.value, ast.Attribute) and e.value.attr == "shape"
                and isinstance(e.value.value, ast.Name) and e.value.value.id == name
                and isinstance(e.slice, ast.Constant) and e.slice.value == 0)
    ok = (isinstance(init, ast.Assign) and isinstance(init.targets[0], ast.Name) and _is_np(init.value, "zeros")
          and len(init.value.args) == 1 and isinstance(init.value.args[0], ast.Tuple) and len(init.value.args[0].elts) == 2
          and is_rows(init.value.args[0].elts[0], "a"))
    if not ok:
        raise Untranslatable("initialisation is not np.zeros((a.shape[0], ...))")
    res = init.targets[0].id
    ok = (isinstance(loop, ast.For) and isinstance(loop.target, ast.Name) and isinstance(loop.iter, ast.Call)
          and isinstance(loop.iter.func, ast.Name) and loop.iter.func.id == "range" and len(loop.iter.args) == 1
          and is_rows(loop.iter.args[0], "a") and not loop.orelse and len(loop.body) == 1)
    if not ok:
        raise Untranslatable("loop is not `for i in range(a.shape[0])` with one statement")
    i = loop.target.id
    u = loop.body[0]

    def row(e, name):
        return (isinstance(e, ast.Subscript) and isinstance(e.value, ast.Name) and e.value.id == name
                and isinstance(e.slice, ast.Name) and e.slice.id == i)
    ok = (isinstance(u, ast.Assign) and row(u.targets[0], res) and _is_np(u.value, "kron") and len(u.value.args) == 2
          and row(u.value.args[0], "a") and row(u.value.args[1], "b"))
    if not ok:
        raise Untranslatable(f"loop body is not `{res}[{i}] = np.kron(a[{i}], b[{i}])`")
    if not (isinstance(ret, ast.Return) and isinstance(ret.value, ast.Name) and ret.value.id == res):
        raise Untranslatable("return")
    return ("Definition gen_row_wise_kron (a b : mat) : mat :=\n"
            f"  np_fill_rows (length a) (fun {i} => kron_vec (nth {i} a []) (nth {i} b [])).\n"
            "Lemma gen_row_wise_kron_eq : forall a b, length a = length b -> gen_row_wise_kron a b = row_wise_kron a b.\n"
            "Proof. intros a b H. unfold gen_row_wise_kron, row_wise_kron. apply np_fill_rows_map2. exact H. Qed.\n")


# ----------------------------------------------------------------------------------------------------------------------
# node-level probabilities (graph.py) and Unilateral.transition_prob
# ----------------------------------------------------------------------------------------------------------------------
def _node_hook(imp: Imp, e):
    """reading of the lymph objects inside LymphNodeLevel methods (see module docstring)"""
    ch = _attr_chain(e)
    if ch == ["self", "state"]:
        return ("self_state", NAT)
    if ch == ["edge", "is_tumor_spread"]:
        return ("(is_tumor_spread edge)", BOOL)
    if ch == ["edge", "parent", "state"]:
        return ("(pstate edge)", NAT)
    if ch == ["self", "is_trinary"]:
        return ("is_trinary", BOOL)
    if (isinstance(e, ast.Call) and isinstance(e.func, ast.Name) and e.func.id == "isinstance" and len(e.args) == 2
            and _attr_chain(e.args[0]) == ["edge", "parent"] and isinstance(e.args[1], ast.Name) and e.args[1].id == "Tumor"):
        return ("(is_tumor_spread edge)", BOOL)
    s3 = _sub3(e)
    if s3 is not None and _attr_chain(s3[0]) == ["edge", "transition_tensor"]:
        ix = [imp.coerce(imp.expr(x), NAT) for x in s3[1]]
        return (f"(tget (tt edge) {ix[0]} {ix[1]} {ix[2]})", Q)
    # `np.log(X) if log else X` with log = False
    if isinstance(e, ast.IfExp) and isinstance(e.test, ast.Name) and e.test.id == "log":
        return imp.expr(e.orelse)
    return None


def _inc_loop(imp, it, target):
    if _attr_chain(it) == ["self", "inc"] and isinstance(target, ast.Name) and target.id == "edge":
        return ("inc", "edge", {})
    return None


def translate_comp_trans_prob() -> str:
    fn = _func(ast.parse(_src("lymph/graph.py")), "comp_trans_prob", "LymphNodeLevel")
    if [a.arg for a in fn.args.args] != ["self", "new_state"]:
        raise Untranslatable("signature")
    imp = Imp({"new_state": ("new_state", NAT)}, _node_hook, [_inc_loop])
    body = imp.block(_strip_doc(fn.body), None)
    return ("Definition gen_comp_trans_prob (inc : list edge) (tt : edge -> tensor) (pstate : edge -> nat)\n"
            "  (self_state new_state : nat) : Qc :=\n  " + body + ".\n"
            "Lemma gen_comp_trans_prob_eq : forall g cur i lnl ns,\n"
            "  gen_comp_trans_prob (inc_edges g lnl) (transition_tensor (g_base g)) (fun e => parent_digit g e cur) (digit i cur) ns\n"
            "  = comp_trans_prob g cur i lnl ns.\n"
            "Proof.\n  intros g cur i lnl ns. unfold gen_comp_trans_prob, comp_trans_prob. cbv zeta.\n"
            "  destruct (Nat.eqb ns (digit i cur)); rewrite fold_left_map_acc; reflexivity.\nQed.\n")


def translate_comp_bayes_net_prob() -> str:
    fn = _func(ast.parse(_src("lymph/graph.py")), "comp_bayes_net_prob", "LymphNodeLevel")
    if [a.arg for a in fn.args.args] != ["self", "log"]:
        raise Untranslatable("signature")
    imp = Imp({}, _node_hook, [_inc_loop], raises_none=True)
    body = imp.block(_strip_doc(fn.body), None)
    return ("Definition gen_comp_bayes_net_prob (is_trinary : bool) (inc : list edge) (tt : edge -> tensor) (pstate : edge -> nat)\n"
            "  (self_state : nat) : option Qc :=\n  " + body + ".\n"
            "Lemma gen_comp_bayes_net_prob_eq : forall g x i lnl, (digit i x < 2)%nat ->\n"
            "  gen_comp_bayes_net_prob false (inc_edges g lnl) (transition_tensor (g_base g)) (fun e => parent_digit g e x) (digit i x)\n"
            "  = Some (bn_node_prob g x i lnl)\n"
            "  /\\ gen_comp_bayes_net_prob true (inc_edges g lnl) (transition_tensor (g_base g)) (fun e => parent_digit g e x) (digit i x) = None.\n"
            "Proof.\n  intros g x i lnl H. unfold gen_comp_bayes_net_prob, bn_node_prob. cbv zeta. split; [|reflexivity].\n"
            "  destruct (digit i x) as [|[|s]]; [| |lia]; cbn [Nat.eqb]; [rewrite qpow_m1_0|rewrite qpow_m1_1]; reflexivity.\nQed.\n")


def translate_comp_obs_prob() -> str:
    """if obs is None or np.isnan(obs): return 0 if log else 1.0 ; X = obs_table[self.state, int(obs)] ; return np.log(X) if log else X"""
    fn = _func(ast.parse(_src("lymph/graph.py")), "comp_obs_prob", "AbstractNode")
    if [a.arg for a in fn.args.args] != ["self", "obs", "obs_table", "log"]:
        raise Untranslatable("signature")
    st = _strip_doc(fn.body)
    if len(st) != 3 or not isinstance(st[0], ast.If) or st[0].orelse or len(st[0].body) != 1 or not isinstance(st[0].body[0], ast.Return):
        raise Untranslatable("shape")
    t = st[0].test
    ok = (isinstance(t, ast.BoolOp) and isinstance(t.op, ast.Or) and len(t.values) == 2
          and isinstance(t.values[0], ast.Compare) and isinstance(t.values[0].ops[0], ast.Is)
          and isinstance(t.values[0].left, ast.Name) and t.values[0].left.id == "obs"
          and isinstance(t.values[0].comparators[0], ast.Constant) and t.values[0].comparators[0].value is None
          and _is_np(t.values[1], "isnan") and isinstance(t.values[1].args[0], ast.Name) and t.values[1].args[0].id == "obs")
    if not ok:
        raise Untranslatable("test is not `obs is None or np.isnan(obs)`")

    def hook(imp, e):
        if (isinstance(e, ast.Subscript) and isinstance(e.value, ast.Name) and e.value.id == "obs_table"
                and isinstance(e.slice, ast.Tuple) and len(e.slice.elts) == 2
                and _attr_chain(e.slice.elts[0]) == ["self", "state"]
                and isinstance(e.slice.elts[1], ast.Call) and isinstance(e.slice.elts[1].func, ast.Name)
                and e.slice.elts[1].func.id == "int" and isinstance(e.slice.elts[1].args[0], ast.Name)
                and e.slice.elts[1].args[0].id == "obs"):
            return ("(mget obs_table self_state o)", Q)
        return _node_hook(imp, e)
    unknown = Imp({}, hook, []).block(st[0].body, None)
    known = Imp({}, hook, []).block(st[1:], None)
    return ("Definition gen_comp_obs_prob (obs : option nat) (obs_table : mat) (self_state : nat) : Qc :=\n"
            f"  match obs with None => {unknown} | Some o =>\n  {known} end.\n"
            "Lemma gen_comp_obs_prob_eq : forall b m s ind,\n"
            "  gen_comp_obs_prob None (confusion_matrix b m) s = 1 /\\\n"
            "  gen_comp_obs_prob (Some (obs_of_indicator ind)) (confusion_matrix b m) s = conf b m s (obs_of_indicator ind).\n"
            "Proof. intros b m s ind. split; reflexivity. Qed.\n")


def translate_transition_prob() -> str:
    fn = _func(ast.parse(_src("lymph/models/unilateral.py")), "transition_prob", "Unilateral")
    if [a.arg for a in fn.args.args] != ["self", "new_state", "assign"]:
        raise Untranslatable("signature")

    def hook(imp, e):
        if (isinstance(e, ast.Call) and _attr_chain(e.func) == ["lnl", "comp_trans_prob"]):
            (arg,) = _kw(e, ["new_state"])
            return (f"(ctp i lnl {imp.coerce(imp.expr(arg), NAT)})", Q)
        if (isinstance(e, ast.Subscript) and isinstance(e.value, ast.Name) and e.value.id == "new_state"
                and isinstance(e.slice, ast.Name) and e.slice.id == "i"):
            return ("(digit i new_state)", NAT)
        return None

    def loop(imp, it, target):
        ok = (isinstance(it, ast.Call) and isinstance(it.func, ast.Name) and it.func.id == "enumerate" and len(it.args) == 1
              and isinstance(it.args[0], ast.Call) and not it.args[0].args
              and _attr_chain(it.args[0].func) == ["self", "graph", "lnls", "values"]
              and isinstance(target, ast.Tuple) and [getattr(x, "id", None) for x in target.elts] == ["i", "lnl"])
        if not ok:
            return None
        return ("(combine (seq 0 (length lnls)) lnls)", "'(i, lnl)", {"i": ("i", NAT)})

    def skip(s):
        # `if assign: self.graph.set_state(*new_state)`: a side effect after the product is complete, not part of the value
        return (isinstance(s, ast.If) and isinstance(s.test, ast.Name) and s.test.id == "assign" and not s.orelse
                and len(s.body) == 1 and isinstance(s.body[0], ast.Expr) and isinstance(s.body[0].value, ast.Call)
                and _attr_chain(s.body[0].value.func) == ["self", "graph", "set_state"])
    imp = Imp({}, hook, [loop], skip_stmt=skip)
    body = imp.block(_strip_doc(fn.body), None)
    return ("Definition gen_transition_prob (lnls : list string) (ctp : nat -> string -> nat -> Qc) (new_state : state) : Qc :=\n  "
            + body + ".\n"
            "Lemma gen_transition_prob_eq : forall g cur ns,\n"
            "  gen_transition_prob (lnls g) (comp_trans_prob g cur) ns = transition_prob g cur ns.\n"
            "Proof.\n  intros g cur ns. unfold gen_transition_prob, transition_prob. cbv zeta.\n"
            "  rewrite (fold_break_mul_ext _ (fun il : nat * string => comp_trans_prob g cur (fst il) (snd il) (digit (fst il) ns)));\n"
            "    [apply (fold_left_ext_pairs (fun i lnl => comp_trans_prob g cur i lnl (digit i ns))) | intros acc stop [i s]; reflexivity | intros H; discriminate H].\nQed.\n")


# ----------------------------------------------------------------------------------------------------------------------
# matrix.compute_encoding: the main loop
# ----------------------------------------------------------------------------------------------------------------------
def translate_compute_encoding() -> str:
    """num_lnls = len(lnls); encoding = np.ones(shape=base**num_lnls, dtype=bool); <element_map chain, see translate.py>;
       for j, lnl in enumerate(lnls):
           if lnl not in pattern or pd.isna(pattern[lnl]): continue
           try: element = element_map[pattern[lnl]]
           except KeyError as k: raise ValueError(...) from k
           encoding = np.logical_and(encoding, tile_and_repeat(mat=element, tile=(1, base**j), repeat=(1, base**(num_lnls-j-1)))[0])
       return encoding"""
    fn = _func(ast.parse(_src("lymph/matrix.py")), "compute_encoding")
    if [a.arg for a in fn.args.args] != ["lnls", "pattern", "base"]:
        raise Untranslatable("signature")
    st = [s for s in _strip_doc(fn.body)]
    # drop the element_map chain (its tables are the obligation `element` of translate.py)
    st = [s for s in st if not (isinstance(s, ast.If) and isinstance(s.test, ast.Compare) and isinstance(s.test.left, ast.Name)
                                and s.test.left.id == "base")]
    if len(st) != 4:
        raise Untranslatable(f"{len(st)} statements besides the element_map chain")
    n_, enc_, loop, ret = st
    ok = (isinstance(n_, ast.Assign) and isinstance(n_.targets[0], ast.Name) and isinstance(n_.value, ast.Call)
          and isinstance(n_.value.func, ast.Name) and n_.value.func.id == "len" and isinstance(n_.value.args[0], ast.Name)
          and n_.value.args[0].id == "lnls")
    if not ok:
        raise Untranslatable("first statement is not `n = len(lnls)`")
    n = n_.targets[0].id
    sc = Imp({n: ("(length lnls)", NAT), "base": ("base", NAT)}, _nohook, [])
    ok = (isinstance(enc_, ast.Assign) and isinstance(enc_.targets[0], ast.Name) and isinstance(enc_.value, ast.Call)
          and _attr_chain(enc_.value.func) == ["np", "ones"] and not enc_.value.args
          and sorted(k.arg for k in enc_.value.keywords) == ["dtype", "shape"])
    if not ok:
        raise Untranslatable("second statement is not `encoding = np.ones(shape=..., dtype=bool)`")
    kw = {k.arg: k.value for k in enc_.value.keywords}
    if not (isinstance(kw["dtype"], ast.Name) and kw["dtype"].id == "bool"):
        raise Untranslatable("dtype")
    enc = enc_.targets[0].id
    init = f"repeat true {sc.coerce(sc.expr(kw['shape']), NAT)}"
    ok = (isinstance(loop, ast.For) and isinstance(loop.iter, ast.Call) and isinstance(loop.iter.func, ast.Name)
          and loop.iter.func.id == "enumerate" and len(loop.iter.args) == 1 and isinstance(loop.iter.args[0], ast.Name)
          and loop.iter.args[0].id == "lnls" and isinstance(loop.target, ast.Tuple) and len(loop.target.elts) == 2
          and all(isinstance(x, ast.Name) for x in loop.target.elts) and not loop.orelse and len(loop.body) == 3)
    if not ok:
        raise Untranslatable("loop is not `for j, lnl in enumerate(lnls)` with three statements")
    j, lnl = (x.id for x in loop.target.elts)
    skip, tr, upd = loop.body
    pat_lnl = ast.dump(ast.parse(f"pattern[{lnl}]", mode="eval").body)
    want = ast.dump(ast.parse(f"{lnl} not in pattern or pd.isna(pattern[{lnl}])", mode="eval").body)
    if not (isinstance(skip, ast.If) and not skip.orelse and len(skip.body) == 1 and isinstance(skip.body[0], ast.Continue)
            and ast.dump(skip.test) == want):
        raise Untranslatable("first loop statement is not `if lnl not in pattern or pd.isna(pattern[lnl]): continue`")
    ok = (isinstance(tr, ast.Try) and len(tr.body) == 1 and isinstance(tr.body[0], ast.Assign)
          and isinstance(tr.body[0].targets[0], ast.Name) and isinstance(tr.body[0].value, ast.Subscript)
          and isinstance(tr.body[0].value.value, ast.Name) and tr.body[0].value.value.id == "element_map"
          and ast.dump(tr.body[0].value.slice) == pat_lnl and len(tr.handlers) == 1
          and isinstance(tr.handlers[0].type, ast.Name) and tr.handlers[0].type.id == "KeyError"
          and len(tr.handlers[0].body) == 1 and isinstance(tr.handlers[0].body[0], ast.Raise)
          and not tr.orelse and not tr.finalbody)
    if not ok:
        raise Untranslatable("second loop statement is not `try: element = element_map[pattern[lnl]] except KeyError: raise`")
    el = tr.body[0].targets[0].id
    sc.env[j] = (j, NAT)
    ok = (isinstance(upd, ast.Assign) and isinstance(upd.targets[0], ast.Name) and upd.targets[0].id == enc
          and _is_np(upd.value, "logical_and") and len(upd.value.args) == 2 and isinstance(upd.value.args[0], ast.Name)
          and upd.value.args[0].id == enc and isinstance(upd.value.args[1], ast.Subscript)
          and isinstance(upd.value.args[1].slice, ast.Constant) and upd.value.args[1].slice.value == 0
          and isinstance(upd.value.args[1].value, ast.Call) and isinstance(upd.value.args[1].value.func, ast.Name)
          and upd.value.args[1].value.func.id == "tile_and_repeat")
    if not ok:
        raise Untranslatable("third loop statement is not `encoding = np.logical_and(encoding, tile_and_repeat(...)[0])`")
    m, tl, rp = _kw(upd.value.args[1].value, ["mat", "tile", "repeat"])
    if not (isinstance(m, ast.Name) and m.id == el):
        raise Untranslatable("tile_and_repeat(mat=...)")
    arr = Arr(sc, {}, {})
    (t0, t1), (r0, r1) = arr.pair(tl), arr.pair(rp)
    if (t0, r0) != ("1%nat", "1%nat"):
        raise Untranslatable("tile / repeat along axis 0 must be 1")
    if not (isinstance(ret, ast.Return) and isinstance(ret.value, ast.Name) and ret.value.id == enc):
        raise Untranslatable("return")
    return ("Definition gen_compute_encoding (lnls : list string) (pattern : pattern) (base : nat) : option bvec :=\n"
            f"  fold_left (fun (acc : option bvec) '({j}, {lnl}) =>\n"
            f"      match acc with None => None | Some {enc} =>\n"
            f"        match pat_get {lnl} pattern with\n"
            f"        | None => Some {enc}\n"
            f"        | Some ind =>\n"
            f"            match element base ind with\n"
            f"            | None => None\n"
            f"            | Some {el} => Some (map2 andb {enc} (tile_and_repeat_row {el} {t1} {r1}))\n"
            f"            end\n        end\n      end)\n"
            f"    (combine (seq 0 (length lnls)) lnls) (Some ({init})).\n"
            "Lemma gen_compute_encoding_eq : forall l p b, gen_compute_encoding l p b = compute_encoding l p b.\n"
            "Proof. intros l p b. reflexivity. Qed.\n")


# ----------------------------------------------------------------------------------------------------------------------
# matrix.generate_transition: N x N index grids, fancy indexing, np.where  (advisory: a loop nest maintainers do rewrite)
# ----------------------------------------------------------------------------------------------------------------------
class Grid:
    """2-D arrays of equal shape and element-wise code over them.
    statements   NAME = ARRAY | NAME = NAT | NAME *= ARRAY (Hadamard) | lnls = list(lnls) (dropped)
                 | if edge.is_tumor_spread: ...; V = A  else: ...; V = B        (both branches end by assigning V)
                 | for i, lnl in enumerate(lnls): BODY | for edge in lnl.inc: BODY   (one accumulator each) | return NAME
    arrays       NAME | np.ones(shape=(A, B)) | get_state_idx_matrix(lnl_idx=, num_lnls=, num_states=) | NAME.T
                 | edge.transition_tensor[0 | NAME, NAME, NAME] | element-wise expressions over array names:
                   A == B (as 0/1 values), np.where(A == B + 1, X, Y), + - * with integer / float constants"""

    def __init__(self):
        self.nat = Imp({}, self._nat_hook, [])
        self.arr = {}                     # python name -> 'nat' | 'Q'

    def _nat_hook(self, imp, e):
        if isinstance(e, ast.Call) and isinstance(e.func, ast.Name) and e.func.id == "len" and len(e.args) == 1 \
                and isinstance(e.args[0], ast.Name) and e.args[0].id == "lnls":
            return ("(length lnl_names)", NAT)
        if (isinstance(e, ast.Call) and _attr_chain(e.func) == ["lnls", "index"] and len(e.args) == 1
                and _attr_chain(e.args[0]) == ["edge", "parent"]):
            return ("(index_of (e_parent edge) lnl_names)", NAT)
        return None

    # element-wise scalar expression over array leaves; returns (text, type) with leaves replaced by fresh binders
    def elem(self, e, leaves: list, cond=False):
        if isinstance(e, ast.Name) and e.id in self.arr:
            if e.id not in leaves:
                leaves.append(e.id)
            return (f"x_{e.id}", self.arr[e.id])
        if isinstance(e, ast.Constant) and not isinstance(e.value, bool) and isinstance(e.value, (int, float)) and e.value == int(e.value):
            return (str(int(e.value)), INT)
        if isinstance(e, ast.BinOp) and isinstance(e.op, (ast.Add, ast.Sub, ast.Mult)):
            a, b = self.elem(e.left, leaves), self.elem(e.right, leaves)
            op = {ast.Add: "+", ast.Sub: "-", ast.Mult: "*"}[type(e.op)]
            ty = Q if Q in (a[1], b[1]) else NAT
            if ty == NAT and not isinstance(e.op, ast.Add):
                raise Untranslatable("only + on index grids")
            co = self.nat.coerce
            return (f"({co(a, ty)} {op} {co(b, ty)})", ty)
        if isinstance(e, ast.Compare) and len(e.ops) == 1 and isinstance(e.ops[0], ast.Eq):
            a, b = self.elem(e.left, leaves), self.elem(e.comparators[0], leaves)
            if Q in (a[1], b[1]):
                raise Untranslatable("== on values")
            t = f"Nat.eqb {self.nat.coerce(a, NAT)} {self.nat.coerce(b, NAT)}"
            return (f"({t})", BOOL) if cond else (f"(if {t} then 1 else 0)", Q)
        if _is_np(e, "where") and len(e.args) == 3:
            c = self.elem(e.args[0], leaves, cond=True)
            x, y = self.elem(e.args[1], leaves), self.elem(e.args[2], leaves)
            if c[1] != BOOL:
                raise Untranslatable("np.where condition")
            return (f"(if {c[0][1:-1]} then {self.nat.coerce(x, Q)[1:-1]} else {self.nat.coerce(y, Q)[1:-1]})", Q)
        raise Untranslatable(f"element-wise expression {ast.dump(e)[:160]}")

    def array(self, e):
        """-> (text, element type)"""
        if isinstance(e, ast.Name) and e.id in self.arr:
            return (e.id, self.arr[e.id])
        if isinstance(e, ast.Call) and _attr_chain(e.func) == ["np", "ones"] and not e.args and len(e.keywords) == 1 \
                and e.keywords[0].arg == "shape" and isinstance(e.keywords[0].value, ast.Tuple) and len(e.keywords[0].value.elts) == 2:
            r, c = (self.nat.coerce(self.nat.expr(x), NAT) for x in e.keywords[0].value.elts)
            return (f"(np_ones {r} {c})", Q)
        if isinstance(e, ast.Call) and isinstance(e.func, ast.Name) and e.func.id == "get_state_idx_matrix":
            k, n, b = (self.nat.coerce(self.nat.expr(x), NAT) for x in _kw(e, ["lnl_idx", "num_lnls", "num_states"]))
            return (f"(np_state_idx {k} {n} {b})", NAT)
        if isinstance(e, ast.Attribute) and e.attr == "T" and isinstance(e.value, ast.Name) and e.value.id in self.arr:
            ty = self.arr[e.value.id]
            return (f"(np_transpose {'0%nat' if ty == NAT else '0'} {e.value.id})", ty)
        s3 = _sub3(e)
        if s3 is not None and _attr_chain(s3[0]) == ["edge", "transition_tensor"]:
            p, c, nw = s3[1]
            if not all(isinstance(x, ast.Name) and self.arr.get(x.id) == NAT for x in (c, nw)):
                raise Untranslatable("tensor index grids")
            if isinstance(p, ast.Constant) and p.value == 0:
                return (f"(np_map2 (fun c nw => tget (tt edge) 0 c nw) {c.id} {nw.id})", Q)
            if isinstance(p, ast.Name) and self.arr.get(p.id) == NAT:
                return (f"(np_map3 (fun p c nw => tget (tt edge) p c nw) {p.id} {c.id} {nw.id})", Q)
            raise Untranslatable("tensor parent index")
        leaves = []
        t, ty = self.elem(e, leaves)
        if not 2 <= len(leaves) <= 4 or ty != Q:
            raise Untranslatable(f"element-wise expression over {len(leaves)} arrays")
        binders = " ".join(f"x_{n}" for n in leaves)
        return (f"(np_map{len(leaves)} (fun {binders} => {t[1:-1] if t.startswith('(') else t}) {' '.join(leaves)})", Q)

    def block(self, stmts, tail) -> str:
        if not stmts:
            if tail is None:
                raise Untranslatable("falls through")
            return tail
        s, rest = stmts[0], stmts[1:]
        if isinstance(s, ast.Return) and not rest and isinstance(s.value, ast.Name) and s.value.id in self.arr:
            return s.value.id
        if isinstance(s, ast.Assign) and len(s.targets) == 1 and isinstance(s.targets[0], ast.Name):
            name = s.targets[0].id
            v = s.value
            if (name == "lnls" and isinstance(v, ast.Call) and isinstance(v.func, ast.Name) and v.func.id == "list"
                    and len(v.args) == 1 and isinstance(v.args[0], ast.Name) and v.args[0].id == "lnls"):
                return self.block(rest, tail)
            try:
                t, ty = self.nat.expr(v)
                self.nat.env[name] = (name, NAT)
                return f"let {name} := {self.nat.coerce((t, ty), NAT)} in\n  {self.block(rest, tail)}"
            except Untranslatable:
                pass
            t, ty = self.array(v)
            self.arr[name] = ty
            return f"let {name} := {t} in\n  {self.block(rest, tail)}"
        if isinstance(s, ast.AugAssign) and isinstance(s.op, ast.Mult) and isinstance(s.target, ast.Name) \
                and self.arr.get(s.target.id) == Q and isinstance(s.value, ast.Name) and self.arr.get(s.value.id) == Q:
            return f"let {s.target.id} := hadamard {s.target.id} {s.value.id} in\n  {self.block(rest, tail)}"
        if isinstance(s, ast.If) and s.orelse and _attr_chain(s.test) == ["edge", "is_tumor_spread"]:
            def branch(body):
                last = body[-1]
                if not (isinstance(last, ast.Assign) and isinstance(last.targets[0], ast.Name)):
                    raise Untranslatable("branch does not end in an assignment")
                saved = (dict(self.arr), dict(self.nat.env))
                marker = "@@V@@"
                txt = self.block(body[:-1], marker)
                val = self.array(last.value)
                self.arr, self.nat.env = saved
                return last.targets[0].id, txt.replace(marker, val[0]), val[1]
            v1, a, ty1 = branch(s.body)
            v2, b, ty2 = branch(s.orelse)
            if v1 != v2 or ty1 != ty2:
                raise Untranslatable("branches assign different variables")
            self.arr[v1] = ty1
            return f"let {v1} := if is_tumor_spread edge then {a} else ({b}) in\n  {self.block(rest, tail)}"
        if isinstance(s, ast.For) and not s.orelse:
            it, tg = s.iter, s.target
            if (isinstance(it, ast.Call) and isinstance(it.func, ast.Name) and it.func.id == "enumerate" and len(it.args) == 1
                    and isinstance(it.args[0], ast.Name) and it.args[0].id == "lnls" and isinstance(tg, ast.Tuple)
                    and [getattr(x, "id", None) for x in tg.elts] == ["i", "lnl"]):
                lst, binder = "(combine (seq 0 (length lnl_names)) lnl_names)", "'(i, lnl)"
                bound = {"i": ("i", NAT)}
            elif _attr_chain(it) == ["lnl", "inc"] and isinstance(tg, ast.Name) and tg.id == "edge":
                lst, binder, bound = "(inc lnl)", "(edge : edge)", {}
            else:
                raise Untranslatable(f"loop over {ast.dump(it)[:120]}")
            acc = [n for n in Imp.assigned(s.body) if n in self.arr]
            if len(acc) != 1:
                raise Untranslatable(f"loop accumulators {acc}")
            saved = (dict(self.arr), dict(self.nat.env))
            self.nat.env.update(bound)
            inner = self.block(list(s.body), acc[0])
            self.arr, self.nat.env = saved
            return (f"let {acc[0]} := fold_left (fun ({acc[0]} : mat) {binder} =>\n    {inner})\n    {lst} {acc[0]} in\n  "
                    f"{self.block(rest, tail)}")
        raise Untranslatable(f"statement {type(s).__name__}: {ast.dump(s)[:160]}")


def translate_generate_transition() -> str:
    fn = _func(ast.parse(_src("lymph/matrix.py")), "generate_transition")
    if [a.arg for a in fn.args.args] != ["lnls", "num_states"]:
        raise Untranslatable("signature")
    g = Grid()
    g.nat.env["num_states"] = ("num_states", NAT)
    body = g.block(_strip_doc(fn.body), None)
    return ("Definition gen_generate_transition (lnl_names : list string) (inc : string -> list edge) (tt : edge -> tensor)\n"
            "  (num_states : nat) : mat :=\n  " + body + ".\n"
            "Lemma gen_generate_transition_np : forall l inc tt b,\n"
            "  gen_generate_transition l inc tt b = np_generate_transition l inc tt b.\n"
            "Proof. intros. reflexivity. Qed.\n"
            "Lemma gen_generate_transition_eq : forall g, wf_graphb g = true ->\n"
            "  gen_generate_transition (lnls g) (inc_edges g) (transition_tensor (g_base g)) (g_base g) = generate_transition g.\n"
            "Proof. intros g H. rewrite gen_generate_transition_np. apply np_generate_transition_eq. exact H. Qed.\n")


HEADER = ("(* GENERATED on every run by harness/translate2.py from the Python source of lymph; do not edit *)\n"
          "From LymphModel Require Import Base States Linalg Graph Transition Observation Dist Unilateral Numpy NumpyTransition.\n"
          "Local Open Scope nat_scope.\nOpen Scope Qc_scope.\n\n"
          "Lemma fold_left_ext_pairs : forall (h : nat -> string -> Qc) l acc,\n"
          "  fold_left (fun acc (x : nat * string) => acc * h (fst x) (snd x)) l acc\n"
          "  = fold_left (fun tp '(i, lnl) => tp * h i lnl) l acc.\n"
          "Proof. intros h l. induction l as [|[i s] l IH]; intros acc; cbn [fold_left fst snd]; [reflexivity|apply IH]. Qed.\n\n")

PIECES = {
    "state_idx": (translate_state_idx, "gen_get_state_idx_matrix_eq", "lymph/utils.py get_state_idx_matrix"),
    "tile_and_repeat": (translate_tile_and_repeat, "gen_tile_and_repeat_eq", "lymph/utils.py tile_and_repeat"),
    "row_wise_kron": (translate_row_wise_kron, "gen_row_wise_kron_eq", "lymph/utils.py row_wise_kron"),
    "comp_trans_prob": (translate_comp_trans_prob, "gen_comp_trans_prob_eq", "lymph/graph.py LymphNodeLevel.comp_trans_prob"),
    "comp_bayes_net_prob": (translate_comp_bayes_net_prob, "gen_comp_bayes_net_prob_eq", "lymph/graph.py LymphNodeLevel.comp_bayes_net_prob"),
    "comp_obs_prob": (translate_comp_obs_prob, "gen_comp_obs_prob_eq", "lymph/graph.py AbstractNode.comp_obs_prob"),
    "transition_prob": (translate_transition_prob, "gen_transition_prob_eq", "lymph/models/unilateral.py Unilateral.transition_prob"),
    "generate_transition": (translate_generate_transition, "gen_generate_transition_eq", "lymph/matrix.py generate_transition"),
    "compute_encoding": (translate_compute_encoding, "gen_compute_encoding_eq", "lymph/matrix.py compute_encoding (main loop)"),
}


def generate(piece: str) -> str:
    fn, lemma, _ = PIECES[piece]
    return HEADER + fn() + f"Print Assumptions {lemma}.\n"


if __name__ == "__main__":
    import sys
    for p in (sys.argv[1:] or PIECES):
        print(generate(p))
