"""C20: equality and hashes of modalities, distributions, graphs and collections track their content.

Every case is a PAIR of objects (an object and an edited object, or an equal reconstruction through
another route), built in this one Python process.  Observed on the implementation: `a == b`,
`b == a`, `hash(a) == hash(b)` (hash VALUES are only ever compared with each other inside this
process and never stored), that `hash()` does not raise, and the content that is hashed (confusion
matrix, (is_updateable, keywords, pmf), edge names + transition tensors, collection entries).
The Coq model (Hash.v) supplies the KEY of both objects and the value of `__eq__`; the check demands
  * hashed content == model key (tolerance 1e-9 on numbers, exact on names / flags / order),
  * Python `==`  ==  model eq,
  * `hash(a) == hash(b)`  ==  (model key a == model key b)      [hash collisions: 2^-64, ignored]
so each single edit must change `==` and the hash exactly when the theorems of properties/C20.v say
the key changes.
"""
from __future__ import annotations

import copy
import json

import numpy as np

from .. import gen, impl
from ..core import (Ctx, HarnessError, VERIF, boolean, correspondence, first_diff, fracs, lst, nat, q,
                    run_standard, s, tup)
from ..coqterms import coq_graph

IMPORTS = "Base States Linalg Graph Transition Observation Dist Hash HashDist2"

SMALL_G = {("tumor", "T"): ["A"], ("lnl", "A"): []}
KW_DEFAULT = {"p": 0.5, "a": 0.5, "b": 1.0}
STAGES = ["early", "late", "mid"]
MID_CHILDREN = {(False, False): ["ext", "noext"], (True, False): ["ext", "noext", "central"],
                (False, True): ["ext", "noext", "unknown"], (True, True): ["ext", "noext", "central", "unknown"]}


# ------------------------------------------------------------------------------------------
# values
# ------------------------------------------------------------------------------------------
def dy(rng) -> float:
    """short dyadic in [0, 1] (exact float arithmetic for 1 - x, x * y)"""
    r = rng.random()
    if r < 0.2:
        return float(rng.choice([0, 1]))
    if r < 0.85:
        return rng.randint(0, 16) / 16.0
    return rng.randint(1, 1023) / 1024.0


def other(rng, v, draw):
    for _ in range(100):
        w = draw(rng)
        if w != v:
            return w
    return 0.5 if v != 0.5 else 0.25


def full_kw(fam: int, kw: dict) -> dict:
    """all keywords of the family in signature order (what functools.partial stores)"""
    return {k: float(kw.get(k, KW_DEFAULT[k])) for k in impl.FAM_KEYS[fam]}


# ------------------------------------------------------------------------------------------
# generators
# ------------------------------------------------------------------------------------------
def gen_mod(rng) -> dict:
    base = rng.choice([2, 3])
    cls = rng.choice(["Clinical", "Pathological"] + (["Modality"] if base == 2 else []))
    sp, sn = gen.gen_value(rng), gen.gen_value(rng)
    edit = rng.choice(["same", "spec", "sens", "both", "kind", "kind", "kindcompl", "kindcompl", "kindvalue", "swap",
                       "sens_to_spec", "spec_to_sens", "arity"])
    a = [cls, sp, sn]
    b = [cls, sp, sn]
    flip = {"Clinical": "Pathological", "Pathological": "Clinical", "Modality": "Pathological"}
    if edit == "spec":
        b[1] = other(rng, sp, gen.gen_value)
    elif edit == "sens":
        b[2] = other(rng, sn, gen.gen_value)
    elif edit == "both":
        b[1] = other(rng, sp, gen.gen_value)
        b[2] = other(rng, sn, gen.gen_value)
    elif edit == "kind":
        b[0] = flip[cls]
    elif edit == "kindcompl":            # sp = 1 - sn exactly: the kind switch is invisible
        sp = dy(rng)
        a = [cls, sp, 1.0 - sp]
        b = [flip[cls], sp, 1.0 - sp]
    elif edit == "kindvalue":
        b[0] = flip[cls]
        b[rng.choice([1, 2])] = dy(rng)
    elif edit == "swap":                 # spec and sens exchanged
        b = [cls, sn, sp]
    elif edit == "sens_to_spec":         # the new sensitivity equals the CURRENT specificity (and vice versa below):
        b = [cls, sp, sp]                # an edit that a setter comparing with the wrong field would take for "unchanged"
    elif edit == "spec_to_sens":
        b = [cls, sn, sn]
    via = rng.choice(["ctor", "ctor", "setter", "model"])
    if edit in ("sens_to_spec", "spec_to_sens"):
        via = "setter"
    if via == "setter" and a[0] != b[0]:
        via = "ctor"
    if via == "model" and "Modality" in (a[0], b[0]):
        via = "ctor"
    if edit == "arity":                  # the same modality as binary (a) and trinary (b): == must be False, not raise
        if cls == "Modality":
            cls = a[0] = b[0] = "Clinical"
        return {"kind": "mod", "base": 2, "base_b": 3, "a": a, "b": b, "via": rng.choice(["ctor", "setter"]), "edit": edit}
    return {"kind": "mod", "base": base, "a": a, "b": b, "via": via, "edit": edit}


def gen_dspec(rng, maxt: int, what=None) -> dict:
    what = what or rng.choice(["frozen", "frozen", "fam0", "fam1"])
    if what == "frozen":
        scale = rng.choice([1, 1, 4])
        w = [rng.choice([0, 1, 2, 3, 5]) / scale for _ in range(maxt + 1)]
        if sum(w) == 0:
            w[rng.randrange(len(w))] = 1.0
        return {"frozen": [float(x) for x in w]}
    if what == "fam0":
        return {"fam": 0, "kw": full_kw(0, {"p": dy(rng)})}
    return {"fam": 1, "kw": full_kw(1, {"a": rng.randint(0, 8) / 4.0, "b": rng.randint(1, 8) / 4.0})}


def edit_dspec(rng, d: dict, maxt: int):
    """(label, edited spec)"""
    if "frozen" in d:
        ed = rng.choice(["same", "scale", "scale", "weight", "weight", "toparam"])
        if ed == "scale":
            c = rng.choice([2.0, 3.0, 0.5, 5.0])
            return ed, {"frozen": [w * c for w in d["frozen"]]}
        if ed == "weight":
            w = list(d["frozen"])
            i = rng.randrange(len(w))
            w[i] = other(rng, w[i], lambda r: float(r.choice([0, 1, 2, 3, 5])))
            if sum(w) == 0:
                w[i] = 1.0
            return ed, {"frozen": w}
        if ed == "toparam":
            return ed, gen_dspec(rng, maxt, rng.choice(["fam0", "fam1"]))
        return "same", copy.deepcopy(d)
    ed = rng.choice(["same", "kw", "kw", "kwscale", "freeze", "tofrozen", "otherfam"])
    if ed == "kw":
        kw = dict(d["kw"])
        k = rng.choice(list(kw))
        if k == "p":
            kw[k] = other(rng, kw[k], dy)
        elif k == "a":
            kw[k] = other(rng, kw[k], lambda r: r.randint(0, 8) / 4.0)
        else:
            kw[k] = other(rng, kw[k], lambda r: r.randint(1, 8) / 4.0)
        return ed, {"fam": d["fam"], "kw": kw}
    if ed == "kwscale" and d["fam"] == 1:      # (a, b) -> (2a, 2b): other keywords, same normalised pmf
        return ed, {"fam": 1, "kw": {"a": d["kw"]["a"] * 2.0, "b": d["kw"]["b"] * 2.0}}
    if ed == "freeze":                          # a frozen distribution with the same pmf
        return ed, {"frozen_of": copy.deepcopy(d)}
    if ed == "tofrozen":
        return ed, gen_dspec(rng, maxt, "frozen")
    if ed == "otherfam":
        return ed, gen_dspec(rng, maxt, "fam1" if d["fam"] == 0 else "fam0")
    return "same", copy.deepcopy(d)


def gen_dist(rng) -> dict:
    maxt = rng.choice([0, 1, 2, 3, 4])
    a = gen_dspec(rng, maxt)
    if rng.random() < 0.15:
        # the SAME specification on another support (D23: == must answer False, not raise; the keys differ)
        mb = maxt + 1 if (maxt == 0 or rng.random() < 0.5) else maxt - 1
        b = copy.deepcopy(a)
        if "frozen" in b:
            b["frozen"] = (b["frozen"] + [rng.choice([0.0, 1.0, 2.0])]) if mb > maxt else (b["frozen"][:-1] if sum(b["frozen"][:-1]) > 0
                                                                                          else [1.0] * (mb + 1))
        return {"kind": "dist", "maxt": maxt, "maxt_b": mb, "a": a, "b": b, "via": "ctor", "kw0": None, "edit": "support"}
    edit, b = edit_dspec(rng, a, maxt)
    via, kw0 = "ctor", None
    if "fam" in b:
        via = rng.choice(["ctor", "copy", "set", "setpos"])
        if via in ("set", "setpos"):
            kw0 = gen_dspec(rng, maxt, f"fam{b['fam']}")["kw"]
    return {"kind": "dist", "maxt": maxt, "a": a, "b": b, "via": via, "kw0": kw0, "edit": edit}


def rename_graph(g: dict, params: dict, old: str, new: str):
    ren = lambda x: new if x == old else x  # noqa: E731
    g2 = {"base": g["base"], "entries": [[k, ren(n), [ren(c) for c in cs]] for k, n, cs in g["entries"]]}
    names_old = gen.edge_param_names(g)
    names_new = gen.edge_param_names(g2)
    return g2, {nn: params[no] for no, nn in zip(names_old, names_new)}


def gen_graph_case(rng) -> dict:
    base = rng.choice([2, 3, 3])
    g = gen.gen_graph(rng, max_lnls=3, base=base)
    pa = gen.gen_edge_params(rng, g)
    names = list(pa)
    pb = dict(pa)
    gb = None
    lnl_arcs = [n[:-6] for n in names if n.endswith("_micro")]
    edit = rng.choice(["same", "one", "one", "one", "micro0", "micro0", "micropos", "rename", "relist", "all"])
    if edit in ("micro0", "micropos") and not lnl_arcs:
        edit = "one"
    if edit == "one":
        k = rng.choice(names)
        pb[k] = other(rng, pa[k], gen.gen_value)
    elif edit == "micro0":                # micro changes while the arc's spread is 0: invisible
        arc = rng.choice(lnl_arcs)
        pa[arc + "_spread"] = 0.0
        pb = dict(pa)
        pb[arc + "_micro"] = other(rng, pa[arc + "_micro"], dy)
    elif edit == "micropos":
        arc = rng.choice(lnl_arcs)
        pa[arc + "_spread"] = other(rng, 0.0, dy)
        pb = dict(pa)
        pb[arc + "_micro"] = other(rng, pa[arc + "_micro"], dy)
    elif edit == "rename":
        lnls = gen.lnls_of(g)
        old = rng.choice(lnls)
        new = rng.choice([x for x in gen.LNL_NAMES + ["V"] if x not in lnls])
        gb, pb = rename_graph(g, pa, old, new)
    elif edit == "relist":
        entries = copy.deepcopy(g["entries"])
        rng.shuffle(entries)
        for e in entries:
            rng.shuffle(e[2])
        gb = {"base": base, "entries": entries}
        pb = {k: pa[k] for k in gen.edge_param_names(gb)}
    elif edit == "all":
        pb = {k: other(rng, pa[k], gen.gen_value) for k in names}
    nl = len(gen.lnls_of(g))
    states_b = [0] * nl if rng.random() < 0.5 else [rng.randrange(base) for _ in range(nl)]
    return {"kind": "graph", "graph": g, "pa": pa, "pb": pb, "gb": gb, "states_b": states_b,
            "via": rng.choice(["uni", "uni", "repr", "bi"]), "edit": edit}


def sim_ops(ops) -> dict:
    """what a leaf's dict contains after the operations (None if an operation would raise)"""
    d = {}
    for op in ops:
        if op[0] == "set":
            d[op[1]] = op[2]
        elif op[0] == "del":
            if op[1] not in d:
                return None
            del d[op[1]]
        elif op[0] == "clear":
            d = {}
        elif op[0] == "replace":
            d = {}
            for n, v in op[1]:
                d[n] = v
        elif op[0] == "params":
            t, kw = op[1], op[2]
            if t not in d or "fam" not in d[t]:
                return None
            nk = dict(d[t]["kw"])
            nk.update(kw)
            d[t] = {"fam": d[t]["fam"], "kw": nk}
    return d


def gen_coll(rng, what: str) -> dict:
    """what = 'modcoll' | 'distcoll'; items are [sp, sn, kind] / distribution specs"""
    base = rng.choice([2, 3])
    maxt = rng.choice([1, 2, 3])
    cls = rng.choice(["uni", "uni", "bi", "mid"])
    midcfg = [rng.random() < 0.4, rng.random() < 0.6]       # use_central, marginalize_unknown
    pool = gen.MOD_NAMES if what == "modcoll" else STAGES

    def item():
        if what == "modcoll":
            return [gen.gen_value(rng), gen.gen_value(rng), rng.choice(["clinical", "pathological"])]
        return gen_dspec(rng, maxt)

    def changed(it):
        if what == "modcoll":
            it2 = list(it)
            r = rng.random()
            if r < 0.4:
                it2[0] = other(rng, it[0], gen.gen_value)
            elif r < 0.8:
                it2[1] = other(rng, it[1], gen.gen_value)
            else:
                it2[2] = "pathological" if it[2] == "clinical" else "clinical"
            return it2
        for _ in range(20):
            lab, d2 = edit_dspec(rng, it, maxt)
            if "frozen_of" not in d2 and lab != "same":
                return d2
        return gen_dspec(rng, maxt)

    k = rng.randint(0, len(pool) - 1)
    names = rng.sample(pool, k)
    pre = [["set", n, item()] for n in names]
    cur = sim_ops(pre)
    free = [n for n in pool if n not in cur]
    edits = ["rebuild", "add", "addel"]
    if cur:
        edits += ["reset", "change", "change", "del", "rename", "renamekeep", "renamekeep", "clear", "delreadd", "back",
                  "replacesame"]
        if what == "distcoll" and any("fam" in v for v in cur.values()):
            edits += ["params", "params"]
    if len(cur) >= 2:
        edits += ["reorder", "reorder"]
    edit = rng.choice(edits)
    ea, eb = [], []
    if edit == "add":
        eb = [["set", free[0], item()]]
    elif edit == "addel":
        eb = [["set", free[0], item()], ["del", free[0]]]
    elif edit == "reset":
        n = rng.choice(list(cur))
        eb = [["set", n, copy.deepcopy(cur[n])]]
    elif edit == "change":
        n = rng.choice(list(cur))
        eb = [["set", n, changed(cur[n])]]
    elif edit == "del":
        eb = [["del", rng.choice(list(cur))]]
    elif edit == "rename":
        n = rng.choice(list(cur))
        eb = [["del", n], ["set", free[0], copy.deepcopy(cur[n])]]
    elif edit == "renamekeep":            # same values at the same positions, one name changed
        n = rng.choice(list(cur))
        eb = [["replace", [[free[0] if m == n else m, copy.deepcopy(v)] for m, v in cur.items()]]]
    elif edit == "clear":
        eb = [["clear"]]
    elif edit == "delreadd":
        n = rng.choice(list(cur))
        eb = [["del", n], ["set", n, copy.deepcopy(cur[n])]]
    elif edit == "back":
        n = rng.choice(list(cur))
        eb = [["set", n, changed(cur[n])], ["set", n, copy.deepcopy(cur[n])]]
    elif edit == "replacesame":
        eb = [["replace", [[n, copy.deepcopy(v)] for n, v in cur.items()]]]
    elif edit == "reorder":
        items = [[n, copy.deepcopy(v)] for n, v in cur.items()]
        perm = items[:]
        while perm == items:
            rng.shuffle(perm)
        eb = [["replace", perm]]
    elif edit == "params":
        t = rng.choice([n for n, v in cur.items() if "fam" in v])
        d2 = None
        for _ in range(20):
            lab, d2 = edit_dspec(rng, cur[t], maxt)
            if lab == "kw":
                break
        if d2 is None or "kw" not in d2 or d2.get("fam") != cur[t]["fam"]:
            d2 = cur[t]
        eb = [["params", t, {k: v for k, v in d2["kw"].items() if v != cur[t]["kw"][k]}]]
    return {"kind": what, "base": base, "maxt": maxt, "cls": cls, "midcfg": midcfg, "pre": pre, "ea": ea, "eb": eb,
            "edit": edit}


# ------------------------------------------------------------------------------------------
# implementation side
# ------------------------------------------------------------------------------------------
def _mod_cls(name):
    from lymph import modalities
    return {"Modality": modalities.Modality, "Clinical": modalities.Clinical, "Pathological": modalities.Pathological}[name]


def _kind(cls_name):
    return "pathological" if cls_name == "Pathological" else "clinical"


def make_model(cls, base, maxt=3, midcfg=(False, True)):
    from lymph import models
    tri = base == 3
    if cls == "uni":
        return (models.Unilateral.trinary if tri else models.Unilateral.binary)(SMALL_G, max_time=maxt)
    if cls == "bi":
        return (models.Bilateral.trinary if tri else models.Bilateral.binary)(SMALL_G, uni_kwargs={"max_time": maxt})
    central, unknown = midcfg
    return (models.Midline.trinary if tri else models.Midline.binary)(
        SMALL_G, uni_kwargs={"max_time": maxt}, use_central=bool(central), marginalize_unknown=bool(unknown),
        use_midext_evo=not central)


def leaves_of(model, cls, midcfg):
    """the Unilateral leaves in the order the hashes fold them"""
    if cls == "uni":
        return [model]
    if cls == "bi":
        return [model.ipsi, model.contra]
    out = []
    for name in MID_CHILDREN[(bool(midcfg[0]), bool(midcfg[1]))]:
        child = getattr(model, name)
        out += [child.ipsi, child.contra]
    return out


def impl_mod(c):
    tri = c["base"] == 3
    (ca, spa, sna), (cb, spb, snb) = c["a"], c["b"]
    if c.get("base_b"):
        a = _mod_cls(ca)(spa, sna, tri)
        if c["via"] == "setter":
            b = _mod_cls(cb)(spb, snb, tri)
            hash(b)
            b.is_trinary = c["base_b"] == 3
        else:
            b = _mod_cls(cb)(spb, snb, c["base_b"] == 3)
    elif c["via"] == "model":
        m = make_model("uni", c["base"])
        m.set_modality("A", spa, sna, _kind(ca))
        m.set_modality("B", spb, snb, _kind(cb))
        a, b = m.get_modality("A"), m.get_modality("B")
    else:
        a = _mod_cls(ca)(spa, sna, tri)
        if c["via"] == "setter":
            b = _mod_cls(cb)(spa, sna, tri)
            hash(b)                       # fill the cached confusion matrix before editing
            b.spec = spb
            b.sens = snb
        else:
            b = _mod_cls(cb)(spb, snb, tri)
    ha, hb = hash(a), hash(b)
    return {"eq_ab": bool(a == b), "eq_ba": bool(b == a), "heq": ha == hb, "stable": ha == hash(a) and hb == hash(b),
            "cm_a": a.confusion_matrix.tolist(), "cm_b": b.confusion_matrix.tolist(),
            "eq_other": bool(a == "x") or bool(a == None)}  # noqa: E711


def build_dist(d, maxt, via="ctor", kw0=None):
    from lymph.diagnosis_times import Distribution
    if "frozen" in d:
        return Distribution([float(w) for w in d["frozen"]])
    if "frozen_of" in d:
        return Distribution(build_dist(d["frozen_of"], maxt).pmf)
    f = impl.FAMILIES[d["fam"]]
    if via == "copy":
        return Distribution(Distribution(f, max_time=maxt, **d["kw"]))
    if via in ("set", "setpos"):
        o = Distribution(f, max_time=maxt, **kw0)
        hash(o)
        if via == "set":
            o.set_params(**d["kw"])
        else:
            o.set_params(*d["kw"].values())
        return o
    return Distribution(f, max_time=maxt, **d["kw"])


def dist_content(o):
    kw = [[k, float(v)] for k, v in o.get_params(as_dict=True).items()] if o.is_updateable else []
    return {"upd": bool(o.is_updateable), "kw": kw, "pmf": [float(x) for x in o.pmf]}


def impl_dist(c):
    a = build_dist(c["a"], c["maxt"])
    b = build_dist(c["b"], c.get("maxt_b", c["maxt"]), c["via"], c.get("kw0"))
    ha, hb = hash(a), hash(b)
    return {"eq_ab": bool(a == b), "eq_ba": bool(b == a), "heq": ha == hb, "stable": ha == hash(a) and hb == hash(b),
            "A": dist_content(a), "B": dist_content(b), "eq_other": bool(a == "x")}


def build_graph_obj(gspec, params, via, side="ipsi"):
    from lymph import graph as lgraph
    from lymph import models
    tri = gspec["base"] == 3
    gd = gen.graph_dict(gspec)
    if via == "repr":
        r = lgraph.Representation(gd, allowed_states=[0, 1, 2] if tri else [0, 1])
        r.set_params(**params)
        return r, r
    if via == "bi":
        m = (models.Bilateral.trinary if tri else models.Bilateral.binary)(gd)
        u = getattr(m, side)
        u.set_params(**params)
        return u.graph, u.graph
    m = (models.Unilateral.trinary if tri else models.Unilateral.binary)(gd)
    m.set_params(**params)
    return m.graph, m.graph


def graph_content(g):
    return [[name, e.transition_tensor.tolist()] for name, e in g.edges.items()]


def impl_graph(c):
    ga, sa = build_graph_obj(c["graph"], c["pa"], c["via"], "ipsi")
    gspec_b = c["gb"] or c["graph"]
    gb, sb = build_graph_obj(gspec_b, c["pb"], c["via"], "contra")
    ha = hash(ga)
    node_h_a = {n: hash(v) for n, v in ga.nodes.items()}
    hb0 = hash(gb)
    gb.set_state(*c["states_b"])
    hb = hash(gb)
    eh_a = {n: hash(e) for n, e in ga.edges.items()}
    eh_b = {n: hash(e) for n, e in gb.edges.items()}
    node_h_b = {n: hash(v) for n, v in gb.nodes.items()}
    out = {"heq": ha == hb, "state_indep": hb0 == hb, "stable": ha == hash(ga),
           "edges_a": graph_content(ga), "edges_b": graph_content(gb),
           "edge_heq": {n: eh_a[n] == eh_b[n] for n in eh_a if n in eh_b},
           "edges_distinct": len(set(eh_a.values())) == len(eh_a) and len(set(eh_b.values())) == len(eh_b),
           "node_heq": {n: node_h_a[n] == node_h_b[n] for n in node_h_a if n in node_h_b},
           "nodes_distinct": len(set(node_h_a.values())) == len(node_h_a)}
    if c["gb"] is None:                  # history: put A's parameters into B, the hashes must meet again
        sb.set_params(**c["pa"])
        out["back"] = hash(gb) == ha
    return out


def _mod_obj(it, tri):
    sp, sn, kind = it
    return _mod_cls("Pathological" if kind == "pathological" else "Clinical")(sp, sn, tri)


def apply_ops(model, ops, what, base, maxt):
    from lymph.diagnosis_times import Distribution
    tri = base == 3

    def dobj(d):
        return [float(w) for w in d["frozen"]] if "frozen" in d else Distribution(impl.FAMILIES[d["fam"]], max_time=maxt, **d["kw"])

    for op in ops:
        if what == "modcoll":
            if op[0] == "set":
                model.set_modality(op[1], *op[2])
            elif op[0] == "del":
                model.del_modality(op[1])
            elif op[0] == "clear":
                model.clear_modalities()
            elif op[0] == "replace":
                model.replace_all_modalities({n: _mod_obj(it, tri) for n, it in op[1]})
        else:
            if op[0] == "set":
                model.set_distribution(op[1], dobj(op[2]))
            elif op[0] == "del":
                model.del_distribution(op[1])
            elif op[0] == "clear":
                model.clear_distributions()
            elif op[0] == "replace":
                model.replace_all_distributions({n: dobj(d) for n, d in op[1]})
            elif op[0] == "params":
                model.set_params(**{f"{op[1]}_{k}": v for k, v in op[2].items()})


def coll_content(model, c):
    out = []
    for leaf in leaves_of(model, c["cls"], c["midcfg"]):
        if c["kind"] == "modcoll":
            out.append([[n, m.confusion_matrix.tolist()] for n, m in leaf.get_all_modalities().items()])
        else:
            out.append([[n, dist_content(d)] for n, d in leaf.get_all_distributions().items()])
    return out


def impl_coll(c):
    ma = make_model(c["cls"], c["base"], c["maxt"], c["midcfg"])
    mb = make_model(c["cls"], c["base"], c["maxt"], c["midcfg"])
    h = (lambda m: m.modalities_hash()) if c["kind"] == "modcoll" else (lambda m: m.distributions_hash())
    h(ma)
    apply_ops(ma, c["pre"] + c["ea"], c["kind"], c["base"], c["maxt"])
    apply_ops(mb, c["pre"], c["kind"], c["base"], c["maxt"])
    h_mid = h(mb)
    apply_ops(mb, c["eb"], c["kind"], c["base"], c["maxt"])
    ha, hb = h(ma), h(mb)
    return {"heq": ha == hb, "stable": ha == h(ma), "pre_eq": (h_mid == ha) if not c["ea"] else None,
            "leaves_a": coll_content(ma, c), "leaves_b": coll_content(mb, c)}


def impl_fn(c):
    return {"mod": impl_mod, "dist": impl_dist, "graph": impl_graph, "modcoll": impl_coll, "distcoll": impl_coll}[c["kind"]](c)


# ------------------------------------------------------------------------------------------
# model side
# ------------------------------------------------------------------------------------------
def coq_mod(cls, sp, sn):
    return f"(mk_mod {q(sp)} {q(sn)} {boolean(cls in ('Pathological', 'pathological'))})"


def coq_dspec(d, maxt):
    if "frozen" in d:
        return f"(Frozen (normalize {lst(q(w) for w in d['frozen'])}))"
    if "frozen_of" in d:
        inner = coq_dspec(d["frozen_of"], maxt)
        return f"(Frozen (normalize (match pmf {nat(maxt)} {inner} with Some p => p | None => [] end)))"
    return f"(Param {nat(d['fam'])} {lst(tup(s(k), q(v)) for k, v in d['kw'].items())})"


def coq_ops(ops, what, maxt):
    ty = "modality" if what == "modcoll" else "dist"
    item = (lambda it: coq_mod(it[2], it[0], it[1])) if what == "modcoll" else (lambda d: coq_dspec(d, maxt))
    cur = {}
    out = []
    for op in ops:
        if op[0] == "set":
            out.append(f"(@OpSet {ty} {s(op[1])} {item(op[2])})")
        elif op[0] == "del":
            out.append(f"(@OpDel {ty} {s(op[1])})")
        elif op[0] == "clear":
            out.append(f"(@OpClear {ty})")
        elif op[0] == "replace":
            out.append(f"(@OpReplace {ty} {lst(tup(s(n), item(v)) for n, v in op[1])})")
        elif op[0] == "params":          # set_params edits the keywords of the stored object in place
            d = cur[op[1]]
            nk = dict(d["kw"])
            nk.update(op[2])
            out.append(f"(@OpSet {ty} {s(op[1])} {item({'fam': d['fam'], 'kw': nk})})")
        cur = sim_ops(ops[:len(out)])
    return lst(out)


def coq_expr(c):
    k = c["kind"]
    if k == "mod":
        b = nat(c["base"])
        ma, mb = coq_mod(*c["a"]), coq_mod(*c["b"])
        if c.get("base_b"):
            b2 = nat(c["base_b"])
            return f"(mod_key_out {b} {ma}, mod_key_out {b2} {mb}, mod_eq2 {b} {b2} {ma} {mb})"
        return f"(mod_key_out {b} {ma}, mod_key_out {b} {mb}, mod_eq {b} {ma} {mb})"
    if k == "dist":
        t = nat(c["maxt"])
        if "maxt_b" in c:
            tb = nat(c["maxt_b"])
            da, db = coq_dspec(c["a"], c["maxt"]), coq_dspec(c["b"], c["maxt_b"])
            return f"(dist_key_out {t} {da}, dist_key_out {tb} {db}, dist_eq2 {t} {tb} {da} {db})"
        da, db = coq_dspec(c["a"], c["maxt"]), coq_dspec(c["b"], c["maxt"])
        return f"(dist_key_out {t} {da}, dist_key_out {t} {db}, dist_eq {t} {da} {db})"
    if k == "graph":
        ga = coq_graph(c["graph"], c["pa"])
        gspec_b = c["gb"] or c["graph"]
        gb = coq_graph(gspec_b, c["pb"])
        base = c["graph"]["base"]

        def states(gspec, lnl_states):
            it = iter(lnl_states)
            return lst(nat(base - 1) if kd == "tumor" else nat(next(it)) for kd, _, _ in gspec["entries"])
        nk = "(fun g sts => map (fun ns => node_key (g_base g) (fst ns) (snd ns)) (combine (g_nodes g) sts))"
        za = states(c["graph"], [0] * len(gen.lnls_of(c["graph"])))
        zb = states(gspec_b, c["states_b"])
        return (f"let ga := {ga} in let gb := {gb} in "
                f"(graph_key_out ga, graph_key_out gb, {nk} ga {za}, {nk} gb {zb})")
    ty = "modality" if k == "modcoll" else "dist"
    nil = f"(@nil (string * {ty}))"
    if c["cls"] == "uni":
        t0 = f"(uni_tree {nil})"
    elif c["cls"] == "bi":
        t0 = f"(bi_tree {nil})"
    else:
        t0 = f"(mid_tree {lst(s(x) for x in MID_CHILDREN[(bool(c['midcfg'][0]), bool(c['midcfg'][1]))])} {nil})"
    f = f"(mod_key_out {nat(c['base'])})" if k == "modcoll" else f"(dist_key_out {nat(c['maxt'])})"
    return (f"(coll_key {f} (apply_cops {t0} {coq_ops(c['pre'] + c['ea'], k, c['maxt'])}), "
            f"coll_key {f} (apply_cops {t0} {coq_ops(c['pre'] + c['eb'], k, c['maxt'])}))")


# ------------------------------------------------------------------------------------------
# comparison
# ------------------------------------------------------------------------------------------
def _some(v):
    if isinstance(v, tuple) and v and v[0] == "Some":
        return v[1]
    return None


def _dist_diff(content, key, what):
    k = _some(key)
    if k is None:
        raise HarnessError(f"model key undefined for a generated distribution ({what})")
    upd, kw, pm = k
    if content["upd"] != upd:
        return {"observable": "Distribution.is_updateable", "which": what, "actual": content["upd"], "expected": upd}
    if [x[0] for x in content["kw"]] != [x[0] for x in kw]:
        return {"observable": "Distribution keywords (order as hashed)", "which": what,
                "actual": [x[0] for x in content["kw"]], "expected": [x[0] for x in kw]}
    d = first_diff([x[1] for x in content["kw"]], fracs([x[1] for x in kw])) if kw else None
    if d:
        return {"observable": "Distribution keyword values", "which": what, **d}
    d = first_diff(content["pmf"], fracs(pm))
    if d:
        return {"observable": "Distribution.pmf (hashed bytes)", "which": what, **d}
    return None


def _leaves(ck):
    if ck[0] == "KLeaf":
        return [ck[1]]
    out = []
    for ch in ck[1]:
        out += _leaves(ch)
    return out


STATS: dict = {}


def edge_raw(params: dict, name: str) -> dict:
    return {p: v for p, v in params.items() if p.rpartition("_")[0] == name}


def raw_identical(c) -> bool:
    """both objects of the pair were given literally the same content (names, order, numbers)"""
    k = c["kind"]
    if k == "graph":
        return (c["gb"] is None or c["gb"]["entries"] == c["graph"]["entries"]) and c["pa"] == c["pb"]
    if k in ("modcoll", "distcoll"):
        a, b = sim_ops(c["pre"] + c["ea"]), sim_ops(c["pre"] + c["eb"])
        return list(a.items()) == list(b.items())
    return True


def _common(c, o, key_eq, label):
    """Modality / Distribution have a content-based ==, so equal keys (= objects that compare equal) must hash equal.
    Graphs and collections have no ==: the statement demands `content changed => hash changed`; `equal keys => equal
    hashes` is demanded only between objects given literally the same content (reconstruction, set-and-back, ...),
    not e.g. for a micro_mod edit on an arc with spread 0 (recorded as a diagnostic only)."""
    kk = f"{label}: keys {'equal' if key_eq else 'differ'}"
    STATS[kk] = STATS.get(kk, 0) + 1
    if not o.get("stable", True):
        return {"observable": f"{label} not stable between two calls"}
    if o["heq"] == key_eq:
        return None
    if key_eq and not raw_identical(c):
        STATS["diagnostic: equal keys from different raw values hash differently (not demanded)"] = \
            STATS.get("diagnostic: equal keys from different raw values hash differently (not demanded)", 0) + 1
        return None
    return {"observable": label, "actual": "hashes equal" if o["heq"] else "hashes differ",
            "expected": "model keys equal" if key_eq else "model keys differ",
            "statement": "equal content => equal hash; changed content => changed hash"}


def compare(c, obs, val):
    k = c["kind"]
    if obs[0] == "err":
        return {"observable": f"hash()/== on {k}", "actual": f"raised {obs[1]}: {obs[2]}", "expected": "no exception",
                "statement": "hashing never fails"}
    o = obs[1]
    if k == "mod":
        ka, kb, eqm = val
        for cm, key, w in ((o["cm_a"], ka, "a"), (o["cm_b"], kb, "b")):
            d = first_diff(cm, fracs(key))
            if d:
                return {"observable": "Modality.confusion_matrix (hashed bytes)", "which": w, **d}
        if o["eq_ab"] != eqm or o["eq_ba"] != eqm:
            return {"observable": "Modality.__eq__", "actual": [o["eq_ab"], o["eq_ba"]], "expected": eqm}
        if o["eq_other"]:
            return {"observable": "Modality.__eq__ with a non-modality", "actual": True, "expected": False}
        return _common(c, o, ka == kb, "hash(Modality)")
    if k == "dist":
        ka, kb, eqm = val
        for cont, key, w in ((o["A"], ka, "a"), (o["B"], kb, "b")):
            d = _dist_diff(cont, key, w)
            if d:
                return d
        eqm = _some(eqm)
        if eqm is None:
            raise HarnessError("model dist_eq undefined")
        if o["eq_ab"] != eqm or o["eq_ba"] != eqm:
            return {"observable": "Distribution.__eq__", "actual": [o["eq_ab"], o["eq_ba"]], "expected": eqm}
        if o["eq_other"]:
            return {"observable": "Distribution.__eq__ with a non-distribution", "actual": True, "expected": False}
        return _common(c, o, ka == kb, "hash(Distribution)")
    if k == "graph":
        ka, kb, na, nb = val
        for edges, key, w in ((o["edges_a"], ka, "a"), (o["edges_b"], kb, "b")):
            if [e[0] for e in edges] != [e[0] for e in key]:
                return {"observable": "graph.edges order/names", "which": w, "actual": [e[0] for e in edges],
                        "expected": [e[0] for e in key]}
            for (name, tens), (_, kt) in zip(edges, key):
                d = first_diff(tens, fracs(kt))
                if d:
                    return {"observable": "Edge.transition_tensor (hashed bytes)", "which": w, "edge": name, **d}
        da, db = dict((e[0], e[1]) for e in ka), dict((e[0], e[1]) for e in kb)
        for name, heq in o["edge_heq"].items():
            if heq != (da[name] == db[name]):
                if not heq and edge_raw(c["pa"], name) != edge_raw(c["pb"], name):
                    continue             # equal edge keys from different raw values: not demanded (see _common)
                return {"observable": "hash(Edge)", "edge": name, "actual": "hashes equal" if heq else "hashes differ",
                        "expected": "model keys equal" if da[name] == db[name] else "model keys differ"}
        if not o["edges_distinct"]:
            return {"observable": "hash(Edge)", "actual": "two edges with different names hash equal",
                    "expected": "model keys differ (the name is part of the key)"}
        nda, ndb = {t[0]: t for t in na}, {t[0]: t for t in nb}
        for name, heq in o["node_heq"].items():
            if heq != (nda[name] == ndb[name]):
                return {"observable": "hash(node)", "node": name, "actual": "hashes equal" if heq else "hashes differ",
                        "expected": "model keys equal" if nda[name] == ndb[name] else "model keys differ"}
        if not o["nodes_distinct"]:
            return {"observable": "hash(node)", "actual": "two nodes with different names hash equal",
                    "expected": "model keys differ"}
        if not o["state_indep"]:
            return {"observable": "hash(graph) after set_state", "actual": "changed", "expected": "unchanged"}
        if o.get("back") is False:
            return {"observable": "hash(graph) after setting the parameters back", "actual": "differs",
                    "expected": "equal to the hash of the graph with the same parameters"}
        return _common(c, o, ka == kb, "hash(graph)")
    # collections
    ka, kb = val
    for leaves, key, w in ((o["leaves_a"], ka, "a"), (o["leaves_b"], kb, "b")):
        kl = _leaves(key)
        if len(kl) != len(leaves):
            return {"observable": "number of leaves", "which": w, "actual": len(leaves), "expected": len(kl)}
        for i, (items, kitems) in enumerate(zip(leaves, kl)):
            if [x[0] for x in items] != [x[0] for x in kitems]:
                return {"observable": f"{k} entries (names in order)", "which": w, "leaf": i,
                        "actual": [x[0] for x in items], "expected": [x[0] for x in kitems]}
            for (name, cont), (_, ik) in zip(items, kitems):
                if k == "modcoll":
                    d = first_diff(cont, fracs(ik))
                    if d:
                        d = {"observable": "Modality.confusion_matrix in collection", **d}
                else:
                    d = _dist_diff(cont, ik, w)
                if d:
                    return {**d, "which": w, "leaf": i, "entry": name}
    if o.get("pre_eq") is False:
        return {"observable": f"{k} hash of two models after the same operations", "actual": "differ", "expected": "equal"}
    return _common(c, o, ka == kb, "modalities_hash()" if k == "modcoll" else "distributions_hash()")


# ------------------------------------------------------------------------------------------
# shrinking
# ------------------------------------------------------------------------------------------
def _valid_coll(c):
    return sim_ops(c["pre"] + c["ea"]) is not None and sim_ops(c["pre"] + c["eb"]) is not None


def candidates(c):
    out = []
    k = c["kind"]
    if k == "mod":
        if c["via"] != "ctor":
            out.append({**copy.deepcopy(c), "via": "ctor"})
        for j in (1, 2):
            n = copy.deepcopy(c)
            if c["a"][j] == c["b"][j]:
                if c["a"][j] != 0.75:
                    n["a"][j] = n["b"][j] = 0.75
                    out.append(n)
            elif (c["a"][j], c["b"][j]) != (0.75, 0.5):
                n["a"][j], n["b"][j] = 0.75, 0.5
                out.append(n)
    elif k == "dist":
        if c["via"] != "ctor" and "fam" in c["b"]:
            out.append({**copy.deepcopy(c), "via": "ctor", "kw0": None})
        if c["maxt"] > 1 and all("frozen_of" not in d for d in (c["a"], c["b"])):
            n = copy.deepcopy(c)
            n["maxt"] = c["maxt"] - 1
            ok = True
            for d in (n["a"], n["b"]):
                if "frozen" in d:
                    d["frozen"] = d["frozen"][:-1]
                    ok = ok and sum(d["frozen"]) > 0
            if ok:
                out.append(n)
    elif k == "graph":
        if c["via"] != "uni":
            out.append({**copy.deepcopy(c), "via": "uni"})
        if any(c["states_b"]):
            out.append({**copy.deepcopy(c), "states_b": [0] * len(c["states_b"])})
        if c["gb"] is None:
            g = c["graph"]
            names = gen.lnls_of(g)
            if len(names) > 1:
                for i, l in enumerate(names):
                    g2 = {"base": g["base"], "entries": [[kd, n, [x for x in cs if x != l]] for kd, n, cs in g["entries"] if n != l]}
                    if not any(cs for kd, _, cs in g2["entries"] if kd == "tumor"):
                        continue
                    keep = set(gen.edge_param_names(g2))
                    n = copy.deepcopy(c)
                    n["graph"] = g2
                    n["pa"] = {p: v for p, v in c["pa"].items() if p in keep}
                    n["pb"] = {p: v for p, v in c["pb"].items() if p in keep}
                    n["states_b"] = [x for j, x in enumerate(c["states_b"]) if j != i]
                    out.append(n)
            for p in c["pa"]:
                if c["pa"][p] == c["pb"][p] and c["pa"][p] != 0.5:
                    n = copy.deepcopy(c)
                    n["pa"][p] = n["pb"][p] = 0.5
                    out.append(n)
    else:
        if c["cls"] != "uni":
            out.append({**copy.deepcopy(c), "cls": "bi" if c["cls"] == "mid" else "uni"})
        for i in range(len(c["pre"])):
            n = copy.deepcopy(c)
            del n["pre"][i]
            if _valid_coll(n):
                out.append(n)
        for i in range(len(c["eb"])):
            n = copy.deepcopy(c)
            del n["eb"][i]
            if _valid_coll(n):
                out.append(n)
    return out


# ------------------------------------------------------------------------------------------
# entry points
# ------------------------------------------------------------------------------------------
def nontrivial(c) -> bool:
    """the pair is not a verbatim reconstruction through the same route, and carries a value strictly inside (0, 1)
    (or, for frozen distributions, at least two positive weights)"""
    k = c["kind"]
    if k == "mod":
        inner = any(0 < v < 1 for v in c["a"][1:] + c["b"][1:])
        return inner and (c["edit"] != "same" or c["via"] != "ctor")
    if k == "dist":
        def rich(d):
            if "frozen" in d:
                return sum(1 for w in d["frozen"] if w > 0) >= 2
            if "frozen_of" in d:
                return rich(d["frozen_of"])
            return any(0 < v < 1 or v > 1 for v in d["kw"].values())
        return (rich(c["a"]) or rich(c["b"])) and (c["edit"] != "same" or c["via"] != "ctor")
    if k == "graph":
        return gen.is_nontrivial_params(c["pa"]) and c["edit"] != "same"
    return bool(c["eb"]) and bool(c["pre"] or len(c["eb"]) > 1)


def run(ctx: Ctx, a_ok: bool):
    ctx.cone = ["Hash.mod_key", "Hash.mod_eq", "Hash.dist_key", "Hash.dist_eq", "Hash.node_key", "Hash.edge_key",
                "Hash.graph_key", "Hash.coll_key", "Hash.apply_cops", "Observation.confusion_matrix", "Dist.pmf",
                "Transition.transition_tensor", "Graph.build_graph", "Graph.set_edges"]
    ctx.rule = ("pairs (object, edited object / equal reconstruction) in one process: Modality/Clinical/Pathological binary+trinary "
                "(constructor, spec/sens setters, models' set_modality; edits: spec, sens, both, swap, kind, kind with sp = 1 - sn); "
                "Distribution frozen/fam0/fam1 (constructor, copy constructor, set_params keyword/positional; edits: scaled weights, "
                "one weight, keyword value, proportional keywords, frozen copy of a parametric pmf, other family); graphs "
                "(Unilateral.graph, graph.Representation, Bilateral ipsi/contra; edits: one/all parameters, micro with spread 0 / > 0, "
                "renamed LNL, other listing order, node states); modality and distribution collections of Unilateral/Bilateral/Midline "
                "(set, re-set, change, add, delete, rename, clear, reorder, replace_all, set_params on distribution keywords). "
                "Values: 0, 1, k/16, k/1024 and a small quota of full doubles; no -0.0, no NaN. Non-trivial iff the pair is not a "
                "verbatim reconstruction through the same route and carries a value strictly inside (0,1) (frozen: >= 2 positive weights; "
                "collections: a non-empty edit on a non-empty collection or a multi-step edit)")
    rng = ctx.rng
    mult = 1 if ctx.tier == "quick" else 7
    plan = [(gen_mod, 90), (gen_dist, 90), (gen_graph_case, 60), (lambda r: gen_coll(r, "modcoll"), 50),
            (lambda r: gen_coll(r, "distcoll"), 50)]
    cases = []
    cdir = VERIF / "corpus" / "C20"
    if cdir.is_dir():
        for f in sorted(cdir.glob("*.json")):
            cases.append(json.loads(f.read_text())["case"])
    for g, n in plan:
        for _ in range(n * mult):
            cases.append(g(rng))
    for c in cases:
        ctx.count(c, nontrivial(c), f"{c['kind']}-{c.get('via', c.get('cls'))}-{c['edit']}")
    ctx.notes.append("Python's hash() is not modelled: the model supplies the hashed KEY; equal keys <-> equal hashes is "
                     "checked inside one process, a collision of two different keys (2^-64) would be reported as a violation")
    ctx.notes.append("observation (outside the statement): Distribution.__eq__ compares keyword dicts, __hash__ the keyword tuple; "
                     "two partial functions with permuted keyword order compare equal and hash differently "
                     "(C20_dist_eq_permuted_keywords); not producible from one family through the public constructor")
    ctx.notes.append("observation: Modality(spec, sens, is_trinary=True) of the BASE class has no valid confusion matrix "
                     "(every use, including hash, raises ValueError); only Clinical/Pathological are generated for trinary")
    run_standard(ctx, cases, impl_fn, coq_expr, compare, IMPORTS, candidates,
                 sig_fn=lambda c, mm: {"class": c["kind"], "call": str(mm.get("observable"))},
                 call_fn=lambda c, mm: f"build both objects of the pair ({c['kind']}, edit={c['edit']}, via={c.get('via', c.get('cls'))}); "
                                       + str(mm.get("observable")),
                 broken="correspondence Hash.v keys / eq vs /repo (__hash__, __eq__, modalities_hash, distributions_hash)",
                 shard=45)
    ctx.extra["pairs_by_model_verdict"] = dict(sorted(STATS.items()))


def replay(ctx: Ctx, path: str) -> int:
    data = json.loads(open(path).read())
    bad = correspondence(ctx, [data["case"]], impl_fn, coq_expr, compare, IMPORTS, tag="replay")
    if bad:
        print("REPRODUCED", json.dumps(bad[0][1], default=str))
        return 1
    print("not reproduced")
    return 0
