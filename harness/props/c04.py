"""C04: midline model — joint over (extension, ipsi, contra) and cohort likelihood.

Tie: Midline.state_dist, obs_dist, likelihood(log/linear, per T-stage) vs the Coq model (ml_state_dist,
bi_obs_dist_of per slice, ml_hmm_likelihood_factors on the split cohort), identified with the generative
chain by C04's theorems.  Also: the mixing formula on the leaf parameters, prior sums to one.
"""
from __future__ import annotations

import copy
import json
import random

import numpy as np

from .. import gen, impl
from ..core import Ctx, first_diff, fracs, run_standard, unres, s, boolean, lst
from ..coqterms import coq_bpatient, coq_midline
from ..numcases import IMPORTS_ML, shrink_uni_case, tmap
from .c01 import _lik_cmp

IMPORTS = IMPORTS_ML


def gen_flags(rng):
    kind = rng.choice(["evo", "central", "none"])
    return {"use_mixing": rng.random() < 0.5, "lnl_sym": rng.random() < 0.5, "marginalize_unknown": rng.random() < 0.6,
            "use_midext_evo": kind == "evo", "use_central": kind == "central"}


def gen_mpatients(rng, mods, lnls, lo=0, hi=6):
    pats = [gen.gen_patient(rng, mods, lnls, ("ipsi", "contra"), True) for _ in range(rng.randint(lo, hi))]
    for p in pats:
        if p.get("central") is True:
            p["ext"] = True            # central implies extension (table format)
    return pats


def gen_case(rng, tier):
    base = rng.choice([2, 2, 3])
    g = gen.gen_graph(rng, max_lnls=2, base=base)
    lnls = gen.lnls_of(g)
    mt = rng.randint(0, 3)
    c = {"graph": g, "mods": gen.gen_modalities(rng, 1, 2), "max_time": mt, "dists": gen.gen_dists(rng, mt),
         "flags": gen_flags(rng), "seed_params": rng.randrange(1 << 30)}
    mods = [m[0] for m in c["mods"]]
    c["table_mods"] = mods
    c["patients"] = gen_mpatients(rng, mods, lnls)
    if c["flags"]["use_central"] and c["patients"] and rng.random() < 0.7:
        c["patients"][0]["ext"] = c["patients"][0]["central"] = True      # a central tumour in most central-model cohorts
    c["t"] = list(c["dists"])[0]
    c["boundary"] = rng.choice([None, None, "midext0", "midext1", "mixing0", "mixing1"])
    c["n_updates"] = rng.choice([0, 1, 2])
    c["preload"] = gen_mpatients(rng, mods, lnls, 1, 4) if rng.random() < 0.4 else None   # an earlier cohort (replaced)
    if c["preload"]:
        c["preload"][0]["ext"] = None          # ... holding a patient of unknown extension status
        c["preload"][0]["central"] = False
        if rng.random() < 0.5:                 # ... while every patient of the cohort under test has a recorded status
            for p in c["patients"]:
                if p.get("ext") is None:
                    p["ext"] = False
                    p["central"] = False
    return c


def build(case):
    m = impl.build_midline(case)
    rng = random.Random(case["seed_params"])
    names = [n for n in m.get_params() if n.split("_")[0] not in case["dists"]]
    vals = {n: gen.gen_value(rng) for n in names}
    b = case.get("boundary")
    if b == "midext0":
        vals["midext_prob"] = 0.0
    elif b == "midext1":
        vals["midext_prob"] = 1.0
    elif b == "mixing0" and "mixing" in vals:
        vals["mixing"] = 0.0
    elif b == "mixing1" and "mixing" in vals:
        vals["mixing"] = 1.0
    m.set_params(**vals)
    # follow-up partial keyword updates (a multi-step history: only some names are re-set)
    for _ in range(case.get("n_updates", 0)):
        r = rng.random()
        if r < 0.4:
            sub = [rng.choice(names)]                       # a single parameter
        elif r < 0.8:                                       # all / some parameters of one group (ipsi_*, contra_*, ...)
            grp = rng.choice(sorted({n.split("_")[0] for n in names}))
            sub = [n for n in names if n.split("_")[0] == grp]
            if len(sub) > 1 and rng.random() < 0.5:
                sub = rng.sample(sub, rng.randint(1, len(sub)))
        else:
            sub = rng.sample(names, rng.randint(1, max(1, len(names) // 2)))
        m.set_params(**{n: gen.gen_value(rng) for n in sub})
    return m


def table(case, pats=None):
    return impl.table_from_patients(case["patients"] if pats is None else pats, case["table_mods"],
                                    gen.lnls_of(case["graph"]), ("ipsi", "contra"), True)


def coq_split(case, m, pats=None):
    """the sub-cohorts as the Coq model's ml_load produces them from the table"""
    pats = case["patients"] if pats is None else pats
    rows = lst("{| mp_pat := " + coq_bpatient(p, tmap) + "; mp_ext := " + _ob(p.get("ext")) + "; mp_central := "
               + _ob(p.get("central")) + " |}" for p in pats)
    return f"(ml_load {boolean(m.use_central)} {boolean(m.marginalize_unknown)} ml_data_empty {rows})"


def _ob(v):
    return "None" if v is None else f"(Some {boolean(v)})"


_models = {}


def impl_fn(case):
    m = build(case)
    _models[json.dumps(case, sort_keys=True)] = m
    if case.get("preload"):
        m.load_patient_data(table(case, case["preload"]))
        try:
            m.likelihood()
        except Exception:  # noqa: BLE001
            pass
    m.load_patient_data(table(case))
    out = {}
    def call(key, fn):
        try:
            v = fn()
            out[key] = ("ok", np.asarray(v, dtype=float).tolist())
        except Exception as e:  # noqa: BLE001
            out[key] = ("err", impl.err_enum(e))
    call("sd", lambda: m.state_dist(case["t"]))
    call("od", lambda: m.obs_dist(t_stage=case["t"]))
    call("log", lambda: m.likelihood())
    call("lin", lambda: m.likelihood(log=False))
    call("log_t", lambda: m.likelihood(t_stage=case["t"]))
    if m.use_central:                   # the central tumour case: every T-stage of the case
        for t in case["dists"]:
            call("sdc_" + t, lambda t=t: m.state_dist(t, central=True))
            call("odc_" + t, lambda t=t: m.obs_dist(t_stage=t, central=True))
    # mixing formula on the leaves
    if m.use_mixing:
        ipsi = list(m.ext.ipsi.get_tumor_spread_params(as_dict=False))
        noext = list(m.noext.contra.get_tumor_spread_params(as_dict=False))
        ext = list(m.ext.contra.get_tumor_spread_params(as_dict=False))
        out["mix"] = ("ok", [[float(m.mixing_param), float(i), float(n), float(e)] for i, n, e in zip(ipsi, noext, ext)])
    return out


def coq_expr(case):
    m = _models.get(json.dumps(case, sort_keys=True)) or build(case)
    ml = coq_midline(case, m)
    t = s(case["t"])
    data = coq_split(case, m)
    return (f"let ml := {ml} in let data := {data} in "
            f"(match ml_state_dist ml {t} with inr (a, b) => inr (qoutm a, qoutm b, qoutm (bi_obs_dist_of (ml_ext ml) a), "
            f"qoutm (bi_obs_dist_of (ml_ext ml) b)) | inl e => inl e end, "
            f"match ml_hmm_likelihood_factors ml data None with inr v => inr (qouts v) | inl e => inl e end, "
            f"match ml_hmm_likelihood_factors ml data (Some {t}) with inr v => inr (qouts v) | inl e => inl e end, "
            + lst(f"match ml_state_dist_central ml {s(tt)} true, ml_central ml with inr a, Some c => inr (qoutm a, qoutm (bi_obs_dist_of c a)) "
                  f"| inl e, _ => inl e | _, None => inl MAttr end" for tt in (case["dists"] if m.use_central else [])) + ")")


def compare(case, obs, val):
    sdv, fac, fac_t, cen = val
    if obs[0] == "err":
        return {"observable": "build/load", "actual": f"raised {obs[1]}: {obs[2]}", "expected": "values"}
    o = obs[1]
    kind, payload = unres(sdv)
    if kind == "err" or o["sd"][0] == "err":
        if not (kind == "err" and o["sd"][0] == "err"):
            return {"observable": "state_dist()", "actual": o["sd"], "expected": payload if kind == "err" else "values"}
    else:
        a, b, oa, ob_ = payload
        sd = np.asarray(o["sd"][1])
        for name, act, exp in (("state_dist()[0] (no extension)", sd[0], a), ("state_dist()[1] (extension)", sd[1], b)):
            d = first_diff(act, fracs(exp))
            if d:
                return {"observable": name, **d,
                        "statement": "prior over (extension, ipsi, contra) = generative chain (C04_state_dist_spec, C04_contra_evo_is_chain)"}
        if abs(float(sd.sum()) - 1.0) > 1e-9:
            return {"observable": "state_dist() sums to one", "actual": float(sd.sum()), "expected": 1}
        if o["od"][0] == "ok":
            od = np.asarray(o["od"][1])
            for name, act, exp in (("obs_dist()[0]", od[0], oa), ("obs_dist()[1]", od[1], ob_)):
                d = first_diff(act, fracs(exp))
                if d:
                    return {"observable": name, **d}
        else:
            return {"observable": "obs_dist()", "actual": o["od"], "expected": "values"}
    for name, key, fr, lg in (("likelihood(log=True)", "log", fac, True), ("likelihood(log=False)", "lin", fac, False),
                              (f"likelihood(t_stage={case['t']!r})", "log_t", fac_t, True)):
        mm = _lik_cmp(name, (o[key][0], float(o[key][1]) if o[key][0] == "ok" else o[key][1]), fr, lg)
        if mm:
            mm["statement"] = ("recorded status -> joint probability of that status and the findings; unknown -> sum over both; "
                               "central -> symmetric bilateral model")
            return mm
    for tt, cv in zip(case["dists"], cen):
        kind, payload = unres(cv)
        for key, name, j in (("sdc_" + tt, f"state_dist({tt!r}, central=True)", 0), ("odc_" + tt, f"obs_dist(t_stage={tt!r}, central=True)", 1)):
            if key not in o:
                continue
            if kind == "err" or o[key][0] == "err":
                if not (kind == "err" and o[key][0] == "err"):
                    return {"observable": name, "actual": o[key], "expected": payload if kind == "err" else "values"}
                continue
            d = first_diff(o[key][1], fracs(payload[j]))
            if d:
                return {"observable": name, **d,
                        "statement": "central tumour: bilateral model with contralateral tumour spread = ipsilateral one, prior for the given T-stage"}
    if "mix" in o:
        for al, i, n, e in o["mix"][1]:
            if abs(e - (al * i + (1 - al) * n)) > 1e-9:
                return {"observable": "ext.contra tumour spread = mixing*ipsi + (1-mixing)*noext.contra", "actual": e,
                        "expected": al * i + (1 - al) * n, "statement": "C04_mixing_formula"}
    return None


def candidates(case):
    out = []
    for c in shrink_uni_case(case):
        c["table_mods"] = [m[0] for m in c["mods"]]
        out.append(c)
    if case.get("boundary"):
        c = copy.deepcopy(case)
        c["boundary"] = None
        out.append(c)
    if case.get("n_updates", 0) > 0:
        c = copy.deepcopy(case)
        c["n_updates"] -= 1
        out.append(c)
    if case.get("preload"):
        c = copy.deepcopy(case)
        c["preload"] = c["preload"][:-1] or None
        out.append(c)
    return out


def run(ctx: Ctx, a_ok: bool):
    ctx.cone = ["Midline.contra_state_dist_evo", "Midline.ml_state_dist", "Midline.ml_hmm_likelihood_factors", "Cohort.ml_load",
                "Bilateral.bi_llhs_of_joint", "Bilateral.bi_obs_dist_of"]
    ctx.rule = ("random graphs (<=2 LNLs) x use_mixing x (use_midext_evo | use_central | neither) x lnl symmetry x "
                "marginalize_unknown x parameters incl. midext_prob, mixing in {0,1} x cohorts (0-6 rows) with extension "
                "True/False/missing and central => extension; non-trivial iff the cohort has >=2 different extension statuses "
                "and a parameter strictly inside (0,1)")
    n = 60 if ctx.tier == "quick" else 600
    cases = [gen_case(ctx.rng, ctx.tier) for _ in range(n)]
    for c in cases:
        st = {repr(p.get("ext")) for p in c["patients"]}
        f = c["flags"]
        ctx.count(c, len(st) >= 2, f"mix{int(f['use_mixing'])}-evo{int(f['use_midext_evo'])}-cen{int(f['use_central'])}-symL{int(f['lnl_sym'])}-unk{int(f['marginalize_unknown'])}")
        if c.get("boundary"):
            ctx.bump("boundary-" + c["boundary"])
    run_standard(ctx, cases, impl_fn, coq_expr, compare, IMPORTS, candidates,
                 sig_fn=lambda c, mm: {"class": "Midline", "call": str(mm.get("observable")).split("(")[0]},
                 call_fn=lambda c, mm: "build Midline from case; load_patient_data(table); " + str(mm.get("observable")),
                 broken="correspondence Midline numerics vs /repo", shard=8)


def replay(ctx: Ctx, path: str) -> int:
    data = json.loads(open(path).read())
    from ..core import correspondence
    bad = correspondence(ctx, [data["case"]], impl_fn, coq_expr, compare, IMPORTS, tag="replay")
    if bad:
        print("REPRODUCED", json.dumps(bad[0][1], default=str))
        return 1
    print("not reproduced")
    return 0
