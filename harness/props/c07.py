"""C07: prior state distributions (time evolution, marginalisation, Bayesian network).

Tie: state_dist_evo(), state_dist(t, HMM|BN), obs_dist(), evolve()  vs  Unilateral.state_dist_evo /
state_dist / obs_dist / evolve of the Coq model (which the theorems identify with evo_spec / prior_spec / bn_spec).
"""
from __future__ import annotations

import copy
import json

import numpy as np

from .. import gen, impl
from ..core import Ctx, first_diff, fracs, run_standard, unres, s, nat, lst, q
from ..coqterms import coq_uni

IMPORTS = "Base States Linalg Graph Transition Observation Dist Unilateral"


def gen_case(rng, tier):
    base = rng.choice([2, 2, 3])
    maxl = 3 if base == 2 else 2
    g = gen.gen_graph(rng, max_lnls=maxl, base=base)
    mt = rng.randint(0, 5 if tier == "thorough" else 4)
    c = {"graph": g, "params": gen.gen_edge_params(rng, g), "mods": gen.gen_modalities(rng, 0, 1 if len(gen.lnls_of(g)) == 3 else 2),
         "max_time": mt, "dists": gen.gen_dists(rng, mt)}
    c["query_t"] = list(c["dists"])[0] if rng.random() < 0.9 else "nostage"
    c["steps"] = [rng.randint(0, 3), rng.randint(0, 3)]
    micro = [k for k in c["params"] if k.endswith("_micro")]
    if micro and rng.random() < 0.3:          # boundary: a micro modifier of exactly 0 on an arc that does spread
        k = rng.choice(micro)
        c["params"][k] = 0.0
        sp = k[:-len("micro")] + "spread"
        if c["params"].get(sp, 0.0) == 0.0:
            c["params"][sp] = 0.5
    return c


def impl_fn(case):
    if case["steps"][0] % 2 == 0:
        # (no set_params after the max_time change: it would re-evaluate the distributions and hide a stale pmf)
        m = impl.build_uni_via_other_max_time(case)
    else:
        impl.prime_twin_relisted(case)
        m = impl.build_uni(case)
        impl.prime_params(m, case, lambda mm: (mm.state_dist_evo(), mm.transition_matrix()))
    out = {"evo": m.state_dist_evo().tolist()}
    for key, fn in (("sd", lambda: m.state_dist(case["query_t"]).tolist()),
                    ("bn", lambda: m.state_dist(mode="BN").tolist()),
                    ("od", lambda: m.obs_dist(t_stage=case["query_t"]).tolist())):
        try:
            out[key] = ("ok", fn())
        except Exception as e:  # noqa: BLE001
            out[key] = ("err", impl.err_enum(e))
    n = len(m.graph.state_list)
    v0 = np.zeros(n)
    v0[0] = 1.0
    a, b = case["steps"]
    out["evolve_ab"] = m.evolve(m.evolve(v0, a), b).tolist()
    out["evolve_sum"] = m.evolve(v0, a + b).tolist()
    return out


def coq_expr(case):
    u = coq_uni(case)
    t = s(case["query_t"])
    a, b = case["steps"]
    def r(e):
        return f"match {e} with inr v => inr (qouts v) | inl e => inl e end"
    return (f"let u := {u} in let T := transition_matrix u in let v0 := onehot0 (Nat.pow (u_base u) (u_n u)) in "
            f"(qoutm (state_dist_evo u), {r(f'state_dist u {t} true')}, {r('state_dist_bn (u_graph u)')}, "
            f"{r(f'obs_dist u {t} true')}, qouts (evolve T (evolve T v0 {nat(a)}) {nat(b)}), qouts (evolve T v0 {nat(a + b)}))")


def _cmp_res(name, obs, val, case):
    kind, payload = unres(val)
    if obs[0] == "err":
        if kind == "err" and payload == obs[1]:
            return None
        return {"observable": name, "actual": f"raised {obs[1]}", "expected": payload if kind == "err" else "a vector"}
    if kind == "err":
        return {"observable": name, "actual": "a vector", "expected": f"raises {payload}"}
    d = first_diff(obs[1], fracs(payload))
    return {"observable": name, **d} if d else None


def compare(case, obs, val):
    evo, sd, bn, od, e_ab, e_sum = val
    if obs[0] == "err":
        return {"observable": "state_dist_evo", "actual": f"raised {obs[1]}: {obs[2]}", "expected": "values"}
    o = obs[1]
    d = first_diff(o["evo"], fracs(evo))
    if d:
        return {"observable": "state_dist_evo()", **d, "statement": "row t = all-healthy state propagated t times (C07_evo_spec)"}
    for name, ob, v in ((f"state_dist({case['query_t']!r})", o["sd"], sd), ("state_dist(mode='BN')", o["bn"], bn),
                        (f"obs_dist({case['query_t']!r})", o["od"], od)):
        mm = _cmp_res(name, ob, v, case)
        if mm:
            return mm
    d = first_diff(o["evolve_ab"], fracs(e_ab)) or first_diff(o["evolve_sum"], fracs(e_sum))
    if d:
        return {"observable": "evolve()", **d}
    # relation-only statements on the implementation
    evo_a = np.asarray(o["evo"])
    if evo_a.shape[0] != case["max_time"] + 1:
        return {"observable": "state_dist_evo() length", "actual": evo_a.shape[0], "expected": case["max_time"] + 1}
    if (evo_a < -1e-12).any() or not np.allclose(evo_a.sum(axis=1), 1.0, atol=1e-9):
        return {"observable": "state_dist_evo() normalisation", "actual": evo_a.sum(axis=1).tolist(), "expected": 1}
    if not np.allclose(o["evolve_ab"], o["evolve_sum"], atol=1e-9):
        return {"observable": "evolve additivity", "actual": o["evolve_ab"], "expected": o["evolve_sum"]}
    return None


def candidates(case):
    out = []
    g = case["graph"]
    names = gen.lnls_of(g)
    if len(names) > 1:
        for l in names:
            g2 = {"base": g["base"], "entries": [[k, n, [c for c in cs if c != l]] for k, n, cs in g["entries"] if n != l]}
            if any(cs for k, n, cs in g2["entries"] if k == "tumor"):
                c = copy.deepcopy(case)
                c["graph"] = g2
                c["params"] = {n: case["params"].get(n, 0.5) for n in gen.edge_param_names(g2)}
                out.append(c)
    if case["max_time"] > 0:
        c = copy.deepcopy(case)
        c["max_time"] -= 1
        for t, d in c["dists"].items():
            if "frozen" in d:
                d["frozen"] = d["frozen"][:-1]
                if sum(d["frozen"]) == 0:
                    d["frozen"][0] = 1
        out.append(c)
    if case["mods"]:
        c = copy.deepcopy(case)
        c["mods"] = c["mods"][:-1]
        out.append(c)
    for name, v in case["params"].items():
        if v not in (0.0, 1.0, 0.5):
            c = copy.deepcopy(case)
            c["params"][name] = 0.5
            out.append(c)
    return out


def run(ctx: Ctx, a_ok: bool):
    ctx.cone = ["Unilateral.state_dist_evo", "Unilateral.state_dist", "Unilateral.state_dist_bn", "Unilateral.obs_dist_of",
                "Unilateral.evolve", "Transition.generate_transition", "Dist.pmf"]
    ctx.rule = ("random graphs x parameters x max_time 0-4(5) x frozen/parametric distributions x 0-2 modalities; queries: "
                "state_dist_evo, state_dist (HMM incl. a T-stage without distribution, BN incl. trinary -> NotImplementedError), "
                "obs_dist, evolve(a) then evolve(b) vs evolve(a+b); non-trivial iff max_time >= 1 and some parameter strictly inside (0,1)")
    n = 120 if ctx.tier == "quick" else 800
    cases = [gen_case(ctx.rng, ctx.tier) for _ in range(n)]
    for c in cases:
        ctx.count(c, c["max_time"] >= 1 and gen.is_nontrivial_params(c["params"]),
                  f"base{c['graph']['base']}-maxt{c['max_time']}")
    run_standard(ctx, cases, impl_fn, coq_expr, compare, IMPORTS, candidates,
                 sig_fn=lambda c, mm: {"class": "Unilateral", "call": str(mm.get("observable")).split("(")[0]},
                 call_fn=lambda c, mm: "Unilateral(graph, max_time).set_params(**params); set_distribution(...); " + str(mm.get("observable")),
                 broken="correspondence Unilateral.state_dist_evo/state_dist/obs_dist vs /repo", shard=20)


def replay(ctx: Ctx, path: str) -> int:
    data = json.loads(open(path).read())
    from ..core import correspondence
    bad = correspondence(ctx, [data["case"]], impl_fn, coq_expr, compare, IMPORTS, tag="replay")
    if bad:
        print("REPRODUCED", json.dumps(bad[0][1], default=str))
        return 1
    print("not reproduced")
    return 0
