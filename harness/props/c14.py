"""C14: progression is irreversible and monotone in time and in every spread parameter.

Search for failing inputs = metamorphic testing of the IMPLEMENTATION (no oracle needed):
  time      P_t(lnl involved / macroscopic) <= P_{t+1}(...)            rows of state_dist_evo()
  param     one spread / growth / micro coordinate increased => every marginal at every t does not decrease
  pmf       diagnosis-time pmf shifted to stochastically later times => marginal of state_dist(t_stage) does not decrease
  unreach   an LNL not reachable through arcs with non-zero spread is involved with probability 0

Tie to the Coq model: the quantity the theorems of properties/C14.v speak about, [marg g t i a]
(evaluated through [marg_table] / [time_marg_fast], which C14_marg_fast identifies with [marg] / [time_marg]),
is compared with Unilateral.marginalize(involvement={lnl: True | "macro"}, given_state_dist=state_dist_evo()[t])
resp. marginalize(..., t_stage=...) of the implementation; the hypotheses of the theorems
(wf_graphb, params_in_unitb, unreachable_cert) are evaluated on the same Coq terms.
"""
from __future__ import annotations

import copy
import json
from fractions import Fraction

import numpy as np

from .. import gen, impl
from ..core import Ctx, HarnessError, first_diff, fracs, run_coq_cases, shrink, q, s, nat, lst
from ..coqterms import coq_graph

IMPORTS = "Base States Linalg Graph Transition Observation Dist Unilateral Monotone"
SLACK = 1e-9        # monotone quantities are short sums of products of numbers in [0,1]
ZERO = 1e-12


# ------------------------------------------------------------------------------------------
# generation
# ------------------------------------------------------------------------------------------
def _graph(rng, tier, min_lnls=1, base=None):
    if base is None:
        base = rng.choice([2, 2, 3, 3])
    if tier == "quick":
        maxl = 3 if base == 2 else 2
    else:
        maxl = 3 if (base == 2 or rng.random() < 0.3) else 2
    while True:
        g = gen.gen_graph(rng, max_lnls=maxl, base=base)
        n = len(gen.lnls_of(g))
        if n >= min_lnls and (n > 1 or rng.random() < 0.4):     # single-LNL graphs are kept, but rarer
            return g


def _coord_kind(name):
    return name.rpartition("_")[2]      # spread | micro | growth


def gen_time_case(rng, tier):
    g = _graph(rng, tier)
    T = rng.randint(1, 5 if tier == "quick" else 7)
    return {"kind": "time", "graph": g, "params": gen.gen_edge_params(rng, g), "max_time": T}


def gen_param_case(rng, tier):
    want = rng.choice(["spread", "spread", "micro", "growth"])
    base = 3 if want in ("micro", "growth") else None
    for _ in range(50):
        g = _graph(rng, tier, min_lnls=2 if want == "micro" else 1, base=base)
        names = [n for n in gen.edge_param_names(g) if _coord_kind(n) == want]
        if names:
            break
    else:
        names = gen.edge_param_names(g)
    params = gen.gen_edge_params(rng, g)
    coord = rng.choice(names)
    r = rng.random()
    if r < 0.2:
        params[coord] = 0.0                       # increase starting at 0
    old = params[coord]
    r = rng.random()
    if r < 0.25:
        new = 1.0                                 # increase up to 1
    elif r < 0.35:
        new = old                                 # degenerate pair (equal vectors)
    else:
        new = old + (1.0 - old) * gen.gen_value(rng)
    T = rng.randint(1, 4 if tier == "quick" else 6)
    return {"kind": "param", "graph": g, "params": params, "max_time": T, "coord": coord, "new": min(1.0, new)}


def gen_pmf_case(rng, tier):
    g = _graph(rng, tier)
    T = rng.randint(1, 4 if tier == "quick" else 6)
    pm = [rng.choice([0, 1, 2, 3, 5]) for _ in range(T + 1)]
    if sum(pm) == 0:
        pm[rng.randrange(T + 1)] = 2
    pm2 = list(pm)
    for _ in range(rng.randint(0, 4)):
        src = [j for j in range(T) if pm2[j] > 0]
        if not src:
            break
        j = rng.choice(src)
        k = rng.randint(j + 1, T)
        d = rng.randint(1, pm2[j])
        pm2[j] -= d
        pm2[k] += d
    return {"kind": "pmf", "graph": g, "params": gen.gen_edge_params(rng, g), "max_time": T, "pm": pm, "pm2": pm2}


def _has_path(g, a, b):
    adj = {n: list(cs) for k, n, cs in g["entries"] if k == "lnl"}
    seen, todo = set(), [a]
    while todo:
        u = todo.pop()
        if u == b:
            return True
        if u in seen:
            continue
        seen.add(u)
        todo.extend(adj.get(u, []))
    return False


def gen_unreach_case(rng, tier):
    g = copy.deepcopy(_graph(rng, tier, min_lnls=2))
    lnls = gen.lnls_of(g)
    U = rng.sample(lnls, 1 if (len(lnls) == 2 or rng.random() < 0.5) else 2)
    ent = {n: e for e in g["entries"] for n in [e[1]]}
    if len(U) == 2:
        a, b = U
        if b not in ent[a][2] and a not in ent[b][2]:      # chain inside U: the child sits behind an unreachable parent
            if not _has_path(g, b, a):
                ent[a][2].append(b)
            else:
                ent[b][2].append(a)
    zero = []
    for e in g["entries"]:
        k, n, cs = e
        if n in U:
            continue
        for c in list(cs):
            if c in U:
                n_tumor_arcs = sum(len(e2[2]) for e2 in g["entries"] if e2[0] == "tumor")
                if rng.random() < 0.5 and not (k == "tumor" and n_tumor_arcs <= 1):
                    cs.remove(c)                           # no incoming arc at all
                else:
                    zero.append(f"{n}to{c}_spread")        # incoming arc with spread 0
    params = gen.gen_edge_params(rng, g)
    for name in zero:
        params[name] = 0.0
    for name in params:                                    # arcs inside / out of U carry positive spread
        src, _, rest = name.partition("to")
        if rest and src in U and name.endswith("_spread") and params[name] == 0.0:
            params[name] = rng.randint(1, 16) / 16.0
    T = rng.randint(1, 4 if tier == "quick" else 6)
    return {"kind": "unreach", "graph": g, "params": params, "max_time": T, "unreach": sorted(U)}


def params2_of(case):
    p2 = dict(case["params"])
    p2[case["coord"]] = case["new"]
    return p2


def norm_pm(pm):
    tot = sum(pm)
    return [Fraction(w, tot) for w in pm]


# ------------------------------------------------------------------------------------------
# implementation side
# ------------------------------------------------------------------------------------------
def impl_table(case, params):
    impl.prime_twin_relisted({"graph": case["graph"], "params": params, "max_time": case["max_time"]})
    m = impl.build_uni({"graph": case["graph"], "params": params, "max_time": case["max_time"]})
    evo = m.state_dist_evo()
    names = list(m.graph.lnls.keys())
    tri = bool(m.is_trinary)
    tab = []
    for t in range(case["max_time"] + 1):
        row = []
        for l in names:
            inv = float(m.marginalize(involvement={l: True}, given_state_dist=evo[t]))
            mac = float(m.marginalize(involvement={l: "macro"}, given_state_dist=evo[t])) if tri else 0.0
            row.append([inv, mac])
        tab.append(row)
    return tab


def impl_pmf(case, pm):
    m = impl.build_uni({"graph": case["graph"], "params": case["params"], "max_time": case["max_time"],
                        "dists": {"early": {"frozen": pm}}})
    names = list(m.graph.lnls.keys())
    tri = bool(m.is_trinary)
    sd = m.state_dist("early")
    out = []
    for l in names:
        inv = float(m.marginalize(involvement={l: True}, t_stage="early"))
        inv2 = float(m.marginalize(involvement={l: True}, given_state_dist=sd))
        if abs(inv - inv2) > SLACK:
            raise AssertionError("marginalize(t_stage=...) differs from marginalize(given_state_dist=state_dist(...))")
        mac = float(m.marginalize(involvement={l: "macro"}, t_stage="early")) if tri else 0.0
        out.append([inv, mac])
    return out


def impl_fn(case):
    out = {"tab": impl_table(case, case["params"]), "tab2": [], "pmA": [], "pmB": []}
    if case["kind"] == "param":
        out["tab2"] = impl_table(case, params2_of(case))
    if case["kind"] == "pmf":
        out["pmA"] = impl_pmf(case, case["pm"])
        out["pmB"] = impl_pmf(case, case["pm2"])
    return out


def observe(case):
    try:
        return ("ok", impl_fn(case))
    except Exception as e:  # noqa: BLE001
        return ("err", impl.err_enum(e), repr(e)[:300])


def relation(case, obs):
    """The property's relations evaluated on the implementation alone. None = holds."""
    if obs[0] == "err":
        return {"observable": "state_dist_evo()/marginalize()", "relation": "runs", "actual": f"raised {obs[1]}: {obs[2]}",
                "expected": "values"}
    o = obs[1]
    names = gen.lnls_of(case["graph"])
    what = ["True", "'macro'"]
    tab = np.asarray(o["tab"], dtype=float)
    if np.isnan(tab).any():
        return {"observable": "marginalize()", "relation": "finite", "actual": "nan", "expected": "a probability"}
    d = tab[1:] - tab[:-1]
    if d.size and d.min() < -SLACK:
        t, i, a = (int(v) for v in np.unravel_index(np.argmin(d), d.shape))
        return {"observable": f"marginalize({{{names[i]!r}: {what[a]}}}, state_dist_evo()[t])", "relation": "time",
                "lnl": names[i], "t": t, "actual": [float(tab[t, i, a]), float(tab[t + 1, i, a])],
                "expected": "P_t <= P_{t+1} (C14_time_monotone)"}
    if case["kind"] == "param":
        tab2 = np.asarray(o["tab2"], dtype=float)
        d = tab2 - tab
        if np.isnan(tab2).any() or d.min() < -SLACK:
            t, i, a = (int(v) for v in np.unravel_index(np.nanargmin(d), d.shape))
            return {"observable": f"marginalize({{{names[i]!r}: {what[a]}}}, state_dist_evo()[{t}])", "relation": "param",
                    "coordinate": case["coord"], "kind": _coord_kind(case["coord"]),
                    "old": case["params"][case["coord"]], "new": case["new"], "lnl": names[i], "t": t,
                    "actual": [float(tab[t, i, a]), float(tab2[t, i, a])],
                    "expected": "non-decreasing in the coordinate (C14_single_coordinate)"}
    if case["kind"] == "pmf":
        A, B = np.asarray(o["pmA"], dtype=float), np.asarray(o["pmB"], dtype=float)
        d = B - A
        if np.isnan(d).any() or d.min() < -SLACK:
            i, a = (int(v) for v in np.unravel_index(np.nanargmin(d), d.shape))
            return {"observable": f"marginalize({{{names[i]!r}: {what[a]}}}, t_stage)", "relation": "pmf",
                    "pmf": case["pm"], "later_pmf": case["pm2"], "lnl": names[i],
                    "actual": [float(A[i, a]), float(B[i, a])],
                    "expected": "non-decreasing under a stochastically later pmf (C14_later_diagnosis_monotone)"}
    if case["kind"] == "unreach":
        for l in case["unreach"]:
            i = names.index(l)
            col = tab[:, i, 0]
            if col.max() > ZERO:
                t = int(np.argmax(col))
                return {"observable": f"marginalize({{{l!r}: True}}, state_dist_evo()[{t}])", "relation": "unreach",
                        "lnl": l, "t": t, "actual": float(col[t]), "expected": "0 (C14_unreachable_stays_healthy)"}
    return None


# ------------------------------------------------------------------------------------------
# Coq side
# ------------------------------------------------------------------------------------------
def coq_expr(case):
    g = coq_graph(case["graph"], case["params"])
    T = nat(case["max_time"])
    hyp = "wf_graphb g && params_in_unitb g"
    tab2 = "[]"
    pmA = pmB = "[]"
    pre = f"let g := {g} in "
    if case["kind"] == "param":
        pre += f"let g2 := {coq_graph(case['graph'], params2_of(case))} in "
        hyp += " && wf_graphb g2 && params_in_unitb g2"
        tab2 = f"map (map qouts) (marg_table g2 {T})"
    if case["kind"] == "pmf":
        def tm(pm):
            p = lst(q(w) for w in norm_pm(pm))
            return f"map (fun i => qouts [time_marg_fast g {p} i 1; time_marg_fast g {p} i 2]) (seq 0 (nlnls g))"
        pmA, pmB = tm(case["pm"]), tm(case["pm2"])
    if case["kind"] == "unreach":
        hyp += f" && unreachable_cert g {lst(s(l) for l in case['unreach'])}"
    return pre + f"({hyp}, map (map qouts) (marg_table g {T}), {tab2}, {pmA}, {pmB})"


def compare(case, obs, val):
    hyp, tab, tab2, pmA, pmB = val
    if hyp is not True:
        raise HarnessError(f"generated case does not satisfy the theorems' hypotheses in the model: {json.dumps(case)}")
    tab, tab2, pmA, pmB = fracs(tab), fracs(tab2), fracs(pmA), fracs(pmB)
    # the theorems, re-checked on the exact values (cannot fail unless the harness is wrong)
    for t in range(len(tab) - 1):
        for i in range(len(tab[t])):
            for a in range(2):
                if tab[t][i][a] > tab[t + 1][i][a]:
                    raise HarnessError(f"model contradicts C14_time_monotone on {json.dumps(case)}")
    if obs[0] == "err":
        return {"observable": "state_dist_evo()/marginalize()", "actual": f"raised {obs[1]}: {obs[2]}", "expected": "values"}
    o = obs[1]
    names = gen.lnls_of(case["graph"])
    what = ["True", "'macro'"]
    for key, exp, label in (("tab", tab, "params"), ("tab2", tab2, "params with the coordinate increased")):
        if not exp and not o[key]:
            continue
        d = first_diff(o[key], exp)
        if d:
            if "index" in d:
                t, i, a = d["index"]
                d = {"t": t, "lnl": names[i], "involvement": what[a], "actual": d["actual"], "expected": exp[t][i][a],
                     "which": label}
            return {"observable": "marginalize(involvement, given_state_dist=state_dist_evo()[t])", **d,
                    "statement": "P_t(x_lnl >= a) of the Spec (marg, C14_marg_fast) = what the code computes"}
    for key, exp, pm in (("pmA", pmA, "pm"), ("pmB", pmB, "pm2")):
        if not exp and not o[key]:
            continue
        d = first_diff(o[key], exp)
        if d:
            if "index" in d:
                i, a = d["index"]
                d = {"lnl": names[i], "involvement": what[a], "actual": d["actual"], "expected": exp[i][a], "pmf": case[pm]}
            return {"observable": "marginalize(involvement, t_stage)", **d,
                    "statement": "sum_t pmf(t) P_t(x_lnl >= a) of the Spec (time_marg = prior_marg, C14_prior_marg)"}
    return None


def tie_failing(ctx, cases, tag):
    obs = [observe(c) for c in cases]
    vals = run_coq_cases(ctx.work / tag, [coq_expr(c) for c in cases], IMPORTS, shard=12)
    bad = []
    for c, o, v in zip(cases, obs, vals):
        mm = compare(c, o, v)
        if mm is not None:
            bad.append((c, mm))
    keys = {json.dumps(c, sort_keys=True) for c, _ in bad}
    return [json.dumps(c, sort_keys=True) in keys for c in cases], bad


# ------------------------------------------------------------------------------------------
# shrinking
# ------------------------------------------------------------------------------------------
def _restrict(case, g2):
    names = gen.edge_param_names(g2)
    c = copy.deepcopy(case)
    c["graph"] = g2
    c["params"] = {n: case["params"].get(n, 0.5) for n in names}
    if case["kind"] == "param" and case["coord"] not in names:
        return None
    if case["kind"] == "unreach":
        left = gen.lnls_of(g2)
        c["unreach"] = [l for l in case["unreach"] if l in left]
        if not c["unreach"]:
            return None
    return c


def candidates(case):
    out = []
    g = case["graph"]
    names = gen.lnls_of(g)
    if len(names) > 1:
        for l in names:
            g2 = {"base": g["base"], "entries": [[k, n, [c for c in cs if c != l]] for k, n, cs in g["entries"] if n != l]}
            if any(cs for k, n, cs in g2["entries"] if k == "tumor"):
                c = _restrict(case, g2)
                if c is not None:
                    out.append(c)
    if case["kind"] != "unreach":      # (an unreach case keeps its arcs: their absence / zero spread is the point)
        for idx, (k, n, cs) in enumerate(g["entries"]):
            for ch in cs:
                g2 = copy.deepcopy(g)
                g2["entries"][idx][2].remove(ch)
                if any(cs2 for k2, n2, cs2 in g2["entries"] if k2 == "tumor"):
                    c = _restrict(case, g2)
                    if c is not None:
                        out.append(c)
    if case["max_time"] > 1:
        c = copy.deepcopy(case)
        c["max_time"] -= 1
        if case["kind"] == "pmf":      # merge the last two bins: sums and tail dominance are preserved
            for key in ("pm", "pm2"):
                w = case[key]
                c[key] = w[:-2] + [w[-2] + w[-1]]
        out.append(c)
    for name, v in case["params"].items():
        if name == case.get("coord"):
            continue
        for nv in (0.5, 1.0):
            if v not in (0.0, 0.5, 1.0) or (nv == 1.0 and v == 0.5):
                c = copy.deepcopy(case)
                c["params"][name] = nv
                out.append(c)
    if case["kind"] == "param":
        old = case["params"][case["coord"]]
        for o2, n2 in ((0.0, 1.0), (old, 1.0), (0.0, case["new"]), (0.5, 1.0), (0.0, 0.5)):
            if (o2, n2) != (old, case["new"]) and o2 <= n2:
                c = copy.deepcopy(case)
                c["params"][case["coord"]] = o2
                c["new"] = n2
                out.append(c)
    return out


def relation_fails_batch(cases):
    return [relation(c, observe(c)) is not None for c in cases]


def neighbours(rng, case, n):
    """relation cases of every kind on the graph of `case`"""
    out = []
    g = case["graph"]
    names = gen.edge_param_names(g)
    for _ in range(n):
        T = rng.randint(1, 4)
        params = gen.gen_edge_params(rng, g)
        r = rng.random()
        if r < 0.6 and names:
            coord = rng.choice(names)
            old = params[coord] if rng.random() < 0.7 else 0.0
            params[coord] = old
            new = 1.0 if rng.random() < 0.3 else old + (1.0 - old) * gen.gen_value(rng)
            out.append({"kind": "param", "graph": g, "params": params, "max_time": T, "coord": coord, "new": min(1.0, new)})
        elif r < 0.8:
            pm = [rng.choice([0, 1, 2, 3, 5]) for _ in range(T + 1)]
            if sum(pm) == 0:
                pm[0] = 1
            pm2 = list(pm)
            for _ in range(2):
                src = [j for j in range(T) if pm2[j] > 0]
                if src:
                    j = rng.choice(src)
                    pm2[j] -= 1
                    pm2[rng.randint(j + 1, T)] += 1
            out.append({"kind": "pmf", "graph": g, "params": params, "max_time": T, "pm": pm, "pm2": pm2})
        else:
            out.append({"kind": "time", "graph": g, "params": params, "max_time": T})
    return out


# ------------------------------------------------------------------------------------------
# reporting
# ------------------------------------------------------------------------------------------
def call_text(case, mm):
    base = "trinary" if case["graph"]["base"] == 3 else "binary"
    txt = f"m = Unilateral.{base}(graph_dict, max_time={case['max_time']}); m.set_params(**params); "
    if mm.get("relation") == "param" or case["kind"] == "param":
        txt += f"compare with a fresh model whose {case.get('coord')} is {case.get('new')}; "
    if case["kind"] == "pmf":
        txt += "m.set_distribution('early', pm) vs pm2; "
    return txt + str(mm.get("observable"))


def signature(case, mm):
    sig = {"class": "Unilateral", "relation": mm.get("relation", "tie"), "base": case["graph"]["base"]}
    if mm.get("relation") == "param":
        sig["coordinate"] = _coord_kind(case["coord"])
    return sig


def report_relation(ctx, case, mm):
    small = shrink(ctx, case, candidates, relation_fails_batch, budget_s=25.0, max_cands=40)
    mm2 = relation(small, observe(small)) or mm
    if mm2 is mm:
        small = case
    ctx.violation(f"monotonicity / irreversibility violated on the implementation ({mm2.get('relation')}): {mm2.get('observable')}",
                  {"case": small, "mismatch": mm2, "call": call_text(small, mm2),
                   "broken": "relation of C14 evaluated on /repo"}, signature(small, mm2))


def run(ctx: Ctx, a_ok: bool):
    ctx.cone = ["Monotone.marg / marg_table / time_marg_fast (Spec: Transition.trans_spec, Unilateral.evo_spec, prior_spec)",
                "Unilateral.state_dist_evo", "Unilateral.state_dist", "Unilateral.marginalize", "Graph.build_graph"]
    ctx.rule = ("random graphs (binary <= 3 LNLs, trinary <= 2 (thorough: <= 3), 1-2 tumours, shuffled listing) x parameters from "
                "{0,1} U k/16 U short dyadics x max_time 1-5(7); kinds: time (consecutive rows of state_dist_evo), param (one "
                "spread/growth/micro coordinate increased, incl. from 0 and to 1), pmf (frozen diagnosis-time pmf moved to later "
                "times), unreach (1-2 LNLs cut off by deleting arcs or by spread 0, also behind an unreachable parent); every case "
                "also checks time monotonicity; non-trivial iff some parameter lies strictly inside (0,1) and the pair differs "
                "(param: new > old, pmf: pm2 != pm)")
    rng = ctx.rng
    quick = ctx.tier == "quick"
    plan = [("time", gen_time_case, 40 if quick else 400), ("param", gen_param_case, 100 if quick else 1000),
            ("pmf", gen_pmf_case, 30 if quick else 300), ("unreach", gen_unreach_case, 30 if quick else 300)]
    cases = []
    for _, fn, n in plan:
        for _ in range(n):
            cases.append(fn(rng, ctx.tier))
    for c in cases:
        nt = gen.is_nontrivial_params(c["params"])
        if c["kind"] == "param":
            nt = nt and c["new"] > c["params"][c["coord"]]
            ctx.bump("coord-" + _coord_kind(c["coord"]))
            if c["params"][c["coord"]] == 0.0:
                ctx.bump("increase-from-0")
            if c["new"] == 1.0:
                ctx.bump("increase-to-1")
        if c["kind"] == "pmf":
            nt = nt and c["pm"] != c["pm2"]
        ctx.count(c, nt, f"{c['kind']}-base{c['graph']['base']}-lnls{len(gen.lnls_of(c['graph']))}")

    # (1) the relations, on the implementation alone
    observed = [observe(c) for c in cases]
    rel_bad = [(c, mm) for c, o in zip(cases, observed) for mm in [relation(c, o)] if mm is not None]
    seen = []
    for c, mm in rel_bad:
        sig = signature(c, mm)
        if sig in seen or len(seen) >= 3:
            continue
        seen.append(sig)
        report_relation(ctx, c, mm)

    # (2) tie: the Spec quantity of the theorems is what the code computes
    vals = run_coq_cases(ctx.work / "main", [coq_expr(c) for c in cases], IMPORTS, shard=12)
    tie_bad = []
    for c, o, v in zip(cases, observed, vals):
        mm = compare(c, o, v)
        if mm is not None:
            tie_bad.append((c, mm))
    ctx.extra["relation_failures"] = len(rel_bad)
    ctx.extra["tie_mismatches"] = len(tie_bad)
    if tie_bad and not rel_bad:
        case, mm = tie_bad[0]
        small = shrink(ctx, case, candidates, lambda cs: tie_failing(ctx, cs, "shrink")[0], budget_s=40.0)
        _, bad2 = tie_failing(ctx, [small], "final")
        if bad2:
            mm = bad2[0][1]
        else:
            small = case
        # search the neighbourhood of the shrunk case for an input on which the property itself fails
        found = None
        for nb in [small] + neighbours(rng, small, 200 if quick else 600):
            r = relation(nb, observe(nb))
            if r is not None:
                found = (nb, r)
                break
        if found:
            report_relation(ctx, *found)
        else:
            ctx.violation(f"{mm.get('observable')}: implementation differs from the Spec quantity of the C14 theorems",
                          {"case": small, "mismatch": mm, "call": call_text(small, mm),
                           "broken": "correspondence Monotone.marg (Spec) vs Unilateral.state_dist_evo/marginalize of /repo; "
                                     "the monotonicity relations themselves held on this case and on its neighbours"},
                          {"class": "Unilateral", "relation": "tie", "base": small["graph"]["base"]}, found_input=False)


def replay(ctx: Ctx, path: str) -> int:
    data = json.loads(open(path).read())
    case = data["case"]
    r = relation(case, observe(case))
    if r is not None:
        print("REPRODUCED", json.dumps(r, default=str))
        return 1
    _, bad = tie_failing(ctx, [case], "replay")
    if bad:
        print("REPRODUCED", json.dumps(bad[0][1], default=str))
        return 1
    print("not reproduced")
    return 0
