"""C05: transition matrix implements the per-LNL spread and growth rules.

Tie: transition_matrix(), graph.state_list, transition_prob(new_state) from every
current state  vs  the Coq model (generate_transition / state_list / transition_prob),
whose entries the theorems of properties/C05.v identify with trans_spec.
"""
from __future__ import annotations

import copy
import itertools
import json

import numpy as np

from .. import gen, impl
from ..core import Ctx, correspondence, fracs, shrink
from ..coqterms import coq_graph

IMPORTS = "Base States Linalg Graph Transition"


def gen_case(rng, tier):
    maxl = 3
    base = rng.choice([2, 2, 3])
    if base == 3 and tier == "quick":
        maxl = 2
    g = gen.gen_graph(rng, max_lnls=maxl, base=base)
    return {"graph": g, "params": gen.gen_edge_params(rng, g)}


def all_small_graphs(base, max_lnls):
    """All graphs with LNLs I.. (n<=max_lnls), 1-2 tumours, every arc subset (up to listing order)."""
    out = []
    for n in range(1, max_lnls + 1):
        names = gen.LNL_NAMES[:n]
        for nt in (1, 2):
            ts = gen.TUMOR_NAMES[:nt]
            tarcs = [(t, l) for t in ts for l in names]
            larcs = [(a, b) for a in names for b in names if a != b]
            for tm in itertools.product([0, 1], repeat=len(tarcs)):
                if nt == 2 and not any(tm[i] for i, (t, _) in enumerate(tarcs) if t == "U"):
                    continue  # second tumour must matter, else it is the 1-tumour graph
                for lm in itertools.product([0, 1], repeat=len(larcs)):
                    # exclude 2-cycles? the HMM code accepts cycles; keep them out (DAG quantifier)
                    chosen = [a for a, m in zip(larcs, lm) if m]
                    if any((b, a) in chosen for a, b in chosen):
                        continue
                    if n == 3 and _has_cycle(names, chosen):
                        continue
                    conns = {x: [] for x in ts + names}
                    for (t, l), m in zip(tarcs, tm):
                        if m:
                            conns[t].append(l)
                    for a, b in chosen:
                        conns[a].append(b)
                    entries = [["tumor", t, conns[t]] for t in ts] + [["lnl", l, conns[l]] for l in names]
                    out.append({"base": base, "entries": entries})
    return out


def _has_cycle(names, arcs):
    adj = {n: [b for a, b in arcs if a == n] for n in names}
    state = {}

    def dfs(u):
        state[u] = 1
        for v in adj[u]:
            if state.get(v) == 1 or (v not in state and dfs(v)):
                return True
        state[u] = 2
        return False
    return any(n not in state and dfs(n) for n in names)


def impl_fn(case):
    impl.prime_twin_relisted(case)
    m = impl.build_uni(case)
    impl.prime_params(m, case, lambda mm: (mm.transition_matrix(), hash(mm.graph)))
    T = m.transition_matrix()
    sl = m.graph.state_list
    tp = np.zeros_like(T)
    names = list(m.graph.lnls)
    for i, x in enumerate(sl):
        for j, y in enumerate(sl):
            k = (i + 2 * j) % 4          # the current state set in the documented ways: positional, by name, mixed
            xs = [int(v) for v in x]
            if k == 0:
                m.graph.set_state(*xs)
            elif k == 1:                 # keywords in reverse order
                m.graph.set_state(**{n: v for n, v in reversed(list(zip(names, xs)))})
            elif k == 2:                 # a positional prefix, the rest by name
                h = len(xs) // 2
                m.graph.set_state(*xs[:h], **dict(list(zip(names, xs))[h:]))
            else:                        # keywords override the positional values
                m.graph.set_state(*[0] * len(xs), **dict(zip(names, xs)))
            if list(m.graph.get_state()) != xs or m.graph.get_state(as_dict=True) != dict(zip(names, xs)):
                raise AssertionError(f"set_state/get_state: asked for {xs}, got {m.graph.get_state(as_dict=True)}")
            tp[i, j] = m.transition_prob(list(y))
    # assign=True returns the same probability and moves the model to the new state
    assign_ok = True
    for i, x in enumerate(sl[:4]):
        for j, y in enumerate(sl[:4]):
            m.graph.set_state(*x)
            p = m.transition_prob(list(y), assign=True)
            if abs(p - tp[i, j]) > 1e-12 or list(m.graph.get_state()) != [int(v) for v in y]:
                assign_ok = False
    return {"T": T.tolist(), "state_list": sl.tolist(), "tp": tp.tolist(), "assign_ok": assign_ok}


def coq_expr(case):
    g = coq_graph(case["graph"], case["params"])
    return (f"let g := {g} in (qoutm (generate_transition g), state_list g, "
            f"qoutm (map (fun x => map (transition_prob g x) (state_list g)) (state_list g)), "
            f"mat_eqb (generate_transition g) (trans_spec_matrix g) && wf_graphb g)")


def compare(case, obs, val):
    Tm, slm, tpm, selfcheck = val
    if selfcheck is not True:
        from ..core import HarnessError
        raise HarnessError(f"model self-check failed (Impl <> Spec or not wf) on {case}")
    Tm, tpm = fracs(Tm), fracs(tpm)
    if obs[0] == "err":
        return {"observable": "transition_matrix/transition_prob", "actual": f"raised {obs[1]}: {obs[2]}",
                "expected": "a matrix"}
    o = obs[1]
    if not o.get("assign_ok", True):
        return {"observable": "transition_prob(new_state, assign=True)", "actual": "different probability or state not assigned",
                "expected": "same probability as assign=False and graph.get_state() == new_state"}
    if o["state_list"] != slm:
        return {"observable": "graph.state_list", "actual": o["state_list"], "expected": slm}
    for name, act, exp in (("transition_matrix()", o["T"], Tm), ("transition_prob(new_state)", o["tp"], tpm)):
        a = np.asarray(act, dtype=float)
        e = np.array([[float(v) for v in r] for r in exp])
        if a.shape != e.shape:
            return {"observable": name, "actual": f"shape {a.shape}", "expected": f"shape {e.shape}"}
        d = np.abs(a - e)
        if np.isnan(a).any() or d.max() > 1e-9:
            i, j = np.unravel_index(np.nanargmax(np.where(np.isnan(a), np.inf, d)), d.shape)
            return {"observable": name, "from_state": slm[i], "to_state": slm[j],
                    "actual": float(a[i, j]), "expected": exp[i][j],
                    "statement": "entry = prod over LNLs of the per-LNL rule (C05_transition_entries)"}
    return None


def candidates(case):
    """smaller cases: drop an LNL, drop an arc, move a parameter to 0 / 1 / 1/2"""
    out = []
    g = case["graph"]
    names = gen.lnls_of(g)
    if len(names) > 1:
        for l in names:
            g2 = {"base": g["base"], "entries": [[k, n, [c for c in cs if c != l]] for k, n, cs in g["entries"] if n != l]}
            if any(cs for k, n, cs in g2["entries"] if k == "tumor"):
                out.append(_with_params(case, g2))
    for idx, (k, n, cs) in enumerate(g["entries"]):
        for c in cs:
            g2 = copy.deepcopy(g)
            g2["entries"][idx][2].remove(c)
            if any(cs2 for k2, n2, cs2 in g2["entries"] if k2 == "tumor"):
                out.append(_with_params(case, g2))
    for name, v in case["params"].items():
        for nv in (0.0, 1.0, 0.5):
            if v != nv and (v not in (0.0, 1.0, 0.5) or nv == 0.5 and False):
                c2 = copy.deepcopy(case)
                c2["params"][name] = nv
                out.append(c2)
    return out


def _with_params(case, g2):
    names = gen.edge_param_names(g2)
    return {"graph": g2, "params": {n: case["params"].get(n, 0.5) for n in names}}


def failing(ctx, cases, tag):
    bad = correspondence(ctx, cases, impl_fn, coq_expr, compare, IMPORTS, tag=tag, shard=60)
    badset = {json.dumps(c, sort_keys=True) for c, _ in bad}
    return [json.dumps(c, sort_keys=True) in badset for c in cases], bad


def implementation_only_checks(case):
    """Property statements that need no model: row sums, range, no regress / skip."""
    try:
        m = impl.build_uni(case)
        T = m.transition_matrix()
        sl = m.graph.state_list
    except Exception as e:  # noqa: BLE001
        return {"observable": "transition_matrix()", "actual": f"raised {impl.err_enum(e)}"}
    if not np.allclose(T.sum(axis=1), 1.0, atol=1e-9):
        i = int(np.argmax(np.abs(T.sum(axis=1) - 1)))
        return {"observable": "row sum", "from_state": sl[i].tolist(), "actual": float(T[i].sum()), "expected": 1}
    if (T < -1e-12).any() or (T > 1 + 1e-12).any():
        return {"observable": "entry range", "actual": [float(T.min()), float(T.max())], "expected": "[0,1]"}
    for i, x in enumerate(sl):
        for j, y in enumerate(sl):
            if T[i, j] > 1e-12 and (np.any(y < x) or np.any(y > x + 1)):
                return {"observable": "regress/skip", "from_state": x.tolist(), "to_state": y.tolist(),
                        "actual": float(T[i, j]), "expected": 0}
    return None


def run(ctx: Ctx, a_ok: bool):
    from ..internals import transition_diagnostics
    try:
        transition_diagnostics(ctx)
    except Exception as e:  # noqa: BLE001  (diagnostics never fail a check)
        ctx.extra.setdefault('internal_diagnostics', {})['error'] = repr(e)[:200]
    ctx.cone = ["Graph.build_graph", "Transition.generate_transition", "Transition.transition_prob", "States.all_states"]
    ctx.rule = ("random lymph graphs (1-3 LNLs, 1-2 tumours, random DAG + tumour arcs, shuffled listing, binary/trinary) "
                "x parameter vectors from {0,1} U k/16 U random doubles; thorough adds ALL graphs on <=3 binary / <=2 trinary "
                "LNLs; non-trivial iff some parameter lies strictly inside (0,1) and the graph has an LNL arc or two tumour arcs")
    rng = ctx.rng
    cases = []
    n_random = 120 if ctx.tier == "quick" else 600
    for _ in range(n_random):
        cases.append(gen_case(rng, ctx.tier))
    if ctx.tier == "thorough":
        enum = all_small_graphs(2, 3) + all_small_graphs(3, 2)
        for g in enum:
            cases.append({"graph": g, "params": gen.gen_edge_params(rng, g)})
        ctx.exhaustive = True
        ctx.extra["exhaustive_space"] = f"{len(enum)} graphs: all DAGs on <=3 binary and <=2 trinary LNLs with 1-2 tumours"
    for c in cases:
        g = c["graph"]
        n_arcs = sum(len(cs) for k, n, cs in g["entries"] if k == "lnl")
        n_tarcs = sum(len(cs) for k, n, cs in g["entries"] if k == "tumor")
        nt = gen.is_nontrivial_params(c["params"]) and (n_arcs >= 1 or n_tarcs >= 2)
        ctx.count(c, nt, f"base{g['base']}-lnls{len(gen.lnls_of(g))}")
        ctx.bump("boundary-params", sum(1 for v in c["params"].values() if v in (0.0, 1.0)))
    flags, bad = failing(ctx, cases, "main")
    reported = 0
    for case, mm in bad[:3]:
        small = shrink(ctx, case, candidates, lambda cs: failing(ctx, cs, "shrink")[0])
        _, bad2 = failing(ctx, [small], "final")
        mm2 = bad2[0][1] if bad2 else mm
        ctx.violation(f"{mm2.get('observable')} differs from the per-LNL rule",
                      {"case": small, "mismatch": mm2, "call": "Unilateral(graph).set_params(**params); " + str(mm2.get("observable")),
                       "broken": "correspondence Transition.generate_transition / transition_prob vs /repo"},
                      {"class": "Unilateral", "call": str(mm2.get("observable"))})
        reported += 1
    if not bad:
        # relation-only statements on the implementation (cheap, all cases)
        for c in cases[:200]:
            mm = implementation_only_checks(c)
            if mm:
                ctx.violation(f"{mm['observable']} violated", {"case": c, "mismatch": mm}, {"class": "Unilateral", "call": mm["observable"]})
                break
    if not a_ok and not bad:
        pass  # part A already reported with no-failing-input-found


def replay(ctx: Ctx, path: str) -> int:
    data = json.loads(open(path).read())
    case = data["case"]
    _, bad = failing(ctx, [case], "replay")
    if bad:
        print("REPRODUCED", json.dumps(bad[0][1], default=str))
        return 1
    print("not reproduced")
    return 0
