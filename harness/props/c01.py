"""C01: unilateral HMM likelihood equals the model's definition.

Tie: likelihood(log / linear, per T-stage, all stages), diagnosis_matrix(t)  vs  the Coq model
(hmm_likelihood_factors / diagnosis_matrix), which C01's theorems identify with patient_lik_spec.
Logarithms never enter Coq: the model returns the exact per-patient likelihoods.
"""
from __future__ import annotations

import json
import math

import numpy as np

from .. import gen, impl
from ..core import Ctx, first_diff, fracs, run_standard, unres, s, opt
from ..coqterms import coq_uni
from ..numcases import IMPORTS_UNI, coq_patients, gen_uni_case, nontrivial_cohort, shrink_uni_case, tmap, uni_table

IMPORTS = IMPORTS_UNI


def gen_case(rng, tier):
    c = gen_uni_case(rng, tier, min_mods=1)
    stages = list(c["dists"]) + ["nostage"]
    c["query_t"] = rng.choice(stages)
    # T-stage keys need not be strings: a quarter of the cases uses the integers 0 / 1 (0 is falsy) with its own mapping
    c["int_stages"] = rng.random() < 0.25
    if c["graph"]["base"] == 3 and len(c["mods"]) >= 2 and rng.random() < 0.4:
        # a clinical and a pathological modality with equal specificity and sensitivity
        c["mods"][1][1], c["mods"][1][2] = c["mods"][0][1], c["mods"][0][2]
        c["mods"][1][3] = "clinical" if c["mods"][0][3] == "pathological" else "pathological"
    micro = [k for k in c["params"] if k.endswith("_micro")]
    if micro and rng.random() < 0.3:          # boundary: a micro modifier of exactly 0 on an arc that does spread
        k = rng.choice(micro)
        c["params"][k] = 0.0
        sp = k[:-len("micro")] + "spread"
        if c["params"].get(sp, 0.0) == 0.0:
            c["params"][sp] = 0.5
    return c


STAGE_INT = {"early": 0, "late": 1, "nostage": 7}


def impl_fn(case):
    if case.get("int_stages"):
        c2 = dict(case)
        c2["dists"] = {STAGE_INT[t]: d for t, d in case["dists"].items()}
        m = impl.build_uni(c2)
        m.load_patient_data(uni_table(case), mapping=lambda raw: STAGE_INT[tmap(raw)])
        case = {**case, "query_t": STAGE_INT[case["query_t"]]}
    else:
        impl.prime_twin_relisted(case)       # (R5-C01: a cross-instance cache keyed on a listing-insensitive graph hash)
        m = impl.build_uni(case)
        m.load_patient_data(uni_table(case))
    q0 = lambda mm: (mm.likelihood(), mm.diagnosis_matrix(case["query_t"]), mm.data_matrix(case["query_t"]))  # noqa: E731
    impl.run_primes(m, case, q0, [impl.prime_with_flipped_kinds, impl.prime_params, impl.prime_modality_order, impl.prime_renamed_modalities])
    out = {}
    def call(key, fn):
        try:
            out[key] = ("ok", fn())
        except Exception as e:  # noqa: BLE001
            out[key] = ("err", impl.err_enum(e))
    call("log", lambda: float(m.likelihood()))
    call("lin", lambda: float(m.likelihood(log=False)))
    call("log_t", lambda: float(m.likelihood(t_stage=case["query_t"])))
    call("lin_t", lambda: float(m.likelihood(t_stage=case["query_t"], log=False)))
    call("dm", lambda: m.diagnosis_matrix(case["query_t"]).tolist())
    call("dm_all", lambda: m.diagnosis_matrix().tolist())
    return out


def coq_expr(case):
    u = coq_uni(case)
    data = coq_patients(case)
    t = s(case["query_t"])
    def r(e, f):
        return f"match {e} with inr v => inr ({f} v) | inl e => inl e end"
    return (f"let u := {u} in let data := {data} in "
            f"({r('hmm_likelihood_factors u data None', 'qouts')}, {r(f'hmm_likelihood_factors u data (Some {t})', 'qouts')}, "
            f"{r(f'diagnosis_matrix u data (Some {t})', 'qoutm')}, {r('diagnosis_matrix u data None', 'qoutm')})")


def _lik_cmp(name, ob, factors_res, log):
    kind, payload = unres(factors_res)
    if ob[0] == "err":
        if kind == "err" and payload == ob[1]:
            return None
        return {"observable": name, "actual": f"raised {ob[1]}", "expected": payload if kind == "err" else "a number"}
    if kind == "err":
        return {"observable": name, "actual": ob[1], "expected": f"raises {payload}"}
    fs = fracs(payload)
    if log:
        if any(f == 0 for f in fs):
            exp = -math.inf
        else:
            exp = sum(math.log(f.numerator) - math.log(f.denominator) for f in fs)
        a = ob[1]
        ok = (a == exp) if math.isinf(exp) else (not math.isnan(a) and abs(a - exp) <= 1e-9 * max(1.0, abs(exp)))
        if not ok:
            return {"observable": name, "actual": a, "expected": exp, "factors": fs}
    else:
        prod = 1
        for f in fs:
            prod *= f
        if not Ctx.close(ob[1], prod):
            return {"observable": name, "actual": ob[1], "expected": prod, "factors": fs}
    return None


def compare(case, obs, val):
    f_all, f_t, dm_t, dm_all = val
    if obs[0] == "err":
        return {"observable": "load_patient_data/likelihood", "actual": f"raised {obs[1]}: {obs[2]}", "expected": "values"}
    o = obs[1]
    stmt = "log-likelihood = sum over scored patients of log sum_t P(t) sum_x P(x|t) prod findings (C01_patient_likelihoods)"
    for name, key, fr, lg in (("likelihood(log=True)", "log", f_all, True), ("likelihood(log=False)", "lin", f_all, False),
                              (f"likelihood(t_stage={case['query_t']!r})", "log_t", f_t, True),
                              (f"likelihood(t_stage={case['query_t']!r}, log=False)", "lin_t", f_t, False)):
        mm = _lik_cmp(name, o[key], fr, lg)
        if mm:
            mm["statement"] = stmt
            return mm
    for name, key, dmv in ((f"diagnosis_matrix({case['query_t']!r})", "dm", dm_t), ("diagnosis_matrix()", "dm_all", dm_all)):
        kind, payload = unres(dmv)
        ob = o[key]
        if ob[0] == "err" or kind == "err":
            if not (ob[0] == "err" and kind == "err"):
                return {"observable": name, "actual": ob, "expected": payload if kind == "err" else "matrix"}
            continue
        d = first_diff(ob[1], fracs(payload))
        if d and not (len(ob[1]) == 0 and len(payload) == 0):
            return {"observable": name, **d, "statement": "row = P(recorded findings | state) (C01_diagnosis_matrix_entry)"}
    # log=False must be the exponential of the log value
    if o["log"][0] == "ok" and o["lin"][0] == "ok":
        a, b = o["log"][1], o["lin"][1]
        if not (math.isinf(a) and b == 0.0) and abs(math.exp(a) - b) > 1e-9 * max(1.0, abs(b)):
            return {"observable": "likelihood(log=False) vs exp(likelihood())", "actual": b, "expected": math.exp(a)}
    return None


def run(ctx: Ctx, a_ok: bool):
    ctx.cone = ["Unilateral.hmm_likelihood_factors", "Unilateral.diagnosis_matrix", "Unilateral.patient_encoding",
                "Observation.generate_observation", "Transition.generate_transition", "Unilateral.state_dist_evo", "Dist.pmf"]
    ctx.rule = ("random graphs/params/modalities/distributions/max_time x cohorts of 0-5 rows with True/False/missing findings, "
                "raw T-stages 0-4, a table modality unknown to the model, a model modality absent from the table; observables: "
                "likelihood log/linear, for all stages and for one stage (incl. a stage without distribution), diagnosis_matrix; "
                "non-trivial iff >=1 recorded and >=1 missing finding and a parameter strictly inside (0,1)")
    n = 120 if ctx.tier == "quick" else 900
    cases = [gen_case(ctx.rng, ctx.tier) for _ in range(n)]
    for c in cases:
        ctx.count(c, nontrivial_cohort(c), f"base{c['graph']['base']}-pat{len(c['patients'])}-mods{len(c['mods'])}")
    run_standard(ctx, cases, impl_fn, coq_expr, compare, IMPORTS, shrink_uni_case,
                 sig_fn=lambda c, mm: {"class": "Unilateral", "call": str(mm.get("observable")).split("(")[0]},
                 call_fn=lambda c, mm: "build Unilateral from case; load_patient_data(table); " + str(mm.get("observable")),
                 broken="correspondence Unilateral.hmm_likelihood_factors / diagnosis_matrix vs /repo", shard=15)


def replay(ctx: Ctx, path: str) -> int:
    data = json.loads(open(path).read())
    from ..core import correspondence
    bad = correspondence(ctx, [data["case"]], impl_fn, coq_expr, compare, IMPORTS, tag="replay")
    if bad:
        print("REPRODUCED", json.dumps(bad[0][1], default=str))
        return 1
    print("not reproduced")
    return 0
