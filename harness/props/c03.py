"""C03: bilateral joint distribution and likelihood couple both sides through time.

Tie: Bilateral.state_dist (HMM/BN), obs_dist, patient_likelihoods(t), likelihood (HMM/BN, log/linear)
vs the Coq model (bi_state_dist, bi_obs_dist_of, bi_patient_likelihoods, bi_*_likelihood_factors).
Relations on the implementation alone: all contralateral findings unrecorded => ipsilateral unilateral likelihood;
a single possible diagnosis time => joint = outer product of the sides.
"""
from __future__ import annotations

import copy
import json
import math
import random

import numpy as np

from .. import gen, impl
from ..core import Ctx, first_diff, fracs, run_standard, unres, s, boolean, lst
from ..coqterms import coq_bilateral, coq_bpatient
from ..numcases import IMPORTS_BI, shrink_uni_case, tmap
from .c01 import _lik_cmp

IMPORTS = IMPORTS_BI


def gen_case(rng, tier):
    base = rng.choice([2, 2, 3])
    g = gen.gen_graph(rng, max_lnls=2, base=base)
    lnls = gen.lnls_of(g)
    mt = rng.randint(0, 3)
    c = {"graph": g, "mods": gen.gen_modalities(rng, 1, 2), "max_time": mt, "dists": gen.gen_dists(rng, mt),
         "sym": {"tumor_spread": rng.random() < 0.5, "lnl_spread": rng.random() < 0.5},
         "seed_params": rng.randrange(1 << 30)}
    mods = [m[0] for m in c["mods"]]
    c["table_mods"] = mods
    # asymmetric ipsi/contra findings so that a transposed joint or mis-paired rows cannot cancel
    c["patients"] = [gen.gen_patient(rng, mods, lnls, ("ipsi", "contra")) for _ in range(rng.randint(0, 5))]
    if c["patients"] and rng.random() < 0.4:
        p = c["patients"][0]
        for m in p["find"]:
            p["find"][m]["contra"] = {l: None for l in lnls}
    c["t"] = list(c["dists"])[0]
    c["bn"] = base == 2 and rng.random() < 0.3
    c["leaf_override"] = rng.choice([None, None, "contra", "ipsi"])
    return c


def build(case):
    m = impl.build_bilateral(case)
    rng = random.Random(case["seed_params"])
    names = [n for n in m.get_params() if n.split("_")[0] not in case["dists"]]
    m.set_params(**{n: gen.gen_value(rng) for n in names})
    # the sides may also be parametrised directly (the class docstring allows it): the joint must use each side's own values
    if case.get("leaf_override"):
        side = m.contra if case["leaf_override"] == "contra" else m.ipsi
        leaf_names = list(side.get_spread_params(as_dict=True))
        side.set_params(**{n: gen.gen_value(rng) for n in leaf_names})
    return m


def table(case):
    return impl.table_from_patients(case["patients"], case["table_mods"], gen.lnls_of(case["graph"]), ("ipsi", "contra"))


_models = {}


def impl_fn(case):
    m = build(case)
    _models[json.dumps(case, sort_keys=True)] = m
    m.load_patient_data(table(case))
    out = {}
    mode = "BN" if case["bn"] else "HMM"
    def call(key, fn):
        try:
            v = fn()
            out[key] = ("ok", np.asarray(v, dtype=float).tolist())
        except Exception as e:  # noqa: BLE001
            out[key] = ("err", impl.err_enum(e))
    call("sd", lambda: m.state_dist(case["t"], mode=mode))
    call("od", lambda: m.obs_dist(t_stage=case["t"], mode=mode))
    call("pl", lambda: m.patient_likelihoods(case["t"], mode=mode))
    call("log", lambda: m.likelihood(mode=mode))
    call("lin", lambda: m.likelihood(log=False, mode=mode))
    if case["graph"]["base"] == 2:       # the network prior of every binary case, whatever mode the other queries use
        call("sd_bn", lambda: m.state_dist(case["t"], mode="BN"))
    # relation: all contralateral findings unrecorded -> ipsilateral unilateral likelihood
    def reduced():
        pats = copy.deepcopy(case["patients"])
        for p in pats:
            for mm in p["find"]:
                p["find"][mm]["contra"] = {l: None for l in gen.lnls_of(case["graph"])}
        df = impl.table_from_patients(pats, case["table_mods"], gen.lnls_of(case["graph"]), ("ipsi", "contra"))
        m2 = build(case)
        m2.load_patient_data(df)
        return [float(m2.likelihood(log=False)), float(m2.ipsi.likelihood(log=False))]
    call("reduce", reduced)
    return out


def coq_expr(case):
    m = _models.get(json.dumps(case, sort_keys=True)) or build(case)
    b = coq_bilateral(case, m, case["sym"]["tumor_spread"], case["sym"]["lnl_spread"])
    data = lst(coq_bpatient(p, tmap) for p in case["patients"])
    t = s(case["t"])
    hmm = boolean(not case["bn"])
    fac = "bi_bn_likelihood_factors b data None" if case["bn"] else "bi_hmm_likelihood_factors b data None"
    return (f"let b := {b} in let data := {data} in "
            f"(match bi_state_dist b {t} {hmm} with inr v => inr (qoutm v) | inl e => inl e end, "
            f"match bi_state_dist b {t} {hmm} with inr v => inr (qoutm (bi_obs_dist_of b v)) | inl e => inl e end, "
            f"match bi_patient_likelihoods b data {t} {hmm} with inr v => inr (qouts v) | inl e => inl e end, "
            f"match {fac} with inr v => inr (qouts v) | inl e => inl e end, "
            f"match bi_state_dist b {t} false with inr v => inr (qoutm v) | inl e => inl e end)")


def compare(case, obs, val):
    sd, od, pl, fac, sd_bn = val
    if obs[0] == "err":
        return {"observable": "build/load", "actual": f"raised {obs[1]}: {obs[2]}", "expected": "values"}
    o = obs[1]
    for name, key, mv, stmt in (("state_dist()", "sd", sd, "joint = sum_t P(t) P_ipsi(xi|t) P_contra(xc|t) (C03_joint_spec)"),
                                ("obs_dist()", "od", od, "C03_obs_dist_spec"),
                                ("patient_likelihoods()", "pl", pl, "each patient: joint weighted with that SAME patient's ipsi and contra findings (C03_patient_likelihoods)")):
        kind, payload = unres(mv)
        ob = o[key]
        if kind == "err" or ob[0] == "err":
            if not (kind == "err" and ob[0] == "err" and ob[1] == payload):
                return {"observable": name, "actual": ob if ob[0] == "err" else "values", "expected": payload if kind == "err" else "values"}
            continue
        exp = fracs(payload)
        a = np.asarray(ob[1], dtype=float)
        if a.size == 0 and len(exp) == 0:
            continue
        d = first_diff(a, exp)
        if d:
            return {"observable": name, **d, "statement": stmt}
    if "sd_bn" in o:
        kind, payload = unres(sd_bn)
        ob = o["sd_bn"]
        if kind == "err" or ob[0] == "err":
            if not (kind == "err" and ob[0] == "err" and ob[1] == payload):
                return {"observable": "state_dist(mode='BN')", "actual": ob if ob[0] == "err" else "values", "expected": payload if kind == "err" else "values"}
        else:
            d = first_diff(np.asarray(ob[1], dtype=float), fracs(payload))
            if d:
                return {"observable": "state_dist(mode='BN')", **d, "statement": "BN joint = outer product of both sides' network distributions (C03_bn_outer_product)"}
    for name, key, lg in (("likelihood(log=True)", "log", True), ("likelihood(log=False)", "lin", False)):
        mm = _lik_cmp(name, (o[key][0], float(o[key][1]) if o[key][0] == "ok" else o[key][1]), fac, lg)
        if mm:
            return mm
    if o["reduce"][0] == "ok" and not case["bn"]:
        a, b = o["reduce"][1]
        if abs(a - b) > 1e-9 * max(1.0, abs(b)):
            return {"observable": "contra unknown => ipsilateral unilateral likelihood", "actual": a, "expected": b,
                    "statement": "C03_contra_unknown_reduces"}
    return None


def candidates(case):
    out = []
    for c in shrink_uni_case(case):
        c["table_mods"] = [m[0] for m in c["mods"]]
        out.append(c)
    return out


def run(ctx: Ctx, a_ok: bool):
    ctx.cone = ["Bilateral.bi_state_dist", "Bilateral.bi_obs_dist_of", "Bilateral.bi_llhs_of_joint (fast_trace)",
                "Bilateral.bi_*_likelihood_factors", "Unilateral.diagnosis_matrix", "Unilateral.state_dist_evo"]
    ctx.rule = ("random graphs (<=2 LNLs) x 4 symmetry settings x parameters (through the composite set_params, leaf values "
                "read back) x modalities x distributions x bilateral cohorts (0-5 rows, independent missingness per side, "
                "asymmetric ipsi/contra findings); HMM and (binary) BN; non-trivial iff >=1 patient with a recorded finding on "
                "both sides that differ between the sides")
    n = 90 if ctx.tier == "quick" else 700
    cases = [gen_case(ctx.rng, ctx.tier) for _ in range(n)]
    for c in cases:
        nt = False
        for p in c["patients"]:
            for m, sides in p["find"].items():
                vi = [v for v in sides.get("ipsi", {}).values() if v is not None]
                vc = [v for v in sides.get("contra", {}).values() if v is not None]
                if vi and vc and sides["ipsi"] != sides["contra"]:
                    nt = True
        ctx.count(c, nt, f"base{c['graph']['base']}-{'BN' if c['bn'] else 'HMM'}-symT{int(c['sym']['tumor_spread'])}L{int(c['sym']['lnl_spread'])}")
    run_standard(ctx, cases, impl_fn, coq_expr, compare, IMPORTS, candidates,
                 sig_fn=lambda c, mm: {"class": "Bilateral", "call": str(mm.get("observable")).split("(")[0]},
                 call_fn=lambda c, mm: "build Bilateral from case; load_patient_data(table); " + str(mm.get("observable")),
                 broken="correspondence Bilateral numerics vs /repo", shard=10)


def replay(ctx: Ctx, path: str) -> int:
    data = json.loads(open(path).read())
    from ..core import correspondence
    bad = correspondence(ctx, [data["case"]], impl_fn, coq_expr, compare, IMPORTS, tag="replay")
    if bad:
        print("REPRODUCED", json.dumps(bad[0][1], default=str))
        return 1
    print("not reproduced")
    return 0
