"""C06: observation model (confusion matrices, ordering, what each modality sees).

Tie: observation_matrix(), obs_list, Modality.confusion_matrix, diagnosis_prob(d) in every
current state  vs  Observation.generate_observation / obs_list / confusion_matrix / diagnosis_prob.
"""
from __future__ import annotations

import copy
import json

import numpy as np

from .. import gen, impl
from ..core import Ctx, HarnessError, first_diff, fracs, run_standard
from ..coqterms import coq_diagnosis, coq_graph, coq_mods
from ..core import lst, nat

IMPORTS = "Base States Linalg Graph Transition Observation"


def gen_case(rng, tier):
    base = rng.choice([2, 2, 3])
    maxl = 3 if (base == 2 or tier == "thorough") else 2
    g = gen.gen_graph(rng, max_lnls=maxl, base=base)
    n = len(gen.lnls_of(g))
    maxm = 3 if n <= 2 else 2
    mods = gen.gen_modalities(rng, 0, maxm)
    lnls = gen.lnls_of(g)
    diags = []
    for _ in range(3):
        d = {}
        for m in mods:
            if rng.random() < 0.8:
                d[m[0]] = {l: rng.choice([True, False, None]) for l in lnls if rng.random() < 0.85}
        diags.append(d)
    # host: the unilateral model under test is a leaf of a composite model whose modalities are set through the composite
    host = rng.choice([None, None, None, "bilateral", "bilateral", "midline"])
    return {"graph": g, "mods": mods, "diags": diags, "host": host}


def _leaves(case, comp):
    if case.get("host") == "bilateral":
        return [comp.ipsi, comp.contra]
    return [comp.ext.ipsi, comp.ext.contra, comp.noext.ipsi, comp.noext.contra, comp.unknown.ipsi, comp.unknown.contra]


def impl_fn(case):
    if case.get("host"):
        c0 = {k: v for k, v in case.items() if k != "mods"}
        c0["dists"] = {}
        comp = impl.build_bilateral(c0) if case["host"] == "bilateral" else impl.build_midline(c0)
        for name, spec, sens, kind in case["mods"]:
            comp.set_modality(name, spec, sens, kind)                  # through the composite
        qc = lambda mm: [leaf.observation_matrix() for leaf in _leaves(case, mm)]  # noqa: E731
        impl.run_primes(comp, case, qc, [impl.prime_with_flipped_kinds, impl.prime_modality_order])
        leaves = _leaves(case, comp)
        m = leaves[-1]
        q0 = lambda mm: (mm.observation_matrix(), [mm.get_modality(x[0]).confusion_matrix for x in case["mods"]])  # noqa: E731
        impl.prime_inplace_modality_edit(m, case, q0)
        extra = [leaf.observation_matrix().tolist() for leaf in leaves[:-1]]
    else:
        m = impl.build_uni(case)
        q0 = lambda mm: (mm.observation_matrix(), [mm.get_modality(x[0]).confusion_matrix for x in case["mods"]])  # noqa: E731
        impl.run_primes(m, case, q0, [impl.prime_with_flipped_kinds, impl.prime_modality_order])
        impl.prime_inplace_modality_edit(m, case, q0)     # last: set_modality would replace the edited objects
        extra = []
    out = {"O": m.observation_matrix().tolist(), "obs_list": np.asarray(m.obs_list).reshape(len(m.obs_list), -1).tolist(),
           "conf": [m.get_modality(x[0]).confusion_matrix.tolist() for x in case["mods"]], "leafO": extra}
    sl = m.graph.state_list
    dp = []
    for d in case["diags"]:
        row = []
        for x in sl:
            m.graph.set_state(*x)
            row.append(float(m.diagnosis_prob(d)))
        dp.append(row)
    out["dp"] = dp
    return out


def coq_expr(case):
    g = coq_graph(case["graph"])
    mods = coq_mods(case["mods"])
    diags = lst(coq_diagnosis(d) for d in case["diags"])
    return (f"let g := {g} in let mods := {mods} in let b := g_base g in let n := nlnls g in "
            f"(qoutm (generate_observation (map snd mods) n b), obs_list (length mods) n, "
            f"map (fun m => qoutm (confusion_matrix b (snd m))) mods, "
            f"map (fun d => qouts (map (fun x => diagnosis_prob b mods (lnls g) x d) (state_list g))) {diags}, "
            f"true)")


def compare(case, obs, val):
    Om, olm, confm, dpm, selfcheck = val
    if selfcheck is not True:
        raise HarnessError(f"model self-check failed (Impl <> Spec) on {case}")
    if obs[0] == "err":
        return {"observable": "observation_matrix/diagnosis_prob", "actual": f"raised {obs[1]}: {obs[2]}", "expected": "values"}
    o = obs[1]
    nm = len(case["mods"])
    ol = o["obs_list"] if nm > 0 else [[]]
    if ol != olm and not (nm == 0 and len(o["obs_list"]) == 1):
        return {"observable": "obs_list", "actual": o["obs_list"], "expected": olm}
    d = first_diff(o["O"], fracs(Om))
    if d:
        return {"observable": "observation_matrix()", **d,
                "statement": "entry = prod over modalities and LNLs of confusion entries (C06_observation_entries)"}
    for j, lo in enumerate(o.get("leafO", [])):
        d = first_diff(lo, fracs(Om))
        if d:
            return {"observable": f"observation_matrix() of leaf #{j} of the {case.get('host')} host", **d}
    for k, (ca, cm) in enumerate(zip(o["conf"], confm)):
        d = first_diff(ca, fracs(cm))
        if d:
            return {"observable": "Modality.confusion_matrix", "modality": case["mods"][k], **d}
    for k, (da, dm) in enumerate(zip(o["dp"], dpm)):
        d = first_diff(da, fracs(dm))
        if d:
            return {"observable": "diagnosis_prob()", "diagnosis": case["diags"][k], **d,
                    "statement": "diagnosis_prob = marginal of the observation matrix row (C06_diagnosis_prob_is_marginal)"}
    return None


def candidates(case):
    out = []
    if case.get("host"):
        out.append({**copy.deepcopy(case), "host": None})
    for k in range(len(case["mods"])):
        c = copy.deepcopy(case)
        name = c["mods"][k][0]
        del c["mods"][k]
        for d in c["diags"]:
            d.pop(name, None)
        out.append(c)
    g = case["graph"]
    names = gen.lnls_of(g)
    if len(names) > 1:
        for l in names:
            g2 = {"base": g["base"], "entries": [[k, n, [c for c in cs if c != l]] for k, n, cs in g["entries"] if n != l]}
            c = copy.deepcopy(case)
            c["graph"] = g2
            for d in c["diags"]:
                for p in d.values():
                    p.pop(l, None)
            out.append(c)
    for k in range(len(case["diags"])):
        if len(case["diags"]) > 1:
            c = copy.deepcopy(case)
            del c["diags"][k]
            out.append(c)
    for k, m in enumerate(case["mods"]):
        for j in (1, 2):
            for nv in (1.0, 0.75):
                if m[j] != nv and m[j] not in (1.0, 0.75):
                    c = copy.deepcopy(case)
                    c["mods"][k][j] = nv
                    out.append(c)
    return out


def run(ctx: Ctx, a_ok: bool):
    from ..internals import observation_diagnostics
    try:
        observation_diagnostics(ctx)
    except Exception as e:  # noqa: BLE001  (diagnostics never fail a check)
        ctx.extra.setdefault('internal_diagnostics', {})['error'] = repr(e)[:200]
    ctx.cone = ["Observation.confusion_matrix", "Observation.generate_observation", "Observation.obs_list",
                "Observation.diagnosis_prob"]
    ctx.rule = ("random graphs (1-3 LNLs, binary/trinary) x 0-3 modalities (clinical/pathological; spec/sens from "
                "{0,0.5,1} U k/16 U doubles, spec != sens mostly) x 3 partial diagnoses x host (the model itself, or the leaves of a Bilateral / Midline whose modalities are set through the composite); non-trivial iff >=1 modality with "
                "spec,sens strictly inside (0,1) and spec != sens")
    n = 100 if ctx.tier == "quick" else 700
    cases = [gen_case(ctx.rng, ctx.tier) for _ in range(n)]
    for c in cases:
        nt = any(0 < m[1] < 1 and 0 < m[2] < 1 and m[1] != m[2] for m in c["mods"])
        ctx.count(c, nt, f"base{c['graph']['base']}-lnls{len(gen.lnls_of(c['graph']))}-mods{len(c['mods'])}")
    run_standard(ctx, cases, impl_fn, coq_expr, compare, IMPORTS, candidates,
                 sig_fn=lambda c, mm: {"class": "Unilateral", "call": str(mm.get("observable"))},
                 call_fn=lambda c, mm: (f"{c.get('host')} host (modalities set through the composite), leaf model; " if c.get("host")
                                       else "Unilateral(graph); ") + "set_modality(...) for mods; " + str(mm.get("observable")),
                 broken="correspondence Observation.generate_observation / diagnosis_prob vs /repo", shard=8)


def replay(ctx: Ctx, path: str) -> int:
    data = json.loads(open(path).read())
    from ..core import correspondence
    bad = correspondence(ctx, [data["case"]], impl_fn, coq_expr, compare, IMPORTS, tag="replay")
    if bad:
        print("REPRODUCED", json.dumps(bad[0][1], default=str))
        return 1
    print("not reproduced")
    return 0
