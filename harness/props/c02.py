"""C02: posterior state distribution and risk obey Bayes' rule in every model class.

Tie: posterior_state_dist / marginalize / risk of Unilateral, Bilateral, Midline (midext None/True/False, central)
vs the Coq model (posterior_of / marginalize_of / risk, bi_*, ml_*), identified with Bayes' rule by the theorems.
Relations evaluated on the implementation alone: posterior sums to one, risk in [0,1], partition of patterns adds
up to one, empty pattern has risk one, given_state_dist = letting the model compute the prior.
"""
from __future__ import annotations

import copy
import json
import math

import numpy as np

from .. import gen, impl
from ..core import Ctx, first_diff, fracs, run_standard, unres, s, boolean, opt
from ..coqterms import coq_bilateral, coq_diagnosis, coq_midline, coq_pattern, coq_uni
from ..numcases import IMPORTS_ML, shrink_uni_case

IMPORTS = IMPORTS_ML + " HpvQueries"


def gen_pattern(rng, lnls, base, p_present=0.7):
    vals = [True, False, None, "healthy", "involved"]
    if base == 3:
        vals += ["micro", "macro", "notmacro", "micro", "macro"]
    return {l: rng.choice(vals) for l in lnls if rng.random() < p_present}


def gen_diag(rng, mods, lnls):
    d = {}
    mods, lnls = list(mods), list(lnls)
    if rng.random() < 0.5:
        # the diagnosis lists modalities / LNLs in another order than the model (a dict: the order carries no meaning;
        # R5-C02: observation matrix built in the diagnosis' order, encoding in the model's order)
        mods.reverse()
        rng.shuffle(lnls)
    for m in mods:
        if rng.random() < 0.85:
            d[m] = {l: rng.choice([True, False, None]) for l in lnls if rng.random() < 0.85}
    return d


def gen_case(rng, tier):
    cls = rng.choice(["uni", "uni", "bi", "ml"])
    base = rng.choice([2, 2, 3])
    maxl = 2 if (cls != "uni" or base == 3) else 3
    g = gen.gen_graph(rng, max_lnls=maxl, base=base)
    lnls = gen.lnls_of(g)
    mt = rng.randint(0, 3)
    c = {"cls": cls, "graph": g, "mods": gen.gen_modalities(rng, 1, 2 if len(lnls) < 3 else 1), "max_time": mt,
         "dists": gen.gen_dists(rng, mt)}
    if base == 3 and len(c["mods"]) >= 2 and rng.random() < 0.35:
        # a clinical and a pathological modality with the same specificity and sensitivity (they still differ for micro)
        c["mods"][1][1], c["mods"][1][2] = c["mods"][0][1], c["mods"][0][2]
        c["mods"][1][3] = "clinical" if c["mods"][0][3] == "pathological" else "pathological"
    mods = [m[0] for m in c["mods"]]
    c["t"] = rng.choice(list(c["dists"]))
    c["mode"] = "HMM"
    if cls == "uni":
        c["params"] = gen.gen_edge_params(rng, g)
        c["diag"] = gen_diag(rng, mods, lnls)
        c["inv"] = gen_pattern(rng, lnls, base)
        if base == 2 and rng.random() < 0.25:
            c["mode"] = "BN"
        if rng.random() < 0.2:      # the same queries through HPVUnilateral (delegation to the hpv / nohpv sub-model)
            c["hpv"] = {"status": rng.random() < 0.5, "other_params": gen.gen_edge_params(rng, g)}
    else:
        c["diag"] = {"ipsi": gen_diag(rng, mods, lnls), "contra": gen_diag(rng, mods, lnls)}
        if rng.random() < 0.15:
            del c["diag"][rng.choice(["ipsi", "contra"])]
        c["inv"] = {"ipsi": gen_pattern(rng, lnls, base), "contra": gen_pattern(rng, lnls, base)}
        c["seed_params"] = rng.randrange(1 << 30)
        if cls == "bi":
            c["sym"] = {"tumor_spread": rng.random() < 0.5, "lnl_spread": rng.random() < 0.5}
            if base == 2 and rng.random() < 0.45:
                c["mode"] = "BN"
                if rng.random() < 0.5:      # the network prior with shared tumour spread but side-specific LNL spread
                    c["sym"] = {"tumor_spread": True, "lnl_spread": False}
            c["leaf_override"] = rng.choice([None, None, "contra", "ipsi"])
        else:
            kind = rng.choice(["evo", "central", "none"])
            c["flags"] = {"use_mixing": rng.random() < 0.5, "lnl_sym": rng.random() < 0.5,
                          "marginalize_unknown": rng.random() < 0.5, "use_midext_evo": kind == "evo",
                          "use_central": kind == "central"}
            c["midext"] = rng.choice([None, True, False])
            c["central"] = kind == "central" and rng.random() < 0.4
    return c


def build(case):
    import random
    if case["cls"] == "uni" and case.get("hpv"):
        from lymph import models
        ctor = models.HPVUnilateral.trinary if case["graph"]["base"] == 3 else models.HPVUnilateral.binary
        m = ctor(gen.graph_dict(case["graph"]), uni_kwargs={"max_time": case["max_time"]})
        sel, oth = (m.hpv, m.nohpv) if case["hpv"]["status"] else (m.nohpv, m.hpv)
        oth.set_params(**case["hpv"]["other_params"])
        sel.set_params(**case["params"])
        impl._common(m, case)
        return m
    if case["cls"] == "uni":
        return impl.build_uni(case)
    rng = random.Random(case["seed_params"])
    m = impl.build_bilateral(case) if case["cls"] == "bi" else impl.build_midline(case)
    names = [n for n in m.get_params() if n.split("_")[0] not in case["dists"]]
    m.set_params(**{n: gen.gen_value(rng) for n in names})
    if case["cls"] == "bi" and case.get("leaf_override"):
        side = m.contra if case["leaf_override"] == "contra" else m.ipsi
        side.set_params(**{n: gen.gen_value(rng) for n in side.get_spread_params(as_dict=True)})
    if case["cls"] == "ml" and m.midext_prob in (0.0,) and case.get("midext") is True:
        m.set_params(midext_prob=0.25)
    return m


def impl_fn(case):
    m = build(case)
    kw = {"t_stage": case["t"], "mode": case["mode"]}
    if case["cls"] == "ml":
        kw.update({"midext": case["midext"], "central": case["central"]})
    hk = {"hpv_status": case["hpv"]["status"]} if case.get("hpv") else {}
    kw.update(hk)
    impl.prime_with_flipped_kinds(m, case, lambda mm: mm.risk(involvement=case["inv"], given_diagnosis=case["diag"], **kw))
    out = {}
    def call(key, fn):
        try:
            v = fn()
            out[key] = ("ok", np.asarray(v, dtype=float).tolist())
        except Exception as e:  # noqa: BLE001
            out[key] = ("err", impl.err_enum(e))
    call("risk", lambda: m.risk(involvement=case["inv"], given_diagnosis=case["diag"], **kw))
    call("post", lambda: m.posterior_state_dist(given_diagnosis=case["diag"], **kw))
    mkw = {k: v for k, v in kw.items()}
    call("marg", lambda: m.marginalize(involvement=case["inv"], **mkw))
    # relations on the implementation alone
    skw = {"t_stage": case["t"], "mode": case["mode"]}
    if case["cls"] == "ml":
        skw["central"] = case["central"]
    skw.update(hk)
    def risk_given_prior_twice():
        prior = np.array(m.state_dist(**skw), dtype=float)
        keep = prior.copy()
        extra = {"midext": case["midext"]} if case["cls"] == "ml" else dict(hk)
        r1 = float(m.risk(involvement=case["inv"], given_diagnosis=case["diag"], given_state_dist=prior, **extra))
        r2 = float(m.risk(involvement=case["inv"], given_diagnosis=case["diag"], given_state_dist=prior, **extra))
        same = bool(np.array_equal(prior, keep, equal_nan=True))
        return [r1, r2, 1.0 if same else 0.0]
    call("risk_given_prior", risk_given_prior_twice)
    empty = {} if case["cls"] == "uni" else {"ipsi": {}, "contra": {}}
    call("risk_empty", lambda: m.risk(involvement=empty, given_diagnosis=case["diag"], **kw))
    lnl0 = gen.lnls_of(case["graph"])[0]
    parts = [False, True] if case["graph"]["base"] == 2 else ["healthy", "micro", "macro"]
    def part_risks():
        rs = []
        for v in parts:
            inv = {lnl0: v} if case["cls"] == "uni" else {"ipsi": {lnl0: v}, "contra": {}}
            rs.append(float(m.risk(involvement=inv, given_diagnosis=case["diag"], **kw)))
        return rs
    call("risk_partition", part_risks)
    out["leaf"] = m
    return out


def coq_expr_of(case, m):
    t = s(case["t"])
    hmm = boolean(case["mode"] == "HMM")
    def ro(e):   # res (option Qc)
        return f"match {e} with inr (Some v) => inr (Some (qout v)) | inr None => inr None | inl e => inl e end"
    if case["cls"] == "uni" and case.get("hpv"):
        sel, oth = coq_uni(case), coq_uni({**case, "params": case["hpv"]["other_params"]})
        st = case["hpv"]["status"]
        h = f"{{| h_hpv := {sel if st else oth}; h_nohpv := {oth if st else sel} |}}"
        d = coq_diagnosis(case["diag"])
        inv = coq_pattern(case["inv"])
        b = f"(Some {boolean(st)})"
        return (f"let h := {h} in ({ro(f'hpv_risk h {b} {inv} (Some {d}) {t} {hmm}')}, "
                f"match hpv_posterior h {b} (Some {d}) {t} {hmm} with "
                f"inr (Some v) => inr (Some [qouts v]) | inr None => inr None | inl e => inl e end, "
                f"match hpv_marginalize h {b} {inv} {t} {hmm} with inr v => inr (qout v) | inl e => inl e end)")
    if case["cls"] == "uni":
        u = coq_uni(case)
        d = coq_diagnosis(case["diag"])
        inv = coq_pattern(case["inv"])
        return (f"let u := {u} in ({ro(f'risk u {inv} (Some {d}) {t} {hmm}')}, "
                f"match state_dist u {t} {hmm} with inl e => inl e | inr pr => match posterior_of u pr (Some {d}) with "
                f"inr (Some v) => inr (Some [qouts v]) | inr None => inr None | inl e => inl e end end, "
                f"match state_dist u {t} {hmm} with inl e => inl e | inr pr => match marginalize_of u {inv} pr with "
                f"inr v => inr (qout v) | inl e => inl e end end)")
    di = coq_diagnosis(case["diag"].get("ipsi", {}))
    dc = coq_diagnosis(case["diag"].get("contra", {}))
    ii = coq_pattern(case["inv"].get("ipsi", {}))
    ic = coq_pattern(case["inv"].get("contra", {}))
    if case["cls"] == "bi":
        b = coq_bilateral(case, m, case["sym"]["tumor_spread"], case["sym"]["lnl_spread"])
        return (f"let b := {b} in ({ro(f'bi_risk b {ii} {ic} {di} {dc} {t} {hmm}')}, "
                f"match bi_state_dist b {t} {hmm} with inl e => inl e | inr pr => match bi_posterior_of b pr {di} {dc} with "
                f"inr (Some v) => inr (Some (qoutm v)) | inr None => inr None | inl e => inl e end end, "
                f"match bi_state_dist b {t} {hmm} with inl e => inl e | inr pr => match bi_marginalize_of b {ii} {ic} pr with "
                f"inr v => inr (qout v) | inl e => inl e end end)")
    ml = coq_midline(case, m)
    me = opt(case["midext"], boolean)
    if case["central"]:
        prior = f"match ml_state_dist_central ml {t} true with inl e => inl e | inr pr => inr (Some pr) end"
        mprior = prior
        risk = f"ml_risk_central ml {ii} {ic} {di} {dc} {t}"
    else:
        prior = f"match ml_state_dist ml {t} with inl e => inl e | inr sd => inr (ml_prior_slice sd {me} true) end"
        mprior = f"match ml_state_dist ml {t} with inl e => inl e | inr sd => inr (ml_prior_slice sd {me} false) end"
        risk = f"ml_risk ml {ii} {ic} {di} {dc} {t} {me}"
    return (f"let ml := {ml} in ({ro(risk)}, "
            f"match {prior} with inl e => inl e | inr None => inr None | inr (Some pr) => match bi_posterior_of (ml_ext ml) pr {di} {dc} with "
            f"inr (Some v) => inr (Some (qoutm v)) | inr None => inr None | inl e => inl e end end, "
            f"match {mprior} with inl e => inl e | inr None => inr None | inr (Some pr) => match bi_marginalize_of (ml_ext ml) {ii} {ic} pr with "
            f"inr v => inr (Some (qout v)) | inl e => inl e end end)")


_models = {}


def impl_wrapped(case):
    out = impl_fn(case)
    _models[json.dumps(case, sort_keys=True)] = out.pop("leaf")
    return out


def coq_expr(case):
    key = json.dumps(case, sort_keys=True)
    m = _models.get(key)
    if m is None:
        m = build(case)
    return coq_expr_of(case, m)


def _unopt(v):
    """res (option X) -> ('ok', X) | ('nan',) | ('err', tag)"""
    kind, payload = unres(v)
    if kind == "err":
        return ("err", payload)
    if payload is None:
        return ("nan",)
    if isinstance(payload, tuple) and payload and payload[0] == "Some":
        return ("ok", payload[1])
    return ("ok", payload)


def _cmp(name, ob, mv, scalar):
    if mv[0] == "err":
        if ob[0] == "err" and ob[1] == mv[1]:
            return None
        return {"observable": name, "actual": ob, "expected": f"raises {mv[1]}"}
    if ob[0] == "err":
        return {"observable": name, "actual": f"raised {ob[1]}", "expected": "a value"}
    a = np.asarray(ob[1], dtype=float)
    if mv[0] == "nan":   # zero evidence: only required to be undefined
        return None if np.isnan(a).all() or np.isnan(a).any() else {"observable": name, "actual": ob[1], "expected": "undefined (0/0)"}
    exp = fracs(mv[1])
    if scalar:
        return None if Ctx.close(float(a), exp) else {"observable": name, "actual": float(a), "expected": exp}
    if a.ndim == 1:
        a = a.reshape(1, -1)
    d = first_diff(a, exp)
    return {"observable": name, **d} if d else None


def compare(case, obs, val):
    r, post, marg = val
    if obs[0] == "err":
        return {"observable": "build", "actual": f"raised {obs[1]}: {obs[2]}", "expected": "values"}
    o = obs[1]
    stmt = "risk = sum_{x matching} P(x)P(d|x) / sum_x P(x)P(d|x) (C02_risk_bayes / C02_bi_risk_bayes)"
    mm = _cmp("risk()", o["risk"], _unopt(r), True)
    if mm:
        mm["statement"] = stmt
        return mm
    mm = _cmp("posterior_state_dist()", o["post"], _unopt(post), False)
    if mm:
        return mm
    mv = _unopt(marg)
    mm = _cmp("marginalize()", o["marg"], mv, True)
    if mm:
        return mm
    # relations on the implementation alone (only where the posterior is defined)
    if o["risk"][0] == "ok" and not np.isnan(np.asarray(o["risk"][1], dtype=float)).any():
        rv = float(o["risk"][1])
        if not (-1e-9 <= rv <= 1 + 1e-9):
            return {"observable": "risk in [0,1]", "actual": rv, "expected": "[0,1]"}
        if o["post"][0] == "ok":
            sm = float(np.sum(o["post"][1]))
            if abs(sm - 1) > 1e-9:
                return {"observable": "posterior sums to one", "actual": sm, "expected": 1}
        if o["risk_given_prior"][0] == "ok":
            r1, r2, same = o["risk_given_prior"][1]
            if abs(r1 - rv) > 1e-9 or abs(r2 - rv) > 1e-9:
                return {"observable": "risk(given_state_dist=prior) == risk() (same prior array passed twice)",
                        "actual": [r1, r2], "expected": rv}
            if same != 1.0:
                return {"observable": "risk() must not modify the caller's given_state_dist", "actual": "modified", "expected": "unchanged"}
        if o["risk_empty"][0] == "ok" and abs(float(o["risk_empty"][1]) - 1) > 1e-9:
            return {"observable": "risk(empty pattern) == 1", "actual": o["risk_empty"][1], "expected": 1}
        if o["risk_partition"][0] == "ok" and abs(sum(o["risk_partition"][1]) - 1) > 1e-9:
            return {"observable": "risks of a partition add up to one", "actual": o["risk_partition"][1], "expected": 1}
    return None


def candidates(case):
    out = []
    for c in shrink_uni_case({k: v for k, v in case.items()}):
        # keep diagnosis / involvement consistent with the remaining LNLs and modalities
        lnls = set(gen.lnls_of(c["graph"]))
        mods = {m[0] for m in c["mods"]}
        def fix_d(d):
            return {m: {l: v for l, v in p.items() if l in lnls} for m, p in d.items() if m in mods}
        def fix_p(p):
            return {l: v for l, v in p.items() if l in lnls}
        if c["cls"] == "uni":
            c["diag"] = fix_d(c["diag"])
            c["inv"] = fix_p(c["inv"])
        else:
            c["diag"] = {sd: fix_d(d) for sd, d in c["diag"].items()}
            c["inv"] = {sd: fix_p(p) for sd, p in c["inv"].items()}
        out.append(c)
    return out


def run(ctx: Ctx, a_ok: bool):
    ctx.cone = ["Unilateral.risk/posterior_of/marginalize_of", "Bilateral.bi_risk/bi_posterior_of/bi_marginalize_of",
                "Midline.ml_risk/ml_prior_slice/ml_state_dist", "Observation.compute_encoding", "priors (C07/C03/C04 models)"]
    ctx.rule = ("(class, configuration, T-stage, diagnosis, involvement pattern) tuples: Unilateral (HMM/BN), Bilateral (4 symmetry "
                "settings, HMM/BN), Midline (mixing x evo/central/neither x lnl symmetry; midext None/True/False; central); "
                "diagnoses over {True,False,unknown} per modality and LNL, possibly contradictory between modalities, a side "
                "possibly missing; patterns over all seven indicator values (trinary); non-trivial iff the diagnosis records "
                ">=1 finding and the pattern constrains >=1 LNL")
    n = 110 if ctx.tier == "quick" else 900
    cases = [gen_case(ctx.rng, ctx.tier) for _ in range(n)]
    for c in cases:
        if c["cls"] == "uni":
            nt = any(v is not None for p in c["diag"].values() for v in p.values()) and any(v is not None for v in c["inv"].values())
        else:
            nt = any(v is not None for d in c["diag"].values() for p in d.values() for v in p.values()) and \
                 any(v is not None for p in c["inv"].values() for v in p.values())
        ctx.count(c, nt, f"{c['cls']}-base{c['graph']['base']}-{c['mode']}")
    run_standard(ctx, cases, impl_wrapped, coq_expr, compare, IMPORTS, candidates,
                 sig_fn=lambda c, mm: {"class": {"uni": "Unilateral", "bi": "Bilateral", "ml": "Midline"}[c["cls"]],
                                       "call": str(mm.get("observable")).split("(")[0]},
                 call_fn=lambda c, mm: f"build {c['cls']} model from case (composite set_params with seed_params); " + str(mm.get("observable")),
                 broken="correspondence risk/posterior/marginalize vs /repo", shard=12)


def replay(ctx: Ctx, path: str) -> int:
    data = json.loads(open(path).read())
    from ..core import correspondence
    bad = correspondence(ctx, [data["case"]], impl_wrapped, coq_expr, compare, IMPORTS, tag="replay")
    if bad:
        print("REPRODUCED", json.dumps(bad[0][1], default=str))
        return 1
    print("not reproduced")
    return 0
