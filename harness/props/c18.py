"""C18: diagnosis-time distributions stay normalised over 0..max_time and update safely.

Tie: histories of operations on standalone `Distribution` objects and on the distribution
API of `Unilateral`, `Bilateral`, `Midline` (set_distribution, get_distribution(t).pmf,
set_distribution_params, get_distribution_params, max_time getter/setter, del_distribution,
replace_all_distributions, clear_distributions, direct `<leaf>.get_distribution(t).set_params`)
vs the Coq model DistModel.trace evaluated on the same history.  After every step: pmf
(length, values), max_time and keyword dict of every Distribution object reachable from
the model and of every standalone object, the T-stage order of every leaf, the returned
surplus arguments, the raised exception class, get_distribution_params() at the root, and
object identity as a partition (same model cell <=> same Python object).

Relation-only checks on the implementation (no model): every evaluable pmf has length
max_time+1, is >= 0 and sums to 1 within 1e-9; an operation aimed at one object / one
sub-model leaves every other object's pmf and keywords unchanged; all Distribution objects
held by the leaves and by the user are pairwise distinct objects.

Outside the statement (never alarmed on, DESIGN.md section 5/6): a frozen distribution after
a max_time change (its pmf is not compared until it is re-set; histories re-set them),
`Distribution.__eq__` between different lengths, Distribution instances inserted into a
model whose max_time differs from the model's (not generated).
"""
from __future__ import annotations

import copy
import json

import numpy as np

from .. import gen, impl
from ..core import Ctx, HarnessError, TOL, correspondence, first_diff, lst, nat, q, run_standard, s, tup

IMPORTS = "Base States Linalg Graph Dist DistModel"
GRAPH = {("tumor", "T"): ["II", "III"], ("lnl", "II"): ["III"], ("lnl", "III"): []}
TS = ["early", "late", "adv"]
ERR = {"DValue": "ValueError", "DKey": "KeyError", "DType": "TypeError", "DAttr": "AttributeError"}


# ------------------------------------------------------------------------------------
# shapes
# ------------------------------------------------------------------------------------
def leaf_paths(case) -> list[list[str]]:
    k = case["kind"]
    if k in ("dist", "uni"):
        return [[]]
    if k == "bi":
        return [["ipsi"], ["contra"]]
    out = []
    for b in mid_children(case):
        out += [[b, "ipsi"], [b, "contra"]]
    return out


def mid_children(case):
    return ["ext", "noext"] + (["central"] if case.get("central") else []) + (["unknown"] if case.get("unknown") else [])


def node_paths(case) -> list[list[str]]:
    k = case["kind"]
    if k in ("dist", "uni"):
        return [[]]
    if k == "bi":
        return [[], ["ipsi"], ["contra"]]
    out = [[]]
    for b in mid_children(case):
        out += [[b], [b, "ipsi"], [b, "contra"]]
    return out


def child_names(case, path):
    k = case["kind"]
    if k == "bi" and path == []:
        return ["ipsi", "contra"]
    if k == "mid" and path == []:
        return mid_children(case)
    if k == "mid" and len(path) == 1:
        return ["ipsi", "contra"]
    return []


def build_model(case):
    from lymph import models
    m = case["max_time"]
    k = case["kind"]
    if k == "dist":
        return None
    if k == "uni":
        return models.Unilateral.binary(GRAPH, max_time=m)
    if k == "bi":
        return models.Bilateral.binary(GRAPH, uni_kwargs={"max_time": m})
    central = bool(case.get("central"))
    return models.Midline.binary(GRAPH, uni_kwargs={"max_time": m}, use_central=central,
                                 use_midext_evo=not central, marginalize_unknown=bool(case.get("unknown")))


def coq_tree(case) -> str:
    m = nat(case["max_time"])
    k = case["kind"]
    if k == "dist":
        return "(uni_tree 0%nat)"
    if k == "uni":
        return f"(uni_tree {m})"
    if k == "bi":
        return f"(bi_tree {m})"
    return f"(mid_tree {m} {'true' if case.get('central') else 'false'} {'true' if case.get('unknown') else 'false'})"


# ------------------------------------------------------------------------------------
# Gallina terms of operations
# ------------------------------------------------------------------------------------
def coq_arg(a) -> str:
    if "list" in a:
        return f"(AList {lst(q(w) for w in a['list'])})"
    if "fam" in a:
        return f"(AFam {nat(a['fam'])})"
    return f"(AObj {nat(a['obj'])})"


def coq_kw(kw: dict) -> str:
    return lst(tup(s(k), q(v)) for k, v in kw.items())


def coq_args(args) -> str:
    return lst("None" if v is None else f"(Some {q(v)})" for v in args)


def coq_path(p) -> str:
    return lst(s(x) for x in p)


def coq_z(v: int) -> str:
    return f"({int(v)})%Z"


def coq_op(o) -> str:
    k = o[0]
    if k == "new":
        mt = "None" if o[2] is None else f"(Some {nat(o[2])})"
        return f"(ONew {coq_arg(o[1])} {mt} {coq_kw(o[3])})"
    if k == "obj_set_params":
        return f"(OObjSetParams {nat(o[1])} {coq_args(o[2])} {coq_kw(o[3])})"
    if k == "obj_set_max_time":
        return f"(OObjSetMaxTime {nat(o[1])} {coq_z(o[2])})"
    if k == "set_dist":
        return f"(OSetDist {coq_path(o[1])} {s(o[2])} {coq_arg(o[3])})"
    if k == "del_dist":
        return f"(ODelDist {coq_path(o[1])} {s(o[2])})"
    if k == "replace_all":
        return f"(OReplaceAll {coq_path(o[1])} {lst(tup(s(t), coq_arg(a)) for t, a in o[2])})"
    if k == "clear":
        return f"(OClear {coq_path(o[1])})"
    if k == "set_max_time":
        return f"(OSetMaxTime {coq_path(o[1])} {coq_z(o[2])})"
    if k == "get_max_time":
        return f"(OGetMaxTime {coq_path(o[1])})"
    if k == "set_dist_params":
        return f"(OSetDistParams {coq_path(o[1])} {coq_args(o[2])} {coq_kw(o[3])})"
    if k == "cell_set_params":
        return f"(OCellSetParams {coq_path(o[1])} {s(o[2])} {coq_args(o[3])} {coq_kw(o[4])})"
    raise ValueError(k)


def coq_expr(case) -> str:
    return f"trace fam_weights fam_defaults (world0 {coq_tree(case)}) {lst(coq_op(o) for o in case['ops'])}"


# ------------------------------------------------------------------------------------
# implementation side
# ------------------------------------------------------------------------------------
def node_at(model, path):
    for n in path:
        model = getattr(model, n)
    return model


def cell_obs(d) -> dict:
    out = {"max_time": int(d.max_time), "upd": bool(d.is_updateable)}
    out["kw"] = [[k, float(v)] for k, v in d.get_params().items()] if d.is_updateable else []
    try:
        out["pmf"] = [float(x) for x in np.asarray(d.pmf, dtype=float)]
    except Exception as e:  # noqa: BLE001
        out["pmf_err"] = impl.err_enum(e)
    return out


def observe(case, model, objs) -> dict:
    ob = {"objs": [None if d is None else cell_obs(d) for d in objs], "leaves": [], "ids": {}}
    handles = [d for d in objs if d is not None]
    held = list(handles)
    if model is not None:
        for p in leaf_paths(case):
            leaf = node_at(model, p)
            dd = leaf.get_all_distributions()
            ob["leaves"].append([[t, cell_obs(d)] for t, d in dd.items()])
            held += list(dd.values())
        try:
            ob["params"] = [[k, float(v)] for k, v in model.get_distribution_params().items()]
        except Exception as e:  # noqa: BLE001
            ob["params_err"] = impl.err_enum(e)
        # the root's get_distribution(t) is the first leaf's object
        first = node_at(model, leaf_paths(case)[0]).get_all_distributions()
        root = []
        for t, d in first.items():
            try:
                root.append([t, model.get_distribution(t) is d])
            except Exception as e:  # noqa: BLE001
                root.append([t, impl.err_enum(e)])
        ob["root_is_first"] = root
    ob["_held"] = held        # python objects, removed before the result is returned
    return ob


_BUFFERS: dict = {}
_USED = [0]


def make_arg(a, objs):
    """-> (python argument, skip?)"""
    if "list" in a:
        ws = [float(w) for w in a["list"]]
        if ws and int(sum(ws) * 16) % 2 == 0:
            # the caller's weights in ONE preallocated float64 buffer per length, refilled for every use and overwritten
            # after every operation (R5-C18): the stored pmf must not alias the caller's array
            _USED[0] += 1          # (a fresh slot for every argument of ONE call: the caller does not alias its own arguments)
            buf = _BUFFERS.setdefault((len(ws), _USED[0]), np.zeros(len(ws), dtype=float))
            buf[:] = ws
            return buf, False
        return ws, False
    if "fam" in a:
        return impl.FAMILIES[a["fam"]], False
    k = a["obj"]
    if k >= len(objs) or objs[k] is None:
        return None, True
    return objs[k], False


def targets(case, o):
    """which observed objects an operation may change: (set of leaf indices | None = all, T-stage | None = all,
    handle index | None, may objs change?)"""
    lp = leaf_paths(case)
    k = o[0]

    def under(path):
        return {i for i, p in enumerate(lp) if p[:len(path)] == path}
    if k == "new":
        return set(), None, None
    if k in ("obj_set_params", "obj_set_max_time"):
        return set(), None, o[1]
    if k == "cell_set_params":
        u = sorted(under(o[1]))
        return ({u[0]} if u else set()), o[2], None
    if k == "set_dist":
        return under(o[1]), o[2], None
    if k == "get_max_time":
        return set(), None, None
    return under(o[1]), None, None


def same_cell(a, b) -> bool:
    if a is None or b is None:
        return a is b
    if a["max_time"] != b["max_time"] or a["upd"] != b["upd"] or a["kw"] != b["kw"]:
        return False
    if ("pmf" in a) != ("pmf" in b):
        return False
    if "pmf" in a:
        return len(a["pmf"]) == len(b["pmf"]) and all(abs(x - y) <= 1e-12 for x, y in zip(a["pmf"], b["pmf"]))
    return a.get("pmf_err") == b.get("pmf_err")


def relation_checks(case, o, prev, cur, prev_held, cur_held):
    """Relation-only checks on the implementation. Returns a description of the first failure or None."""
    # (1) normalisation of every evaluable pmf
    cells = [("obj", k, None, c) for k, c in enumerate(cur["objs"]) if c is not None]
    for j, leaf in enumerate(cur["leaves"]):
        cells += [("leaf", j, t, c) for t, c in leaf]
    for where, j, t, c in cells:
        if "pmf" not in c:
            continue
        p = c["pmf"]
        if len(p) != c["max_time"] + 1:
            return {"relation": "len(pmf) == max_time + 1", "where": [where, j, t], "len": len(p), "max_time": c["max_time"]}
        if any((not (x >= 0.0)) for x in p):
            return {"relation": "pmf >= 0", "where": [where, j, t], "pmf": p}
        if not abs(sum(p) - 1.0) <= TOL:
            return {"relation": "sum(pmf) == 1", "where": [where, j, t], "sum": sum(p), "pmf": p}
    # (2) all held Distribution objects are pairwise distinct objects
    if len({id(d) for d in cur_held}) != len(cur_held):
        return {"relation": "copies are distinct objects", "n_objects": len(cur_held), "n_distinct": len({id(d) for d in cur_held})}
    # (3) frame: objects the operation is not aimed at are unchanged
    if prev is not None:
        leaves_t, ts_t, handle_t = targets(case, o)
        for k, (a, b) in enumerate(zip(prev["objs"], cur["objs"])):
            if k != handle_t and not same_cell(a, b):
                return {"relation": "standalone object unchanged by an operation on something else", "handle": k,
                        "before": a, "after": b}
        for j, (la, lb) in enumerate(zip(prev["leaves"], cur["leaves"])):
            da, db = dict((t, c) for t, c in la), dict((t, c) for t, c in lb)
            if j not in leaves_t:
                if [t for t, _ in la] != [t for t, _ in lb] or any(not same_cell(da[t], db[t]) for t in da):
                    return {"relation": "other sub-model unchanged", "leaf": leaf_paths(case)[j], "before": la, "after": lb}
            elif ts_t is not None:
                for t in da:
                    if t != ts_t and (t not in db or not same_cell(da[t], db[t])):
                        return {"relation": "other T-stage unchanged", "leaf": leaf_paths(case)[j], "t_stage": t,
                                "before": da[t], "after": db.get(t)}
    return None


def run_impl(case) -> list:
    from lymph.diagnosis_times import Distribution
    model = build_model(case)
    objs: list = []
    steps = []
    prev = None
    prev_held = []
    _BUFFERS.clear()
    for o in case["ops"]:
        k = o[0]
        out = None
        _USED[0] = 0
        for _b in _BUFFERS.values():
            _b[:] = 7.0          # the caller goes on using its buffers
        try:
            if k == "new":
                arg, skip = make_arg(o[1], objs)
                if skip:
                    out = ["skip"]
                else:
                    try:
                        kwargs = {} if o[2] is None else {"max_time": o[2]}
                        d = Distribution(arg, **kwargs, **o[3])
                        objs.append(d)
                        out = ["ok", 0, []]
                    except Exception:
                        objs.append(None)
                        raise
            elif k == "obj_set_params":
                if o[1] >= len(objs) or objs[o[1]] is None:
                    out = ["skip"]
                else:
                    out = ["ok", 1, list(objs[o[1]].set_params(*o[2], **o[3]))]
            elif k == "obj_set_max_time":
                if o[1] >= len(objs) or objs[o[1]] is None:
                    out = ["skip"]
                else:
                    objs[o[1]].max_time = o[2]
                    out = ["ok", 0, []]
            elif k == "set_dist":
                arg, skip = make_arg(o[3], objs)
                if skip:
                    out = ["skip"]
                else:
                    node_at(model, o[1]).set_distribution(o[2], arg)
                    out = ["ok", 0, []]
            elif k == "del_dist":
                node_at(model, o[1]).del_distribution(o[2])
                out = ["ok", 0, []]
            elif k == "replace_all":
                items = {}
                skip = False
                for t, a in o[2]:
                    arg, sk = make_arg(a, objs)
                    skip = skip or sk
                    items[t] = arg
                if skip:
                    out = ["skip"]
                else:
                    node_at(model, o[1]).replace_all_distributions(items)
                    out = ["ok", 0, []]
            elif k == "clear":
                node_at(model, o[1]).clear_distributions()
                out = ["ok", 0, []]
            elif k == "set_max_time":
                node_at(model, o[1]).max_time = o[2]
                out = ["ok", 0, []]
            elif k == "get_max_time":
                out = ["ok", 2, [int(node_at(model, o[1]).max_time)]]
            elif k == "set_dist_params":
                out = ["ok", 1, list(node_at(model, o[1]).set_distribution_params(*o[2], **o[3]))]
            elif k == "cell_set_params":
                out = ["ok", 1, list(node_at(model, o[1]).get_distribution(o[2]).set_params(*o[3], **o[4]))]
            else:
                raise HarnessError(f"unknown op {k}")
        except HarnessError:
            raise
        except Exception as e:  # noqa: BLE001
            out = ["err", impl.err_enum(e), repr(e)[:200]]
        cur = observe(case, model, objs)
        held = cur.pop("_held")
        rel = relation_checks(case, o, prev, cur, prev_held, held)
        steps.append({"out": out, "obs": cur, "rel": rel})
        prev, prev_held = cur, held
    return steps


_CACHE: dict[str, list] = {}


def impl_fn(case):
    key = json.dumps(case, sort_keys=True)
    if key not in _CACHE:
        if len(_CACHE) > 5000:
            _CACHE.clear()
        _CACHE[key] = run_impl(case)
    return _CACHE[key]


# ------------------------------------------------------------------------------------
# comparison
# ------------------------------------------------------------------------------------
def fr(pair) -> float:
    n, d = pair
    return n / d


def model_res(v):
    """('inl', ctor) | ('inr', x)"""
    if isinstance(v, tuple) and v[0] == "inl":
        c = v[1]
        return "err", ERR.get(c[1] if isinstance(c, tuple) else str(c), str(c))
    return "ok", v[1]


def cmp_cell(c_impl, c_model, where):
    maxt, upd, kw, pmf = c_model
    if c_impl["max_time"] != maxt:
        return {"observable": "Distribution.max_time", "where": where, "actual": c_impl["max_time"], "expected": maxt}
    if c_impl["upd"] != upd:
        return {"observable": "Distribution.is_updateable", "where": where, "actual": c_impl["upd"], "expected": upd}
    names_m = [k for k, _ in kw]
    names_i = [k for k, _ in c_impl["kw"]]
    if names_m != names_i:
        return {"observable": "Distribution.get_params() names", "where": where, "actual": names_i, "expected": names_m}
    for (k, va), (_, vm) in zip(c_impl["kw"], kw):
        if not Ctx.close(va, _frac(vm)):
            return {"observable": "Distribution.get_params()", "where": where, "name": k, "actual": va, "expected": fr(vm)}
    st, val = model_res(pmf)
    if st == "err":
        if val == "TypeError":
            return None        # frozen distribution after a max_time change: outside the statement, not compared
        if c_impl.get("pmf_err") != val:
            return {"observable": "Distribution.pmf", "where": where, "actual": c_impl.get("pmf_err", "values"),
                    "expected": f"raises {val}"}
        return None
    if "pmf" not in c_impl:
        return {"observable": "Distribution.pmf", "where": where, "actual": f"raised {c_impl.get('pmf_err')}",
                "expected": [fr(x) for x in val]}
    if len(c_impl["pmf"]) != len(val):
        return {"observable": "len(Distribution.pmf)", "where": where, "actual": len(c_impl["pmf"]), "expected": len(val),
                "statement": "pmf has length max_time+1 (C18_pmf_length)"}
    d = first_diff(c_impl["pmf"], [_frac(x) for x in val])
    if d:
        return {"observable": "Distribution.pmf", "where": where, **d}
    return None


def _frac(pair):
    from fractions import Fraction
    return Fraction(pair[0], pair[1])


def compare(case, obs, val):
    if obs[0] == "err":
        return {"observable": "history", "actual": f"harness could not run the history: {obs[1]} {obs[2]}", "expected": "steps"}
    steps = obs[1]
    if len(steps) != len(val):
        raise HarnessError("model trace length differs from history length")
    lp = leaf_paths(case)
    for n, (st, mv) in enumerate(zip(steps, val)):
        op = case["ops"][n]
        if st["rel"] is not None:
            return {"observable": "relation on the implementation: " + st["rel"]["relation"], "step": n, "op": op, **st["rel"]}
        oval, (cells, tree, objs_m, params_m) = mv
        # --- outcome
        mst, mval = model_res(oval)
        out = st["out"]
        if mst == "err":
            if out[0] != "err" or out[1] != mval:
                return {"observable": f"{op[0]}: exception", "step": n, "op": op,
                        "actual": out[:2] if out[0] != "ok" else "no exception", "expected": f"raises {mval}"}
        else:
            tag, payload = mval
            if tag == 3:
                if out[0] != "skip":
                    raise HarnessError(f"model skipped step {n} but the harness did not: {op}")
            elif out[0] != "ok":
                return {"observable": f"{op[0]}: exception", "step": n, "op": op,
                        "actual": f"raised {out[1]}: {out[2] if len(out) > 2 else ''}", "expected": "no exception"}
            elif tag == 1:
                exp = [None if x is None else _frac(x[1]) for x in payload]
                act = out[2]
                ok = len(exp) == len(act) and all((a is None) == (e is None) and (a is None or Ctx.close(a, e))
                                                  for a, e in zip(act, exp))
                if out[1] != 1 or not ok:
                    return {"observable": f"{op[0]}: returned surplus arguments", "step": n, "op": op, "actual": act,
                            "expected": [None if e is None else float(e) for e in exp]}
            elif tag == 2:
                if out[1] != 2 or out[2][0] != payload[0][1][0]:
                    return {"observable": "max_time (getter)", "step": n, "op": op, "actual": out[2], "expected": payload[0][1][0]}
        ob = st["obs"]
        # --- standalone objects
        handles = [None if h is None else h[1] for h in objs_m]
        if len(handles) != len(ob["objs"]):
            return {"observable": "number of Distribution objects created", "step": n, "op": op,
                    "actual": len(ob["objs"]), "expected": len(handles)}
        for k, (h, c) in enumerate(zip(handles, ob["objs"])):
            if (h is None) != (c is None):
                return {"observable": "Distribution(...) constructor", "step": n, "op": op, "handle": k,
                        "actual": "raised" if c is None else "constructed", "expected": "raised" if h is None else "constructed"}
            if h is not None:
                mm = cmp_cell(c, cells[h], ["object", k])
                if mm:
                    return {"step": n, "op": op, **mm}
        # --- leaves
        any_stale = False
        if case["kind"] != "dist":
            if len(tree) != len(ob["leaves"]):
                raise HarnessError("model tree shape differs from the harness' leaf list")
            seen_ids = list(h for h in handles if h is not None)
            for j, ((m_leaf, ds), leaf) in enumerate(zip(tree, ob["leaves"])):
                if [t for t, _ in ds] != [t for t, _ in leaf]:
                    return {"observable": "T-stages of a sub-model (order of definition)", "step": n, "op": op,
                            "leaf": lp[j], "actual": [t for t, _ in leaf], "expected": [t for t, _ in ds]}
                for (t, i), (_, c) in zip(ds, leaf):
                    mm = cmp_cell(c, cells[i], ["leaf", lp[j], t])
                    if mm:
                        return {"step": n, "op": op, **mm}
                    st_c, v_c = model_res(cells[i][3])
                    any_stale = any_stale or (st_c == "err" and v_c == "TypeError")
                    seen_ids.append(i)
            if len(set(seen_ids)) != len(seen_ids):
                raise HarnessError("model holds one cell in two places (the model itself would be aliased)")
            pst, pval = model_res(params_m)
            if pst == "err":
                if ob.get("params_err") != pval:
                    return {"observable": "get_distribution_params()", "step": n, "op": op,
                            "actual": ob.get("params_err", ob.get("params")), "expected": f"raises {pval}"}
            else:
                if "params" not in ob:
                    return {"observable": "get_distribution_params()", "step": n, "op": op,
                            "actual": f"raised {ob.get('params_err')}", "expected": [[k, fr(v)] for k, v in pval]}
                if [k for k, _ in ob["params"]] != [k for k, _ in pval]:
                    return {"observable": "get_distribution_params() names/order", "step": n, "op": op,
                            "actual": [k for k, _ in ob["params"]], "expected": [k for k, _ in pval]}
                for (k, va), (_, vm) in zip(ob["params"], pval):
                    if not Ctx.close(va, _frac(vm)):
                        return {"observable": "get_distribution_params()", "step": n, "op": op, "name": k, "actual": va,
                                "expected": fr(vm)}
            if not any_stale:
                for t, flag in ob["root_is_first"]:
                    if flag is not True:
                        return {"observable": "get_distribution(t) at the root returns the first sub-model's object",
                                "step": n, "op": op, "t_stage": t, "actual": flag, "expected": True}
    return None


# ------------------------------------------------------------------------------------
# generator
# ------------------------------------------------------------------------------------
def gen_weights(rng, n):
    w = [rng.choice([0, 1, 1, 2, 3, 5]) for _ in range(n)]
    if sum(w) == 0:
        w[rng.randrange(len(w))] = 1
    return [float(x) for x in w]


GOOD = {"p": lambda r: gen.gen_value(r), "a": lambda r: r.randint(0, 8) / 4.0, "b": lambda r: r.randint(1, 8) / 4.0}
BAD = {"p": [1.5, -0.25, 2.0], "a": [-1.0, -0.5, 128.0], "b": [0.0, -0.5, 128.0]}


def gen_val(rng, name=None, p_bad=0.12):
    name = name or rng.choice(["p", "a", "b"])
    if rng.random() < p_bad:
        return rng.choice(BAD[name])
    return GOOD[name](rng)


def gen_args(rng, hi=4):
    n = rng.choice([0, 0, 1, 1, 2, 2, 3, hi])
    out = []
    for _ in range(n):
        r = rng.random()
        if r < 0.15:
            out.append(None)
        elif r < 0.3:
            out.append(0.0)
        elif r < 0.38:
            out.append(rng.choice([1.5, -1.0, 128.0]))
        else:
            out.append(rng.choice([gen.gen_value(rng), rng.randint(1, 8) / 4.0]))
    return out


def gen_kwargs(rng, case, path, ts_pool):
    """keyword names: bare (global), T-stage-prefixed, child-prefixed, unknown ones"""
    n = rng.choice([0, 0, 1, 1, 2, 3])
    out = {}
    for _ in range(n):
        name = rng.choice(["p", "a", "b"])
        pref = []
        cur = list(path)
        while True:
            ch = child_names(case, cur)
            if not ch or rng.random() < 0.35:
                break
            c = rng.choice(ch)
            pref.append(c)
            cur.append(c)
        if rng.random() < 0.6:
            pref.append(rng.choice(ts_pool))
        r = rng.random()
        if r < 0.08:
            key = "_".join(pref + ["zz"])            # unknown parameter name
        elif r < 0.13:
            key = "_".join(["foo"] + pref + [name])    # unknown prefix
        elif r < 0.16 and pref:
            key = "_".join(pref)                       # a bare child / T-stage name
        else:
            key = "_".join(pref + [name])
        out[key] = gen_val(rng, name)
    return out


def gen_case(rng, tier, kind=None):
    kind = kind or rng.choice(["dist", "uni", "uni", "bi", "bi", "bi", "mid", "mid"])
    case = {"kind": kind, "max_time": rng.randint(1, 4 if tier == "thorough" else 3), "ops": []}
    if kind == "mid":
        case["central"] = rng.random() < 0.35
        case["unknown"] = rng.random() < 0.5
    ops = case["ops"]
    m = case["max_time"]
    handles = []          # per handle: {"kind": "list"|"param"|"failed", "mt": int, "stale": bool}
    maybe_frozen = set()
    nops = rng.randint(5, 11 if tier == "quick" else 16)
    present: list = []
    nodes = node_paths(case)

    def new_obj(force_mt=None, allow_bad=True):
        """emit a `new` op; returns the handle index"""
        r = rng.random()
        mt = m if force_mt is None else force_mt
        if r < 0.3:
            n = mt + 1
            if allow_bad and rng.random() < 0.1:
                n = max(1, n + rng.choice([-1, 1]))
            give_mt = rng.random() < 0.5
            ops.append(["new", {"list": gen_weights(rng, n)}, mt if give_mt else None, {}])
            ok = (n == mt + 1) or not give_mt
            handles.append({"kind": "list" if ok else "failed", "mt": (n - 1 if not give_mt else mt), "stale": False})
        elif r < 0.85:
            f = rng.choice([0, 1])
            kw = {}
            bad = False
            for name in impl.FAM_KEYS[f]:
                if rng.random() < 0.6:
                    kw[name] = gen_val(rng, name, 0.1 if allow_bad else 0.0)
                    bad = bad or kw[name] in BAD[name]
            no_mt = allow_bad and rng.random() < 0.04
            ops.append(["new", {"fam": f}, None if no_mt else mt, kw])
            handles.append({"kind": "failed" if (bad or no_mt) else "param", "mt": mt, "stale": False})
        else:
            src = [k for k, h in enumerate(handles) if h["kind"] != "failed" and not h["stale"]
                   and (kind == "dist" or h["mt"] == mt)]
            if not src:
                return new_obj(force_mt, allow_bad)
            k = rng.choice(src)
            ops.append(["new", {"obj": k}, rng.choice([None, m]), {}])
            handles.append(dict(handles[k]))
        return len(handles) - 1

    def gen_darg():
        """argument for set_distribution: list, bare family, or a Distribution object with the model's max_time"""
        r = rng.random()
        if r < 0.35:
            n = m + 1
            if rng.random() < 0.1:
                n = max(1, n + rng.choice([-1, 1]))
            return {"list": gen_weights(rng, n)}, "list"
        if r < 0.5:
            return {"fam": rng.choice([0, 1])}, "param"
        usable = [k for k, h in enumerate(handles) if h["mt"] == m and not h["stale"] and h["kind"] != "failed"]
        if usable and rng.random() < 0.4:
            k = rng.choice(usable)
        else:
            k = new_obj(force_mt=m)
            if handles[k]["kind"] != "failed" and handles[k]["mt"] != m:
                # an instance whose own max_time differs from the model's is outside the statement (not generated)
                return {"list": gen_weights(rng, m + 1)}, "list"
        return {"obj": k}, handles[k]["kind"]

    while len(ops) < nops:
        r = rng.random()
        if kind == "dist" or r < 0.14:
            live = [k for k, h in enumerate(handles) if h["kind"] != "failed"]
            r2 = rng.random()
            if not live or r2 < 0.35:
                new_obj(force_mt=rng.randint(0, 4) if kind == "dist" else None)
            elif r2 < 0.85:
                k = rng.choice(live + ([rng.randrange(len(handles))] if rng.random() < 0.1 else []))
                kw = {}
                for _ in range(rng.choice([0, 0, 1, 1, 2])):
                    name = rng.choice(["p", "a", "b", "zz", "early_p"])
                    kw[name] = gen_val(rng, name if name in GOOD else None)
                ops.append(["obj_set_params", k, gen_args(rng), kw])
            else:
                k = rng.choice(live)
                v = rng.choice([-1, 0, 1, 2, 3, 4])
                ops.append(["obj_set_max_time", k, v])
                if v >= 0:
                    handles[k]["mt"] = v
                    if handles[k]["kind"] == "list":
                        handles[k]["stale"] = True
            continue
        path = rng.choice(nodes) if rng.random() < 0.45 else []
        if r < 0.45 or not present:
            t = rng.choice(TS)
            a, knd = gen_darg()
            ops.append(["set_dist", path, t, a])
            if t not in present:
                present.append(t)
            if knd == "list" or (knd == "failed"):
                maybe_frozen.add(t)
        elif r < 0.7:
            ops.append(["set_dist_params", path, gen_args(rng, 5), gen_kwargs(rng, case, path, TS)])
        elif r < 0.8:
            # direct update of one Distribution held by a sub-model
            if maybe_frozen and child_names(case, path):
                path = rng.choice([p for p in nodes if not child_names(case, p)])   # avoid the branch-level == on stale arrays
            kw = {}
            for _ in range(rng.choice([0, 1, 1, 2])):
                name = rng.choice(["p", "a", "b", "zz"])
                kw[name] = gen_val(rng, name if name in GOOD else None)
            ops.append(["cell_set_params", path, rng.choice(present if rng.random() < 0.85 else TS), gen_args(rng, 3), kw])
        elif r < 0.86:
            v = rng.choice([0, 1, 2, 3, 4] if tier == "thorough" else [0, 1, 2, 3]) if rng.random() < 0.9 else -1
            kids = [p for p in nodes if p]
            if v >= 0 and v != m and kids and rng.random() < 0.35:
                # directed (R6-C18-m2): one child gets another max_time, then the root is set back to the value its
                # FIRST child still reports: every leaf must follow, also the one that was out of step
                ops.append(["set_max_time", rng.choice(kids), v])
                v = m
            ops.append(["set_max_time", [], v])
            if v >= 0:
                m = v
                # histories re-set frozen distributions after changing max_time (DESIGN.md section 6)
                for t in sorted(maybe_frozen):
                    if rng.random() < 0.5:
                        ops.append(["set_dist", [], t, {"list": gen_weights(rng, m + 1)}])
                    else:
                        ops.append(["set_dist", [], t, {"fam": rng.choice([0, 1])}])
                        maybe_frozen.discard(t)
        elif r < 0.9:
            ops.append(["get_max_time", path])
        elif r < 0.95:
            ops.append(["del_dist", path, rng.choice(present if rng.random() < 0.7 else TS)])
        elif r < 0.98:
            items = []
            for t in rng.sample(TS, rng.randint(0, 2)):
                a, knd = gen_darg()
                items.append([t, a])
                if knd in ("list", "failed"):
                    maybe_frozen.add(t)
            ops.append(["replace_all", path, items])
        else:
            ops.append(["clear", path])
    return case


def nontrivial(case) -> bool:
    """a parametric keyword value changed through an update operation somewhere in the history"""
    steps = impl_fn(case)
    prev = None
    for o, st in zip(case["ops"], steps):
        cur = json.dumps([st["obs"]["objs"], st["obs"]["leaves"]], sort_keys=True)
        if o[0] in ("set_dist_params", "cell_set_params", "obj_set_params") and st["out"][0] == "ok" and prev is not None \
                and cur != prev:
            return True
        prev = cur
    return False


# ------------------------------------------------------------------------------------
# shrinking
# ------------------------------------------------------------------------------------
def _refs(o):
    """handles referenced by an op (as list of (container, key) to patch)"""
    out = []
    if o[0] == "new" and "obj" in o[1]:
        out.append(o[1])
    if o[0] == "set_dist" and "obj" in o[3]:
        out.append(o[3])
    if o[0] == "replace_all":
        out += [a for _, a in o[2] if "obj" in a]
    return out


def drop_op(case, i):
    c = copy.deepcopy(case)
    o = c["ops"][i]
    if o[0] != "new":
        del c["ops"][i]
        return c
    k = sum(1 for x in c["ops"][:i] if x[0] == "new")
    rest = []
    for x in c["ops"][i + 1:]:
        if x[0] in ("obj_set_params", "obj_set_max_time"):
            if x[1] == k:
                continue
            if x[1] > k:
                x[1] -= 1
        refs = _refs(x)
        if any(a["obj"] == k for a in refs):
            if x[0] == "new":
                return None            # a copy of the dropped object: keep it simple
            continue
        for a in refs:
            if a["obj"] > k:
                a["obj"] -= 1
        rest.append(x)
    c["ops"] = c["ops"][:i] + rest
    return c


def candidates(case):
    out = []
    n = len(case["ops"])
    for cut in (n // 2, n - 1, n - 2):
        if 0 < cut < n:
            c = copy.deepcopy(case)
            c["ops"] = c["ops"][:cut]
            out.append(c)
    for i in reversed(range(n)):
        c = drop_op(case, i)
        if c is not None and c["ops"]:
            out.append(c)
    order = ["dist", "uni", "bi", "mid"]
    for knd in order[:order.index(case["kind"])]:
        c = copy.deepcopy(case)
        c["kind"] = knd
        c.pop("central", None)
        c.pop("unknown", None)
        tree_ops = [o for o in c["ops"] if o[0] not in ("new", "obj_set_params", "obj_set_max_time")]
        if (knd == "dist" and not tree_ops) or (knd != "dist" and all(o[1] in node_paths(c) for o in tree_ops)):
            out.append(c)
    if case["kind"] == "mid":
        for key in ("unknown", "central"):
            if case.get(key):
                c = copy.deepcopy(case)
                c[key] = False
                if all(key not in (o[1] if isinstance(o[1], list) else []) for o in c["ops"]):
                    out.append(c)
    for i, o in enumerate(case["ops"]):
        for pos in range(1, len(o)):
            v = o[pos]
            if isinstance(v, dict) and v and "list" not in v and "fam" not in v and "obj" not in v:
                for key in list(v):
                    c = copy.deepcopy(case)
                    del c["ops"][i][pos][key]
                    out.append(c)
            if isinstance(v, list) and v and o[0] in ("set_dist_params", "cell_set_params", "obj_set_params") \
                    and all(x is None or isinstance(x, float) for x in v):
                c = copy.deepcopy(case)
                c["ops"][i][pos] = v[:-1]
                out.append(c)
    return out


def sig_fn(case, mm):
    cls = {"dist": "Distribution", "uni": "Unilateral", "bi": "Bilateral", "mid": "Midline"}[case["kind"]]
    op = mm.get("op")
    return {"class": cls, "call": op[0] if op else "history", "observable": str(mm.get("observable"))}


def call_fn(case, mm):
    cls = {"dist": "Distribution objects only", "uni": "Unilateral.binary(GRAPH, max_time=m)",
           "bi": "Bilateral.binary(GRAPH, uni_kwargs={'max_time': m})",
           "mid": "Midline.binary(GRAPH, uni_kwargs={'max_time': m}, use_central=c, use_midext_evo=not c, marginalize_unknown=u)"}[case["kind"]]
    return (f"{cls}; apply case['ops'] in order (harness/props/c18.py run_impl; families harness.impl.fam0/fam1); "
            f"after step {mm.get('step')} observe {mm.get('observable')}")


def run(ctx: Ctx, a_ok: bool):
    ctx.cone = ["DistModel.dist_new", "DistModel.cell_set_params (set_kw)", "DistModel.cell_set_maxt", "DistModel.cell_pmf",
                "DistModel.each_tree / leaf_* (Composite API)", "DistModel.descend_params / unflatten_and_split",
                "DistModel.comp_get_distribution_params (flatten2)", "Dist.fam_weights / normalize / mk_frozen"]
    ctx.rule = ("random histories (5-11 operations quick, 5-16 thorough) on standalone Distribution objects, Unilateral, "
                "Bilateral and Midline (with/without central, unknown); values from k/16, k/4, 0.0, None and the invalid "
                "p=1.5/-0.25, a=-1/128, b=0/-0.5; non-trivial iff at least one set_params / set_distribution_params call "
                "in the history succeeded and changed an observed keyword value or pmf")
    n = 300 if ctx.tier == "quick" else 2000
    cases = [gen_case(ctx.rng, ctx.tier) for _ in range(n)]
    # fixed regression histories (the two repaired defects, aliasing, restore)
    cases += fixed_cases()
    if ctx.tier == "thorough":
        enum = enum_set_params_cases(3)
        ctx.exhaustive = True
        ctx.extra["exhaustive_space"] = ("Distribution.set_params on fam1(a, b): all positional tuples over {None, 0.0, 0.5, -1.0} "
                                         f"of length <= 3 x all keyword subsets of {{a, b, zz}} = {len(enum)} calls")
    else:
        enum = enum_set_params_cases(2)
    cases += enum
    for c in cases:
        try:
            nt = nontrivial(c)
        except Exception:  # noqa: BLE001
            nt = False
        ctx.count(c, nt, c["kind"] + ("-c" if c.get("central") else "") + ("-u" if c.get("unknown") else ""))
        for o in c["ops"]:
            ctx.bump("op:" + o[0])
    run_standard(ctx, cases, impl_fn, coq_expr, compare, IMPORTS, candidates, sig_fn=sig_fn, call_fn=call_fn,
                 broken="correspondence DistModel.trace vs lymph.diagnosis_times (Distribution / Composite)", shard=12)
    free_family_relation(ctx)


def _free_family(support, s=1.0, c=0.0):
    """a user function outside the modelled families: any real parameters are valid (weights 1 + (s t + c)^2 > 0)"""
    return 1.0 + (s * support + c) ** 2


def free_family_relation(ctx: Ctx):
    """Implementation-only relation for parameter values the modelled families reject (negative numbers, R6-C18-m1:
    hash(-1) == hash(-2) in CPython): after every update the pmf equals the user function evaluated on the support by
    the harness itself and normalised -- on one object, on its copies, and per T-stage of a model."""
    from lymph import models
    from lymph.diagnosis_times import Distribution
    rng = ctx.rng
    vals = [-2, -1, -2.0, -1.0, 0, 0.0, 1, 2, 0.5, -0.5, 3.0]

    def oracle(maxt, kw):
        w = _free_family(np.arange(maxt + 1), **kw)
        return w / w.sum()

    def differs(p, q):
        return len(p) != len(q) or bool(np.max(np.abs(np.asarray(p, float) - q)) > 1e-9)
    n = 40 if ctx.tier == "quick" else 300
    for k in range(n):
        maxt = rng.randint(1, 4)
        hist, bad = [], None
        if k % 2 == 0:
            kw = {"s": rng.choice(vals), "c": rng.choice(vals)}
            d = Distribution(_free_family, max_time=maxt, **kw)
            hist.append(["Distribution(free_family)", maxt, dict(kw)])
            for _ in range(rng.randint(2, 5)):
                if differs(d.pmf, oracle(maxt, kw)):
                    bad = {"actual": [float(x) for x in d.pmf], "expected": oracle(maxt, kw).tolist()}
                    break
                upd = {name: rng.choice(vals) for name in rng.sample(["s", "c"], rng.randint(1, 2))}
                if rng.random() < 0.5:
                    d.set_params(**upd)
                    hist.append(["set_params", upd])
                else:
                    upd = {"s": upd.get("s", kw["s"])}
                    d.set_params(upd["s"])
                    hist.append(["set_params", [upd["s"]]])
                kw.update(upd)
            if bad is None and differs(d.pmf, oracle(maxt, kw)):
                bad = {"actual": [float(x) for x in d.pmf], "expected": oracle(maxt, kw).tolist()}
        else:
            m = models.Bilateral.binary(GRAPH, uni_kwargs={"max_time": maxt}) if k % 4 == 1 else models.Unilateral.binary(GRAPH, max_time=maxt)
            kws = {t: {"s": rng.choice(vals), "c": rng.choice(vals)} for t in ("early", "late")}
            for t, kw in kws.items():
                m.set_distribution(t, Distribution(_free_family, max_time=maxt, **kw))
            hist.append(["set_distribution per T-stage", maxt, {t: dict(v) for t, v in kws.items()}])
            for _ in range(rng.randint(1, 3)):
                t = rng.choice(["early", "late"])
                upd = {"s": rng.choice(vals)}
                m.set_distribution_params(**{f"{t}_s": upd["s"]})
                kws[t].update(upd)
                hist.append(["set_distribution_params", {f"{t}_s": upd["s"]}])
            leaves = [m] if k % 4 != 1 else [m.ipsi, m.contra]
            for leaf in leaves:
                for t in ("early", "late"):
                    if bad is None and differs(leaf.get_distribution(t).pmf, oracle(maxt, kws[t])):
                        bad = {"t_stage": t, "actual": [float(x) for x in leaf.get_distribution(t).pmf],
                               "expected": oracle(maxt, kws[t]).tolist()}
        ctx.bump("free-family history")
        if bad is not None:
            ctx.violation("pmf of a parametric distribution differs from its function evaluated on the support and normalised",
                          {"history": hist, "function": "weights(t) = 1 + (s*t + c)**2 (harness.props.c18._free_family)", **bad,
                           "call": "replay the history on lymph.diagnosis_times.Distribution / set_distribution_params; compare .pmf"},
                          {"class": "Distribution", "call": "pmf", "family": "user function"}, found_input=True)
            return


def fixed_cases():
    out = []
    # positional 0.0 accepted, keyword beats positional, unknown ignored, surplus returned
    out.append({"kind": "dist", "max_time": 3, "ops": [
        ["new", {"fam": 0}, 3, {"p": 0.25}],
        ["obj_set_params", 0, [0.0, 0.75], {}],
        ["obj_set_params", 0, [0.5], {"p": 0.75, "zz": 1.0}],
        ["obj_set_params", 0, [None, 0.125], {}],
        ["obj_set_params", 0, [1.5], {}],
        ["new", {"obj": 0}, None, {}],
        ["obj_set_params", 0, [0.125], {}],
        ["obj_set_max_time", 0, 1],
        ["new", {"list": [1.0, 2.0, 3.0]}, 3, {}],
    ]})
    # one object into both sides / all sub-models, then update one side and the source object
    for kind in ("bi", "mid"):
        out.append({"kind": kind, "max_time": 2, "central": False, "unknown": True, "ops": [
            ["new", {"fam": 1}, 2, {"a": 0.25}],
            ["set_dist", [], "early", {"obj": 0}],
            ["set_dist", [], "late", {"fam": 0}],
            ["cell_set_params", ["ipsi"] if kind == "bi" else ["ext", "contra"], "early", [1.0], {}],
            ["obj_set_params", 0, [2.0, 2.0, 7.0], {}],
            ["set_dist_params", [], [0.5, None, 0.0], {"late_p": 0.25}],
            ["set_dist_params", [], [0.5, 0.5, 0.5, 0.5], {}],
            ["set_max_time", [], 3],
            ["set_dist_params", [], [], {("contra_early_a" if kind == "bi" else "noext_contra_early_a"): 1.75}],
        ]})
    # two parametric T-stages with the SAME keyword name: a T-stage-prefixed keyword reaches that T-stage only, a bare
    # keyword both, positional values are consumed T-stage by T-stage (keyword beats positional without shifting)
    for kind in ("uni", "bi"):
        out.append({"kind": kind, "max_time": 3, "ops": [
            ["set_dist", [], "early", {"fam": 0}],
            ["set_dist", [], "late", {"fam": 0}],
            ["set_dist_params", [], [0.25, 0.75], {}],
            ["set_dist_params", [], [], {"early_p": 0.125}],
            ["set_dist_params", [], [], {"p": 0.5, "early_p": 0.375}],
            ["set_dist_params", [], [0.625, 0.875, 0.0625], {"early_p": 0.9375}],
            ["set_dist_params", [], [], {"late_p": 0.0}],
            ["set_max_time", [], 2],
            ["set_dist_params", [], [], {"early_p": 1.0}],
        ]})
    return out


def enum_set_params_cases(max_len: int):
    """Every call shape of Distribution.set_params on a two-parameter family: positional values from
    {None, 0.0, 0.5, -1.0} up to max_len, keyword subsets of {a, b, zz}; after a valid first update."""
    import itertools
    out = []
    vals = [None, 0.0, 0.5, -1.0]
    kws = [("a", 0.25), ("b", 2.0), ("zz", 1.0)]
    for n in range(max_len + 1):
        for args in itertools.product(vals, repeat=n):
            for mask in range(8):
                kw = {k: v for j, (k, v) in enumerate(kws) if mask >> j & 1}
                out.append({"kind": "dist", "max_time": 2, "ops": [
                    ["new", {"fam": 1}, 2, {"a": 1.5, "b": 0.75}],
                    ["obj_set_params", 0, list(args), kw]]})
    return out


def replay(ctx: Ctx, path: str) -> int:
    data = json.loads(open(path).read())
    bad = correspondence(ctx, [data["case"]], impl_fn, coq_expr, compare, IMPORTS, tag="replay")
    if bad:
        print("REPRODUCED", json.dumps(bad[0][1], default=str))
        return 1
    print("not reproduced")
    return 0
