"""C12: likelihood(given_params) scores exactly those values; rejected proposals do no harm.

A case is ONE model object (class x configuration x graph x distributions x tiny cohort), optionally put into a
random state by an initial valid keyword `set_params`, optionally with `named_params` declared, followed by an
interleaving of 2-6 evaluations `likelihood(given_params=g, log=...)` with valid and invalid proposals `g`
(list / dict / None; full, partial, surplus, unknown key).

Evaluated on /repo alone (the relations of the property, the failing-input search):
 (a) an invalid proposal returns exactly -inf (log) / 0.0 (log=False): no exception, no NaN, no other number;
 (b) get_params() (flat dict, nested dict, values) never raises, after every evaluation;
 (c) a valid FULL proposal returns what a FRESH object returns for it, whatever happened before, and leaves
     get_params(as_dict=False) == proposal;
 (d) a valid full proposal is scored at exactly those values: fresh.set_params(**dict(zip(names, v))) followed
     by fresh.likelihood() (position i of a list goes to name i of get_params());
 (f) a rejected distribution update leaves that distribution's keywords and pmf unchanged on every leaf;
 (x) an unknown key raises ExtraParamsError and changes nothing.
Tie with the Coq model (Safe.out_run on top of Params.v):
 (e) after EACH evaluation: outcome (returned / -inf / ExtraParamsError), get_params of the composite (flat names,
     order, values; nested), get_params of every leaf, mixing / midext_prob, keywords of every parametric
     distribution of every leaf.
HPVUnilateral: (a), (c), (d) failures are the known finding {"class": "HPVUnilateral", "call": "set_params"};
the Coq model is faithful to that plumbing, so (b), (e), (f), (x) are checked for HPV like for every other class.
"""
from __future__ import annotations

import copy
import json
import math
import time

import pandas as pd

from .. import gen, impl
from ..core import Ctx, HarnessError, jsonable, lst, run_coq_cases, shrink, tup
from . import c10
from .c10 import (all_configs, cmp_items, coq_model, coq_path, coq_val, cv, fv, gen_dists, gen_graph_for,
                  get_names, is_bad, leaves_of, observe, valid_value, _edge_names, _items, _opt)

IMPORTS = "Base States Linalg Graph Transition Observation Dist Unilateral Models Params ParamsStatements Safe"
TOL = 1e-9


def build(case):
    """c10.build without its declared-subset priming: here named_params is part of the case itself"""
    return c10.build(case, named_subset=False)


KNOWN_HPV = {"class": "HPVUnilateral", "call": "set_params"}
KINDS = ["neg", "over", "nan", "inf", "-inf", "fam"]
CHECKS = ["a", "b", "c", "d", "e", "f", "x"]
WHAT = {"a": "(a) an invalid proposal must return exactly -inf / 0.0",
        "b": "(b) get_params() must not raise after an evaluation",
        "c": "(c) a valid full proposal after a history must score like on a fresh model and leave the model at it",
        "d": "(d) a valid full proposal must be scored at exactly those values (fresh.set_params(**zip(names, v)))",
        "e": "(e) implementation differs from the Coq model Safe.out_run",
        "f": "(f) a rejected distribution update must leave the distribution unchanged",
        "x": "(x) an unknown key must raise ExtraParamsError and change nothing"}
FIXED_GRAPH = [["tumor", "T", ["II", "III"]], ["lnl", "II", ["III"]], ["lnl", "III", []]]
UNKNOWN_KEYS = ["foo", "XtoY_spread", "spread", "ipsi_spread", "late_q", "midext", "contra_QtoR_micro", "p"]
STATS = {}


def bump(key, n=1):
    STATS[key] = STATS.get(key, 0) + n


# --------------------------------------------------------------------------
# names, domains, classification of a proposal (harness' own reading of the statement)
# --------------------------------------------------------------------------
def names_of(case):
    return list(case["named"]) if case.get("named") else get_names(case)


def domain(case, name):
    """'unit' | ('fam', fam, keyword)"""
    parts = name.split("_")
    if len(parts) == 2 and parts[0] in case["dists"] and "fam" in case["dists"][parts[0]] \
            and parts[1] in case["dists"][parts[0]]["kw"]:
        return ("fam", case["dists"][parts[0]]["fam"], parts[1])
    return "unit"


def in_domain(case, name, x):
    if is_bad(x):
        return False
    x = fv(x)
    d = domain(case, name)
    if d == "unit" or d[1] == 0:
        return 0.0 <= x <= 1.0
    if d[2] == "a":
        return 0.0 <= x <= 100.0
    return 0.0 < x <= 100.0


def effective_items(case, step):
    """[(name, value)] that reach set_params; None for given_params=None"""
    if step["form"] == "none":
        return None
    if step["form"] == "list":
        return list(zip(names_of(case), [v for _, v in step["items"]] + list(step.get("surplus", []))))
    return [(k, v) for k, v in step["items"]]


def classify(case, step):
    """-> (class, bad names): 'none' | 'extra' | 'invalid' | 'valid-full' | 'valid-partial'"""
    eff = effective_items(case, step)
    if eff is None:
        return "none", []
    names = names_of(case)
    if step["form"] == "dict" and any(k not in names for k, _ in eff):
        return "extra", []
    last = dict(eff)
    bad = [k for k, v in last.items() if not in_domain(case, k, v)]
    if bad:
        return "invalid", bad
    return ("valid-full" if all(n in last for n in names) else "valid-partial"), []


def bad_kind(x) -> str:
    if is_bad(x):
        f = fv(x)
        return "nan" if math.isnan(f) else ("inf" if f > 0 else "-inf")
    return "neg" if fv(x) < 0 else ("over" if fv(x) > 1 else "zero")


def config_text(case) -> str:
    cls, cfg = case["cls"], case["cfg"]
    if cls == "Bilateral":
        return c10.config_text(case)
    if cls == "Midline":
        return (f"use_mixing={cfg['use_mixing']} {cfg['mode']} lnl_spread {'symmetric' if cfg['symL'] else 'asymmetric'} "
                f"marginalize_unknown={cfg['marg']}")
    return "-"


# --------------------------------------------------------------------------
# implementation side
# --------------------------------------------------------------------------
def cohort_table(case):
    cls = case["cls"]
    mods = [m[0] for m in case["mods"]]
    lnls = gen.lnls_of(case["graph"])
    pats = case["patients"]
    if cls in ("Unilateral", "HPVUnilateral"):
        df = impl.table_from_patients(pats, mods, lnls)
        if cls == "HPVUnilateral":
            df[("patient", "#", "hpv_status")] = pd.Series([p.get("hpv") for p in pats], dtype=object, index=df.index)
        return df
    return impl.table_from_patients(pats, mods, lnls, ("ipsi", "contra"), cls == "Midline")


def _late_stage(case):
    """a parametric T-stage that (in a deterministic third of the cases) is configured only AFTER a first evaluation"""
    import hashlib
    par = sorted(t for t, d in case["dists"].items() if "fam" in d)
    if not par or case["cls"] == "HPVUnilateral" or case.get("named"):
        return None
    h = int(hashlib.sha1(json.dumps(jsonable([case["graph"], case["dists"], case["mods"]]), sort_keys=True).encode()).hexdigest()[:8], 16)
    return par[h % len(par)] if h % 3 == 0 else None


def build_full(case, with_init=True, history=False):
    """the object at construction: class/config/graph/distributions (c10.build) + modalities + cohort; then the
    declared named_params and (with_init) the initial keyword set_params.
    history=True (the object under test only, never the fresh references): one parametric T-stage starts as a frozen
    distribution, a first likelihood(given_params=<own values>) is evaluated, and only then the T-stage gets its
    parametric distribution (same final configuration; the set of parameters grew after the first evaluation)."""
    late = _late_stage(case) if history else None
    if late is not None:
        c0 = dict(case)
        c0["dists"] = {t: ({"frozen": [1.0] * (case["max_time"] + 1)} if t == late else d) for t, d in case["dists"].items()}
        m = build(c0)
    else:
        m = build(case)
    for name, spec, sens, kind in case["mods"]:
        m.set_modality(name, spec, sens, kind)
    m.load_patient_data(cohort_table(case))
    if late is not None:
        try:
            m.likelihood(given_params=[float(v) for v in m.get_params(as_dict=False)])
        except Exception:  # noqa: BLE001
            pass
        impl.apply_dist(m, late, case["dists"][late])
    if with_init and case.get("init"):
        m.set_params(**{k: fv(v) for k, v in case["init"].items()})
    if case.get("named"):
        m.named_params = list(case["named"])
    return m


def given_of(step):
    if step["form"] == "none":
        return None
    if step["form"] == "list":
        return [fv(v) for _, v in step["items"]] + [fv(x) for x in step.get("surplus", [])]
    return {k: fv(v) for k, v in step["items"]}


def dist_obs(case, m):
    """[[leaf, [[t, [[keyword, value]], pmf]]]] for the parametric distributions, T-stages sorted"""
    out = []
    for name, leaf in leaves_of(case, m):
        per = []
        for t in sorted(case["dists"]):
            if "fam" not in case["dists"][t]:
                continue
            d = leaf.get_distribution(t)
            try:
                pmf = [float(x) for x in d.pmf]
            except Exception as e:  # noqa: BLE001
                pmf = [f"pmf raised {impl.err_enum(e)}"]
            per.append([t, [[k, float(v)] for k, v in d.get_params(as_dict=True).items()], pmf])
        out.append([name, per])
    return out


def lik_equal(a, e, log) -> bool:
    if a is None or e is None:
        return False
    if math.isnan(a) or math.isnan(e):
        return False
    if math.isinf(a) or math.isinf(e):
        return a == e
    if log:
        return abs(a - e) <= TOL * max(1.0, abs(e))
    return abs(a - e) <= TOL * max(abs(a), abs(e)) + 1e-300


def vec_equal(a, e) -> bool:
    return a is not None and len(a) == len(e) and all(c10.close(x, fv(y)) for x, y in zip(a, e))


_FRESH = {}


def fresh_refs(case, step, names):
    """(c): a fresh object evaluates the same proposal; (d): fresh.set_params(**zip(names, v)); fresh.likelihood()
    With a declared strict subset of names the undeclared parameters keep the state of the initial set_params, so
    the fresh object gets that initial call as well; with all names declared it does not (the history must not matter)."""
    subset = bool(case.get("named")) and set(case["named"]) != set(get_names(case))
    key = json.dumps(jsonable([{k: case[k] for k in ("cls", "cfg", "graph", "max_time", "dists", "mods", "patients", "named")},
                               case.get("init") if subset else None,
                               {k: step.get(k) for k in ("form", "items", "surplus", "log")}]), sort_keys=True)
    if key in _FRESH:
        return _FRESH[key]
    log = step["log"]
    out = {}
    try:
        f1 = build_full(case, with_init=subset)
        out["c"] = float(f1.likelihood(given_params=given_of(step), log=log))
    except Exception as e:  # noqa: BLE001
        out["c"] = None
        out["c_err"] = repr(e)[:200]
    try:
        f2 = build_full(case, with_init=subset)
        last = dict(effective_items(case, step))
        f2.set_params(**{n: fv(last[n]) for n in names})
        out["d"] = float(f2.likelihood(log=log))
    except Exception as e:  # noqa: BLE001
        out["d"] = None
        out["d_err"] = repr(e)[:200]
    if len(_FRESH) > 20000:
        _FRESH.clear()
    _FRESH[key] = out
    return out


def impl_eval(case):
    """-> (failures, steps). failure = {check, step, kind, actual, expected, ...}; steps feed the correspondence."""
    fails = []
    steps = []

    def fail(check, k, kind, **kw):
        fails.append({"check": check, "step": k, "kind": kind, **kw})

    try:
        m = build_full(case, history=True)
    except Exception as e:  # noqa: BLE001
        fail("b", -1, "constructor", actual=f"building the model raised {impl.err_enum(e)}: {repr(e)[:200]}",
             expected="no exception")
        return fails, None
    names = names_of(case)
    try:
        own = list(m.get_params(as_dict=True).keys())
    except Exception as e:  # noqa: BLE001
        own = None
        fail("b", -1, "fresh", actual=f"get_params raised {impl.err_enum(e)}", expected="no exception")
    if own is not None and not case.get("named") and own != names:
        fail("d", -1, "names", actual=own, expected=names, detail="names / order of get_params()")
    prev = None
    for k, step in enumerate(case["steps"]):
        kls, bad = classify(case, step)
        kind = "valid" if kls.startswith("valid") else kls
        if kls == "invalid":
            eff = dict(effective_items(case, step))
            kind = step.get("kind") or bad_kind(eff[bad[0]])
        log = step["log"]
        try:
            if prev is None:
                prev = {"obs": observe(case, m), "dists": dist_obs(case, m)}
        except Exception:  # noqa: BLE001
            prev = None
        res, exc, excrepr = None, None, None
        try:
            res = float(m.likelihood(given_params=given_of(step), log=log))
        except Exception as e:  # noqa: BLE001
            exc, excrepr = impl.err_enum(e), repr(e)[:200]
        st = {"res": res, "exc": exc, "class": kls, "kind": kind}
        try:
            st["obs"] = observe(case, m)
            st["dists"] = dist_obs(case, m)
        except Exception as e:  # noqa: BLE001
            bump("checks_b")
            fail("b", k, kind, actual=f"observing the model raised {impl.err_enum(e)}: {repr(e)[:200]}", expected="no exception")
            steps.append(st)
            break
        steps.append(st)
        o = st["obs"]
        # (b)
        bump("checks_b")
        if o["flat"] is None or o["nested"] is None or o["values"] is None:
            fail("b", k, kind, actual=f"get_params raised {o.get('flat_err', 'ValueError/KeyError')}", expected="no exception")
        if kls == "extra":
            bump("checks_x")
            if exc != "ExtraParamsError":
                fail("x", k, kind, actual=exc or f"returned {res}", expected="ExtraParamsError")
            elif prev is not None and (jsonable(prev["obs"]) != jsonable(o) or jsonable(prev["dists"]) != jsonable(st["dists"])):
                fail("x", k, kind, actual="state changed", expected="state unchanged", before=prev["obs"], after=o)
        elif kls == "invalid":
            bump("checks_a")
            want = -math.inf if log else 0.0
            if exc is not None:
                fail("a", k, kind, actual=f"raised {exc}: {excrepr}", expected=want, bad=bad)
            elif not (res == want):
                fail("a", k, kind, actual=res, expected=want, bad=bad)
            # (f)
            for nm in bad:
                d = domain(case, nm)
                if d == "unit" or prev is None:
                    continue
                bump("checks_f")
                t = nm.split("_")[0]
                for (leaf, before), (_, after) in zip(prev["dists"], st["dists"]):
                    bt = [x for x in before if x[0] == t]
                    at = [x for x in after if x[0] == t]
                    same = (len(bt) == len(at) and all(
                        [kk for kk, _ in b[1]] == [kk for kk, _ in a[1]]
                        and all(c10.close(av, bv) for (_, av), (_, bv) in zip(a[1], b[1]))
                        and len(a[2]) == len(b[2]) and all(not isinstance(av, str) and not isinstance(bv, str)
                                                           and c10.close(av, bv) for av, bv in zip(a[2], b[2]))
                        for a, b in zip(at, bt)))
                    if not same:
                        fail("f", k, kind, leaf=leaf, t_stage=t, actual=at, expected=bt, bad=bad)
                        break
        else:
            if exc is not None:
                fail("d", k, kind, actual=f"raised {exc}: {excrepr}", expected="a number")
            elif math.isnan(res):
                fail("d", k, kind, actual=res, expected="a number or -inf")
            elif kls == "valid-full":
                last = dict(effective_items(case, step))
                v = [last[n] for n in names]
                ref = fresh_refs(case, step, names)
                bump("checks_c")
                if not lik_equal(res, ref["c"], log):
                    fail("c", k, kind, actual=res, expected=ref["c"], detail="value on a fresh model " + ref.get("c_err", ""))
                else:
                    if case.get("named") and o["flat"] is not None:       # declared names: compare by name
                        fl = dict((a, b) for a, b in o["flat"])
                        got = [fl.get(n) for n in names]
                    else:
                        got = o["values"]
                    if got is None or any(g is None for g in got) or not vec_equal(got, v):
                        fail("c", k, kind, actual=got, expected=[fv(x) for x in v], detail="get_params after the evaluation")
                bump("checks_d")
                if not lik_equal(res, ref["d"], log):
                    fail("d", k, kind, actual=res, expected=ref["d"],
                         detail="fresh.set_params(**dict(zip(names, v))); fresh.likelihood() " + ref.get("d_err", ""))
        prev = {"obs": o, "dists": st["dists"]}
    return fails, steps


# --------------------------------------------------------------------------
# model side
# --------------------------------------------------------------------------
def coq_given(step) -> str:
    if step["form"] == "none":
        return "GNone"
    if step["form"] == "list":
        return f"(GList {lst([coq_val(v) for _, v in step['items']] + [coq_val(x) for x in step.get('surplus', [])])})"
    return f"(GDict {lst(tup(coq_path(k), coq_val(v)) for k, v in step['items'])})"


def coq_expr(case) -> str:
    m = coq_model(case)
    if case.get("init"):
        kw = lst(tup(coq_path(k), coq_val(v)) for k, v in case["init"].items())
        m = f"(fst (set_params {m} [] {kw}))"
    np_ = "None" if not case.get("named") else f"(Some {lst(coq_path(n) for n in case['named'])})"
    return f"out_run {np_} {m} {lst(coq_given(st) for st in case['steps'])}"


def model_steps(val):
    from fractions import Fraction
    out = []
    for tag, om, dists in val:
        flat, nested, leaves, (mixing, midext) = om
        out.append({"tag": int(tag),
                    "flat": None if _opt(flat) is None else _items(_opt(flat)),
                    "nested": None if _opt(nested) is None else _items(_opt(nested)),
                    "leaves": [["_".join(p), _items(it)] for p, it in leaves],
                    "mixing": None if _opt(mixing) is None else Fraction(*_opt(mixing)),
                    "midext": Fraction(*midext),
                    "dists": [["_".join(p), sorted([[t, [[k, Fraction(*nd)] for k, nd in kws]] for t, kws in ds])]
                              for p, ds in dists]})
    return out


TAGS = {0: "returned a value", 1: "returned -inf / 0.0", 2: "ExtraParamsError", 3: "KeyError"}


def corr_compare(case, steps, val):
    """(e): first mismatch between the observed steps and Safe.out_run, or None"""
    ms = model_steps(val)
    if len(ms) < len(steps):
        raise HarnessError("model returned fewer steps than evaluated")
    for k, (st, mo) in enumerate(zip(steps, ms)):
        where = {"check": "e", "step": k, "kind": st["kind"]}
        bump("checks_e")
        log = case["steps"][k]["log"]
        tag = mo["tag"]
        if tag in (2, 3):
            if st["exc"] != TAGS[tag]:
                return {**where, "observable": "outcome", "actual": st["exc"] or f"returned {st['res']}", "expected": TAGS[tag]}
        else:
            if st["exc"] is not None:
                return {**where, "observable": "outcome", "actual": f"raised {st['exc']}", "expected": TAGS[tag]}
            if tag == 1 and not st["res"] == (-math.inf if log else 0.0):
                return {**where, "observable": "outcome", "actual": f"returned {st['res']}", "expected": TAGS[tag]}
        if "obs" not in st or "dists" not in st:
            return {**where, "observable": "get_params", "actual": "observing raised", "expected": "no exception"}
        o = st["obs"]
        for what, act, exp in (("get_params(as_dict=True)", o["flat"], mo["flat"]),
                               ("get_params(as_flat=False)", o["nested"], mo["nested"])):
            d = cmp_items(what, act, exp)
            if d:
                return {**where, **d}
        if [n for n, _ in o["leaves"]] != [n for n, _ in mo["leaves"]]:
            return {**where, "observable": "sub-models", "actual": [n for n, _ in o["leaves"]],
                    "expected": [n for n, _ in mo["leaves"]]}
        for (n, act), (_, exp) in zip(o["leaves"], mo["leaves"]):
            d = cmp_items(f"{n}.get_params()" if n else "get_params()", act, exp)
            if d:
                return {**where, **d}
        if case["cls"] == "Midline":
            if (o["mixing"] is None) != (mo["mixing"] is None) or (o["mixing"] is not None and not c10.close(o["mixing"], mo["mixing"])):
                return {**where, "observable": "mixing_param", "actual": o["mixing"],
                        "expected": None if mo["mixing"] is None else float(mo["mixing"])}
            if not c10.close(o["midext"], mo["midext"]):
                return {**where, "observable": "midext_prob", "actual": o["midext"], "expected": float(mo["midext"])}
        if [n for n, _ in st["dists"]] != [n for n, _ in mo["dists"]]:
            return {**where, "observable": "sub-models (distributions)", "actual": [n for n, _ in st["dists"]],
                    "expected": [n for n, _ in mo["dists"]]}
        for (n, act), (_, exp) in zip(st["dists"], mo["dists"]):
            if [t for t, *_ in act] != [t for t, _ in exp]:
                return {**where, "observable": f"{n or 'model'}: parametric distributions", "actual": [t for t, *_ in act],
                        "expected": [t for t, _ in exp]}
            for (t, akw, _pmf), (_, ekw) in zip(act, exp):
                d = cmp_items(f"{(n + '.') if n else ''}get_distribution('{t}').get_params()", akw, ekw)
                if d:
                    return {**where, **d}
    return None


def _eval_one(c):
    """-> (failures, steps, counters of this evaluation); never raises"""
    before = dict(STATS)
    try:
        fs, steps = impl_eval(c)
    except Exception as e:  # noqa: BLE001
        fs, steps = [{"check": "b", "step": -1, "kind": "harness", "actual": f"evaluating the case raised {repr(e)[:300]}",
                      "expected": "no exception"}], None
    return fs, steps, {k: v - before.get(k, 0) for k, v in STATS.items() if v != before.get(k, 0)}


def _eval_all(cases):
    """implementation side of all cases; large batches (thorough tier) in forked worker processes, in order"""
    if len(cases) >= 400:
        try:
            import multiprocessing as mp
            import os
            workers = max(2, min(8, (os.cpu_count() or 2) // 2))
            with mp.get_context("fork").Pool(workers) as pool:
                res = pool.map(_eval_one, cases, chunksize=max(1, len(cases) // (workers * 4)))
            for _, _, delta in res:                 # the workers' counters
                for k, v in delta.items():
                    bump(k, v)
            return [(fs, steps) for fs, steps, _ in res]
        except Exception:  # noqa: BLE001  (no fork available: evaluate serially)
            pass
    return [_eval_one(c)[:2] for c in cases]


def failing(ctx, cases, tag, with_coq=True):
    """-> list (one per case) of failure lists"""
    out = []
    steps_all = []
    for fs, steps in _eval_all(cases):
        out.append(fs)
        steps_all.append(steps)
    if with_coq:
        idx = [i for i, s_ in enumerate(steps_all) if s_ is not None]
        vals = run_coq_cases(ctx.work / tag, [coq_expr(cases[i]) for i in idx], IMPORTS, shard=40)
        for i, v in zip(idx, vals):
            mm = corr_compare(cases[i], steps_all[i], v)
            if mm is not None:
                out[i].append(mm)
    return out


# --------------------------------------------------------------------------
# generation
# --------------------------------------------------------------------------
def lnl_later_positions(case, names):
    T, L = _edge_names(case["graph"])
    is_lnl = [any(nm == l or nm.endswith("_" + l) for l in L) for nm in names]
    return [i for i in range(len(names)) if is_lnl[i] and i > 0 and is_lnl[i - 1]]


def bad_value(rng, case, name, kind):
    d = domain(case, name)
    if kind == "nan":
        return "nan"
    if kind in ("inf", "-inf"):
        return kind
    if d == "unit" or d[1] == 0:
        if kind == "neg":
            return rng.choice([-1 / 16, -1 / 16, -1e-9])
        if kind == "over":
            return rng.choice([17 / 16, 17 / 16, 1.0 + 2.0 ** -30])
        return rng.choice([1.5, -0.25])          # 'fam' (fam0: p = 1.5 / -0.25)
    if d[2] == "a":
        return {"neg": -1 / 16, "over": 101.0}.get(kind, rng.choice([-1.0, 101.0]))
    return {"neg": -1 / 16, "over": 101.0}.get(kind, rng.choice([0.0, -1.0, 101.0]))


def gen_cohort(rng, case, n_pat=None):
    cls = case["cls"]
    lnls = gen.lnls_of(case["graph"])
    mod = rng.choice(gen.MOD_NAMES)
    case["mods"] = [[mod, rng.randint(9, 15) / 16.0, rng.randint(9, 15) / 16.0, rng.choice(["clinical", "pathological"])]]
    n = n_pat or rng.randint(1, 4)
    sides = ("ipsi",) if cls in ("Unilateral", "HPVUnilateral") else ("ipsi", "contra")
    ts = [t for st in case["dists"] for t in ([0, 1, 2] if st == "early" else [3, 4])] or [0, 1, 2, 3, 4]
    pats = []
    for i in range(n):
        p = gen.gen_patient(rng, [mod], lnls, sides, cls == "Midline")
        p["t"] = rng.choice(ts) if (i == 0 or rng.random() < 0.8) else rng.choice([0, 1, 2, 3, 4])
        if p.get("central") is True:
            p["ext"] = True
        if cls == "HPVUnilateral":
            p["hpv"] = rng.choice([True, False, True, False, None])
        pats.append(p)
    case["patients"] = pats


def gen_valid_items(rng, case, names):
    return [[nm, valid_value(rng, nm)] for nm in names]


def gen_step(rng, case, kls):
    names = names_of(case)
    n = len(names)
    log = rng.random() >= 0.2
    items = gen_valid_items(rng, case, names)
    if kls == "none":
        return {"form": "none", "items": [], "log": log}
    if kls == "extra":
        sub = [it for it in items if rng.random() < 0.6]
        pool = UNKNOWN_KEYS + [x for x in get_names(case) if x not in names]
        key = rng.choice([u for u in pool if u not in names])
        sub.insert(rng.randint(0, len(sub)), [key, cv(rng.choice([0.5, 0.25, float("nan"), 1.5]))])
        return {"form": "dict", "items": sub, "log": log}
    if kls == "valid-short":
        return {"form": "list", "items": items[:rng.randint(0, max(0, n - 1))], "log": log}
    if kls == "valid-surplus":
        sur = [cv(rng.choice([gen.gen_value(rng), gen.gen_value(rng), float("nan"), 1.5, -1.0])) for _ in range(rng.randint(1, 3))]
        return {"form": "list", "items": items, "surplus": sur, "log": log}
    if kls == "valid-subset":
        sub = [it for it in items if rng.random() < 0.5]
        rng.shuffle(sub)
        return {"form": "dict", "items": sub, "log": log}
    form = rng.choice(["list", "list", "list", "dict", "dict", "subset"])
    kind = None
    bad_idx = []
    if kls == "invalid":
        later = lnl_later_positions(case, names)
        dpos = [i for i, nm in enumerate(names) if domain(case, nm) != "unit"]
        r = rng.random()
        if later and r < 0.45:
            bad_idx = [rng.choice(later)]
        elif dpos and r < 0.75:
            bad_idx = [rng.choice(dpos)]
        else:
            bad_idx = [rng.randrange(n)]
        # half of the invalid steps walk systematically through (kind of parameter) x (kind of invalid value), so that
        # rare pairs (NaN for a micro modifier, +inf for mixing ...) occur in every run
        forced = None
        if rng.random() < 0.5:
            global _SYS
            _SYS += 1
            classes = sorted({nm.rsplit("_", 1)[-1] for nm in names})
            cl = classes[_SYS % len(classes)]
            bad_idx = [rng.choice([i for i, nm in enumerate(names) if nm.rsplit("_", 1)[-1] == cl])]
            forced = KINDS[(_SYS // len(classes)) % 5]
        if rng.random() < 0.15 and n > 1:
            bad_idx.append(rng.choice([i for i in range(n) if i != bad_idx[0]]))
        for j, i in enumerate(bad_idx):
            kk = rng.choice(KINDS if domain(case, names[i]) != "unit" else KINDS[:5])
            if j == 0 and forced is not None:
                kk = forced
            if j == 0:
                kind = kk
            items[i][1] = cv(bad_value(rng, case, names[i], kk))
    if form == "list":
        if kls == "invalid" and rng.random() < 0.15:          # a short list that still contains the bad position
            items = items[:max(bad_idx) + 1 + rng.randint(0, n - max(bad_idx) - 1)]
        st = {"form": "list", "items": items, "log": log}
    else:
        if form == "subset" and kls == "invalid":
            items = [it for i, it in enumerate(items) if i in bad_idx or rng.random() < 0.5]
        if rng.random() < 0.8:
            rng.shuffle(items)
        st = {"form": "dict", "items": items, "log": log}
    if kind:
        st["kind"] = kind
    return st


_SYS = 0
STEP_KINDS = (["valid-full"] * 7 + ["invalid"] * 9 + ["valid-subset", "valid-short", "valid-surplus", "extra", "none"])


def pick_config(rng):
    cfgs = all_configs()
    r = rng.random()
    if r < 0.17:
        return cfgs[0]
    if r < 0.42:
        return rng.choice(cfgs[1:5])
    if r < 0.9:
        return rng.choice(cfgs[5:-1])
    return cfgs[-1]


def gen_case(rng, cls=None, cfg=None, base=None):
    if cls is None:
        cls, cfg = pick_config(rng)
    base = base or rng.choice([2, 2, 3])
    g = gen_graph_for(rng, cls, base, 3 if base == 2 else 2)
    mt = rng.randint(1, 3)
    case = {"cls": cls, "cfg": cfg, "graph": g, "max_time": mt, "dists": gen_dists(rng, mt, p_none=0.0),
            "named": None, "init": None, "steps": []}
    if rng.random() < 0.25 and not any("fam" in d for d in case["dists"].values()):
        t = list(case["dists"])[0]
        case["dists"][t] = {"fam": 1, "kw": {"a": 0.5, "b": 1.0}} if rng.random() < 0.5 else {"fam": 0, "kw": {"p": 0.25}}
    gen_cohort(rng, case)
    full = get_names(case)
    if rng.random() < 0.5:
        case["init"] = {nm: valid_value(rng, nm) for nm in full}
    r = rng.random()
    if r < 0.12 and len(full) >= 3:
        sub = [nm for nm in full if rng.random() < 0.6]
        if len(sub) < 2:
            sub = full[:2]
        if rng.random() < 0.3:
            rng.shuffle(sub)
        case["named"] = sub
    elif r < 0.16:
        case["named"] = list(full)                 # declared, all names (same as the default)
    n = rng.randint(2, 6)
    kinds = [rng.choice(STEP_KINDS) for _ in range(n)]
    if "invalid" not in kinds:
        kinds[rng.randrange(n - 1) if n > 1 else 0] = "invalid"
    if rng.random() < 0.8:
        kinds[-1] = "valid-full"
    elif not any(k.startswith("valid") for k in kinds):
        kinds[rng.randrange(n)] = "valid-full"
    case["steps"] = [gen_step(rng, case, k) for k in kinds]
    # directed (R6-C12-m2): after a rejected full-length list proposal, a valid proposal that REPEATS what the part of the
    # model assigned before the rejection now holds (the rejected proposal's values before its first invalid position, the
    # last fully accepted values from there on): parts that are kept in step by copying must be copied again
    names = names_of(case)
    cur = None if case["init"] is None or set(case["init"]) != set(names) else [[nm, case["init"][nm]] for nm in names]
    out = []
    for st in case["steps"]:
        out.append(st)
        try:
            kls, bad = classify(case, st)
        except Exception:  # noqa: BLE001
            continue
        full_list = st["form"] == "list" and len(st["items"]) == len(names) and not st.get("surplus")
        if kls == "valid-full" and full_list:
            cur = [[nm, v] for nm, (_, v) in zip(names, st["items"])]
        elif kls == "valid-full":
            cur = None if st["form"] != "dict" else [[nm, dict((k, v) for k, v in st["items"])[nm]] for nm in names]
        elif kls.startswith("valid"):
            cur = None
        elif kls == "invalid" and full_list and cur is not None and rng.random() < 0.6:
            first = min(names.index(b) for b in bad)
            if first > 0:
                rep = [[nm, (st["items"][k][1] if k < first else cur[k][1])] for k, nm in enumerate(names)]
                out.append({"form": rng.choice(["list", "dict"]), "items": rep, "log": st["log"]})
                cur = rep
        elif kls == "invalid":
            cur = None
    case["steps"] = out
    case["kind"] = "random"
    return case


def exhaustive_cases(base):
    """fixed 2-LNL graph, every class / configuration: [valid, invalid, valid] with the invalid value at every
    position x every invalid kind (5 for spread-like parameters, 6 for distribution parameters), list form;
    the same in dict form (all names, reversed order) for every position x {neg}"""
    out = []
    g = {"base": base, "entries": copy.deepcopy(FIXED_GRAPH)}
    pat = {"t": 1, "find": {"CT": {"ipsi": {"II": True, "III": False}, "contra": {"II": False, "III": None}}},
           "ext": True, "central": False, "hpv": True}
    pat2 = {"t": 3, "find": {"CT": {"ipsi": {"II": None, "III": True}, "contra": {"II": True, "III": False}}},
            "ext": False, "central": False, "hpv": False}
    fixed = {"neg": -1 / 16, "over": 17 / 16, "nan": "nan", "inf": "inf", "-inf": "-inf"}
    for cls, cfg in all_configs():
        proto = {"cls": cls, "cfg": cfg, "graph": g, "max_time": 2,
                 "dists": {"early": {"fam": 0, "kw": {"p": 0.25}}, "late": {"fam": 1, "kw": {"a": 0.5, "b": 1.0}}},
                 "mods": [["CT", 0.875, 0.75, "clinical"]], "patients": [pat, pat2], "named": None, "init": None,
                 "steps": [], "kind": "exhaustive"}
        if cls in ("Unilateral", "HPVUnilateral"):
            proto["patients"] = [{**p, "find": {"CT": {"ipsi": p["find"]["CT"]["ipsi"]}}} for p in (pat, pat2)]
        names = get_names(proto)

        def val(i, nm, shift):
            last = nm.split("_")[-1]
            if last == "a":
                return 0.25 + 0.25 * shift
            if last == "b":
                return 1.0 + 0.5 * shift
            return (1 + ((i * 5 + 3 * shift) % 7)) / 8.0
        v1 = [[nm, val(i, nm, 0)] for i, nm in enumerate(names)]
        v2 = [[nm, val(i, nm, 1)] for i, nm in enumerate(names)]
        mid = [[nm, val(i, nm, 2)] for i, nm in enumerate(names)]
        for i, nm in enumerate(names):
            d = domain(proto, nm)
            for kind in KINDS:
                if kind == "fam":
                    if d == "unit":
                        continue
                    x = 1.5 if d[1] == 0 else (101.0 if d[2] == "a" else 0.0)
                elif d != "unit" and d[1] == 1 and kind == "over":
                    x = 101.0
                else:
                    x = fixed[kind]
                forms = ["list"] + (["dict"] if kind == "neg" else [])
                for form in forms:
                    bad = copy.deepcopy(mid)
                    bad[i][1] = x
                    if form == "dict":
                        bad = bad[::-1]
                    c = copy.deepcopy(proto)
                    c["steps"] = [{"form": "list", "items": copy.deepcopy(v1), "log": True},
                                  {"form": form, "items": bad, "log": True, "kind": kind},
                                  {"form": "list", "items": copy.deepcopy(v2), "log": True}]
                    out.append(c)
    return out


def nontrivial(case) -> bool:
    kl = [classify(case, st)[0] for st in case["steps"]]
    vals = [fv(v) for st in case["steps"] for _, v in st["items"] if not is_bad(v)]
    return "invalid" in kl and any(k.startswith("valid") for k in kl) and any(0.0 < x < 1.0 for x in vals)


# --------------------------------------------------------------------------
# shrinking and reporting
# --------------------------------------------------------------------------
def _drop_names(case, drop):
    case["init"] = None if not case.get("init") else {k: v for k, v in case["init"].items() if k not in drop}
    if case.get("named"):
        case["named"] = [n for n in case["named"] if n not in drop]
    for st in case["steps"]:
        st["items"] = [it for it in st["items"] if it[0] not in drop]


def candidates(case):
    return candidates_struct(case) + candidates_values(case)


def candidates_struct(case):
    """fewer evaluations, no initial state, one patient, fewer distributions, no surplus"""
    out = []
    steps = case["steps"]
    if len(steps) > 1:
        for k in range(len(steps)):
            c = copy.deepcopy(case)
            del c["steps"][k]
            out.append(c)
    if case.get("init"):
        c = copy.deepcopy(case)
        c["init"] = None
        out.append(c)
    if case.get("named") and list(case["named"]) == get_names(case):
        c = copy.deepcopy(case)
        c["named"] = None
        out.append(c)
    if len(case["patients"]) > 1:
        staged = [t for st in case["dists"] for t in ([0, 1, 2] if st == "early" else [3, 4])]
        for p in sorted(case["patients"], key=lambda p: p["t"] not in staged)[:2]:
            c = copy.deepcopy(case)
            c["patients"] = [copy.deepcopy(p)]
            out.append(c)
    if len(case["dists"]) > 1:                     # keep one: without any distribution the likelihood is constant
        for t in list(case["dists"]):
            c = copy.deepcopy(case)
            d = c["dists"].pop(t)
            if "fam" in d:
                _drop_names(c, {f"{t}_{k}" for k in d["kw"]})
            if c.get("named") is not None and len(c["named"]) == 0:
                continue
            out.append(c)
    for k, st in enumerate(steps):
        if st.get("surplus"):
            c = copy.deepcopy(case)
            c["steps"][k]["surplus"] = []
            out.append(c)
    return out


def candidates_values(case):
    """valid values to 1/2, dict proposals without the items that do not matter"""
    out = []
    steps = case["steps"]
    # all valid unit values of one step to 1/2 at once, then one by one
    for k, st in enumerate(steps):
        idx = [i for i, (nm, x) in enumerate(st["items"]) if domain(case, nm) == "unit" and nm in names_of(case)
               and in_domain(case, nm, x) and fv(x) != 0.5]
        if len(idx) > 1:
            c = copy.deepcopy(case)
            for i in idx:
                c["steps"][k]["items"][i][1] = 0.5
            out.append(c)
    if case.get("init"):
        idx = [nm for nm, x in case["init"].items() if domain(case, nm) == "unit" and fv(x) != 0.5]
        if idx:
            c = copy.deepcopy(case)
            for nm in idx:
                c["init"][nm] = 0.5
            out.append(c)
    for k, st in enumerate(steps):
        for i, (nm, x) in enumerate(st["items"]):
            if domain(case, nm) == "unit" and in_domain(case, nm, x) and fv(x) != 0.5 and nm in names_of(case):
                c = copy.deepcopy(case)
                c["steps"][k]["items"][i][1] = 0.5
                out.append(c)
    # dict proposals: drop one valid item (keeps an invalid / unknown one)
    for k, st in enumerate(steps):
        if st["form"] == "dict" and classify(case, st)[0] in ("invalid", "extra"):
            for i, (nm, x) in enumerate(st["items"]):
                if nm in names_of(case) and in_domain(case, nm, x):
                    c = copy.deepcopy(case)
                    del c["steps"][k]["items"][i]
                    out.append(c)
    return out


def call_text(case) -> str:
    def fmt(st):
        g = given_of(st)
        if isinstance(g, list):
            g = "[" + ", ".join(repr(x) for x in g) + "]"
        return f"likelihood(given_params={g}" + ("" if st["log"] else ", log=False") + ")"
    parts = [f"m = {case['cls']}.{'trinary' if case['graph']['base'] == 3 else 'binary'}(graph={gen.graph_dict(case['graph'])}, {case['cfg']}, max_time={case['max_time']}); "
             f"distributions {case['dists']}; modality {case['mods']}; {len(case['patients'])} patient(s)"]
    if _late_stage(case) is not None:
        parts[0] += (f"; history: T-stage {_late_stage(case)!r} first held a frozen distribution, one likelihood(given_params=<own values>) "
                     "was evaluated, then it got the parametric distribution above")
    if case.get("init"):
        parts.append(f"m.set_params(**{case['init']})")
    if case.get("named"):
        parts.append(f"m.named_params = {case['named']}")
    parts += ["m." + fmt(st) for st in case["steps"]]
    return "; ".join(parts)


def signature(case, f):
    hpv_known = case["cls"] == "HPVUnilateral" and f["check"] in ("a", "c", "d")
    if hpv_known:
        return {**KNOWN_HPV, "observable": f["check"], "kind": f["kind"]}
    return {"class": case["cls"], "config": config_text(case), "call": "likelihood(given_params)",
            "observable": f["check"], "kind": f["kind"]}


def report(ctx, case, f):
    check = f["check"]
    sig0 = signature(case, f)
    if sig0.get("call") == "set_params":           # known finding: no shrinking needed
        ctx.violation(WHAT[check], {"case": case, "failure": f, "call": call_text(case)}, sig0)
        return
    def still(cs):
        res = failing(ctx, cs, "shrink", with_coq=(check == "e"))
        return [any(x["check"] == check for x in fs) for fs in res]
    small = shrink(ctx, case, candidates_struct, still, max_rounds=30, budget_s=20.0, max_cands=16)
    small = shrink(ctx, small, candidates_values, still, max_rounds=40, budget_s=15.0, max_cands=12)
    small = shrink(ctx, small, candidates_struct, still, max_rounds=10, budget_s=5.0, max_cands=16)
    fs = [x for x in failing(ctx, [small], "final", with_coq=(check == "e"))[0] if x["check"] == check]
    if not fs:
        small, fs = case, [f]
    f2 = fs[0]
    k = f2["step"]
    ctx.violation(f"{WHAT[check]} ({case['cls']}, {config_text(case)}, {f2['kind']})",
                  {"case": small, "failure": f2, "failing_step": None if k < 0 else small["steps"][k],
                   "expected": f2.get("expected"), "actual": f2.get("actual"), "names": names_of(small),
                   "call": call_text(small),
                   "broken": ("correspondence Safe.out_run vs /repo (C12 theorems are about this model)" if check == "e"
                              else "C12 relation evaluated on /repo")},
                  signature(small, f2))


# --------------------------------------------------------------------------
def run(ctx: Ctx, a_ok: bool):
    STATS.clear()
    _FRESH.clear()
    ctx.cone = ["Safe.likelihood_given / run_given", "Safe.set_named_params / named_params", "Safe.safe_set_params",
                "Params.set_params of Unilateral, Bilateral, Midline, HPVUnilateral (incl. partial updates when a setter raises)",
                "Params.dist_set_params (restore on ValueError)", "Params.check_unit (range checks of spread, micro, mixing, midext_prob)",
                "Dist.fam_weights (validity only)"]
    ctx.rule = ("model class x configuration (Unilateral; Bilateral 4 symmetry settings; Midline use_mixing x {central, "
                "midext_evo, neither} x lnl symmetry x marginalize_unknown; HPVUnilateral) x random graph (1-3 LNLs binary, "
                "1-2 trinary) x frozen / parametric (fam0, fam1) distributions x 1 modality x 1-4 patients x optional "
                "initial keyword set_params x optional declared named_params x an interleaving of 2-6 evaluations "
                "likelihood(given_params=g, log) with g valid-full / invalid (one or two positions replaced by -eps, 1+eps, "
                "NaN, +inf, -inf or a value the family rejects; biased to later LNL-spread and distribution parameters) / "
                "subset / short list / surplus list / unknown key / None, in list and dict form; non-trivial iff the "
                "interleaving contains at least one rejected and one valid proposal and some value strictly inside (0,1)")
    rng = ctx.rng
    n = 200 if ctx.tier == "quick" else 1000
    cfgs = all_configs()
    cases = []
    for i in range(n):
        if i < 2 * len(cfgs):                      # every configuration binary and trinary
            cls, cfg = cfgs[i % len(cfgs)]
            cases.append(gen_case(rng, cls, cfg, base=2 if i < len(cfgs) else 3))
        else:
            cases.append(gen_case(rng))
    if ctx.tier == "thorough":
        ex = exhaustive_cases(2) + exhaustive_cases(3)
        cases += ex
        ctx.exhaustive = True
        ctx.extra["exhaustive_space"] = (
            f"{len(ex)} interleavings [valid, invalid, valid]: fixed 2-LNL graph T->II,III; II->III (binary and trinary), "
            f"all {len(cfgs)} class/configurations, distributions early=fam0(p), late=fam1(a,b), 2 patients; the invalid "
            "value at every position of get_params() x every invalid kind (-1/16, 17/16 (fam1: 101), NaN, +inf, -inf; "
            "distribution parameters additionally the family-specific rejection p=1.5 / a=101 / b=0) in list form, and "
            "every position x {-1/16} in dict form (all names, reversed order)")
    for c in cases:
        ctx.count(c, nontrivial(c), f"{c['cls']}-{c['kind']}")
        ctx.bump("base3" if c["graph"]["base"] == 3 else "base2")
        for st in c["steps"]:
            kls, _ = classify(c, st)
            ctx.bump("step:" + kls + ("" if kls != "invalid" else ":" + str(st.get("kind"))))
            ctx.bump("form:" + st["form"])
            if not st["log"]:
                ctx.bump("log=False")
        if c.get("init"):
            ctx.bump("with-initial-state")
        if c.get("named"):
            ctx.bump("named_params-declared")
    t0 = time.time()
    res = failing(ctx, cases, "main")
    ctx.extra["eval_wall_s"] = round(time.time() - t0, 1)
    stats = dict(STATS)
    per_check = {}
    total = {}
    for c, fs in zip(cases, res):
        for f in fs:
            total[f["check"]] = total.get(f["check"], 0) + 1
    for c, fs in zip(cases, res):
        seen_here = set()
        for f in fs:
            ck = f["check"]
            if ck in seen_here:
                continue
            seen_here.add(ck)
            sig = signature(c, f)
            if sig.get("call") == "set_params":
                report(ctx, c, f)
                continue
            key = (c["cls"], ck)
            fam = per_check.setdefault(ck, [])
            if key in fam or len(fam) >= 3 or sum(len(v) for v in per_check.values()) >= 8:
                continue
            fam.append(key)
            report(ctx, c, f)
    for ck in CHECKS:
        ctx.extra[f"check_{ck}_evaluated"] = stats.get(f"checks_{ck}", 0)
        ctx.extra[f"check_{ck}_failures"] = total.get(ck, 0)


def replay(ctx: Ctx, path: str) -> int:
    data = json.loads(open(path).read())
    case = data["case"]
    fs = failing(ctx, [case], "replay")[0]
    want = (data.get("signature") or {}).get("observable")
    fs = [f for f in fs if signature(case, f).get("call") != "set_params"]      # the HPV known finding is not a reproduction
    hit = [f for f in fs if f["check"] == want] or fs
    if hit:
        f = hit[0]
        print(f"REPRODUCED {WHAT[f['check']]}", json.dumps(jsonable(f), default=str))
        return 1
    print("not reproduced")
    return 0
