"""C17: named parameters -- a declared subset is exactly what list-style access touches.

Tie: for every model class and configuration a history of calls of the named-parameter
layer (`named_params` at construction / setter / deleter, `set_named_params` positional,
keyword, mixed, too few, too many, extra keyword, invalid value, `likelihood(given_params=...)`,
plain `set_params` in between) is run on a fresh /repo object and on the Coq model
(Named.run_ops on top of Params.v).  After every call the check compares: raised or not (and
which exception class), `named_params`, `get_named_params(as_dict=True/False)`, `get_num_dims()`,
`get_params()`.
In addition the relations of the property are evaluated on the implementation alone (only
declared names change and the whole remainder is identical; positional values arrive in declared
order; the most specific declared name wins; get_named_params after set_named_params; num_dims =
number of declared names; ExtraParamsError is raised and not turned into -inf; deleting restores
the default): that is the failing-input search.
"""
from __future__ import annotations

import copy
import itertools
import json
import math
import warnings

from .. import gen, impl
from ..core import Ctx, HarnessError, jsonable, run_coq_cases, shrink, sig_matches
from ..core import lst, tup
from . import c10
from .c10 import coq_path, coq_val, cv, fv, is_bad

IMPORTS = "Base States Linalg Graph Transition Observation Dist Unilateral Models Params ParamsStatements Named"
TOL = 1e-9
TAGS = {0: None, 1: "ExtraParamsError", 2: "ValueError", 3: "KeyError", 4: "AttributeError", 5: "-inf"}
HPV_SIG = {"class": "HPVUnilateral", "call": "set_params"}
LEAK_SIG = {"call": "set_named_params", "named_params": "side-global name reaches a symmetric group"}
# Midline without mixing reports noext_contra_* / ext_contra_* parameters; a declared name that skips a level
# (contra_<kind>, noext_<kind>, ext_<kind>, contra_<arc>_<kind> ...) matches them by the library's in-order matching and is
# accepted by the named_params setter, but Midline.set_params routes only ipsi_ / noext_contra_ / ext_contra_ prefixes:
# the value arrives nowhere (model side: C17_midline_names_consistent_needed_refuted)
IGNORED_SIG = {"class": "Midline", "call": "set_named_params", "named_params": "level-skipping side name is ignored by set_params"}
SIDES = ("ipsi", "contra")


def close(a, e) -> bool:
    a = float(a)
    e = float(e)
    return not math.isnan(a) and abs(a - e) <= TOL * max(1.0, abs(e))


def contains_in_order(seq, items) -> bool:
    """the harness's own subsequence test (oracle for does_contain_in_order)"""
    it = iter(seq)
    return all(any(x == y for y in it) for x in items)


def matches(name: str, param: str) -> bool:
    return contains_in_order(param.split("_"), name.split("_"))


def us(name: str) -> int:
    return name.count("_")


# --------------------------------------------------------------------------
# which keywords set_params looks up for a parameter (mirror of Named.u_cands / b_cands)
# --------------------------------------------------------------------------
def _eff(side, t):
    out = [[side] + t]
    if not (t and t[0] in SIDES):
        out.append(t)
    return out


def _side_cands(side, k):
    if not k:
        return []
    return _eff(side, k) + _eff(side, k[1:])


def cands(cls, param: str):
    k = param.split("_")
    if cls == "Unilateral":
        return ["_".join(k), "_".join(k[1:])]
    if cls == "Bilateral":
        if k[0] == "ipsi":
            c = _side_cands("ipsi", k[1:])
        elif k[0] == "contra":
            c = _side_cands("contra", k[1:])
        else:
            c = _side_cands("ipsi", k)
        return ["_".join(x) for x in c]
    return None


def consistent(case, params, name) -> bool:
    """does the alias map agree with set_params on what `name` addresses?"""
    cls = case["cls"]
    if cls in ("Unilateral", "Bilateral"):
        return all(matches(name, p) == (name in cands(cls, p)) for p in params)
    # Midline / HPVUnilateral: the names for which the documented semantics is unambiguous:
    # full parameter names, one-component global names, "<edge>_<kind>" / "<t-stage>_<keyword>"
    if name in params:
        return True
    parts = name.split("_")
    if parts[-1] in ("prob", "midext", "mixing"):
        return False
    if len(parts) == 1:
        return any(matches(name, p) for p in params) and all(not matches(name, p) or p.split("_")[-1] == name for p in params)
    if len(parts) == 2 and parts[0] not in ("ipsi", "contra", "ext", "noext", "hpv", "nohpv", "HPV", "noHPV", "central", "unknown"):
        return all(not matches(name, p) or p.split("_")[-2:] == parts for p in params)
    return False


def no_ties(params, named) -> bool:
    for p in params:
        ms = [n for n in set(named) if matches(n, p)]
        for a, b in itertools.combinations(ms, 2):
            if us(a) == us(b):
                return False
    return True


def each_owns(params, named) -> bool:
    return all(any(matches(n, p) and all(not matches(n2, p) or us(n2) <= us(n) for n2 in named) for p in params)
               for n in named)


def each_matches(params, named) -> bool:
    return all(any(matches(n, p) for p in params) for n in named)


# --------------------------------------------------------------------------
# implementation side
# --------------------------------------------------------------------------
def build(case):
    from lymph import models
    g = gen.graph_dict(case["graph"])
    tri = case["graph"]["base"] == 3
    cls, cfg = case["cls"], case["cfg"]
    mt = case["max_time"]
    extra = {}
    if case.get("ctor_named") is not None:
        extra["named_params"] = list(case["ctor_named"])
    if cls == "Unilateral":
        m = (models.Unilateral.trinary if tri else models.Unilateral.binary)(g, max_time=mt, **extra)
    elif cls == "Bilateral":
        ctor = models.Bilateral.trinary if tri else models.Bilateral.binary
        m = ctor(g, is_symmetric={"tumor_spread": cfg["symT"], "lnl_spread": cfg["symL"]}, uni_kwargs={"max_time": mt}, **extra)
    elif cls == "Midline":
        ctor = models.Midline.trinary if tri else models.Midline.binary
        m = ctor(g, is_symmetric={"lnl_spread": cfg["symL"]}, use_mixing=cfg["use_mixing"],
                 use_central=cfg["mode"] == "central", use_midext_evo=cfg["mode"] == "evo",
                 marginalize_unknown=cfg["marg"], uni_kwargs={"max_time": mt}, **extra)
    elif cls == "HPVUnilateral":
        ctor = models.HPVUnilateral.trinary if tri else models.HPVUnilateral.binary
        m = ctor(g, uni_kwargs={"max_time": mt}, **extra)
    else:
        raise ValueError(cls)
    for t, d in case["dists"].items():
        impl.apply_dist(m, t, d)
    return m


def observe(m):
    o = {}
    try:
        o["named"] = list(m.named_params)
    except Exception as e:  # noqa: BLE001
        o["named"] = None
        o["named_err"] = impl.err_enum(e)
    try:
        o["gnp"] = [[k, float(v)] for k, v in m.get_named_params(as_dict=True).items()]
        o["gnp_vals"] = [float(v) for v in m.get_named_params(as_dict=False)]
    except Exception as e:  # noqa: BLE001
        o["gnp"] = None
        o["gnp_vals"] = None
        o["gnp_err"] = impl.err_enum(e)
    try:
        o["dims"] = int(m.get_num_dims())
    except Exception as e:  # noqa: BLE001
        o["dims"] = None
    try:
        o["params"] = [[k, float(v)] for k, v in m.get_params(as_dict=True).items()]
    except Exception as e:  # noqa: BLE001
        o["params"] = None
    return o


def do_op(m, op):
    """-> (outcome tag as in Named.run_op, number of InvalidParamNameWarnings or None)"""
    from lymph.types import InvalidParamNameWarning
    kind = op["op"]
    nwarn = None
    try:
        if kind == "set_named":
            with warnings.catch_warnings(record=True) as rec:
                warnings.simplefilter("always")
                m.named_params = list(op["names"])
            nwarn = sum(1 for w in rec if issubclass(w.category, InvalidParamNameWarning))
        elif kind == "del_named":
            del m.named_params
        elif kind == "set_named_params" and op.get("via"):
            g = {k: fv(v) for k, v in op["kwargs"].items()} if op["kwargs"] else [fv(x) for x in op["args"]]
            cls = type(m).__name__
            empty = {} if cls in ("Unilateral", "HPVUnilateral") else {"ipsi": {}, "contra": {}}
            extra = {"hpv_status": True} if cls == "HPVUnilateral" else {}
            stages = list(m.get_all_distributions())
            if stages:
                extra["t_stage"] = stages[0]
            try:
                if op["via"] == "risk":
                    m.risk(involvement=empty, given_params=g, **extra)
                else:
                    m.posterior_state_dist(given_params=g, **extra)
            except (KeyError, NotImplementedError):
                # no distribution for the T-stage / unsupported query: raised by the evaluation AFTER safe_set_params
                return None, nwarn
        elif kind == "set_named_params":
            r = m.set_named_params(*[fv(x) for x in op["args"]], **{k: fv(v) for k, v in op["kwargs"].items()})
            if r is not None:
                return "returned a value", nwarn
        elif kind == "likelihood":
            g = op["given"]
            if isinstance(g, dict):
                g = {k: fv(v) for k, v in g.items()}
            elif g is not None:
                g = [fv(x) for x in g]
            try:
                r = m.likelihood(given_params=g, log=True)
            except AttributeError:
                # no patient data is loaded: raised by the scoring phase, i.e. AFTER safe_set_params went through
                return None, nwarn
            if r == -math.inf:
                return "-inf", nwarn
        elif kind == "set_params":
            m.set_params(*[fv(x) for x in op["args"]], **{k: fv(v) for k, v in op["kwargs"].items()})
        else:
            raise HarnessError(f"unknown op {kind}")
    except HarnessError:
        raise
    except Exception as e:  # noqa: BLE001
        return impl.err_enum(e), nwarn
    return None, nwarn


def impl_run(case):
    m = build(case)
    steps = []
    for op in case["ops"]:
        out, nwarn = do_op(m, op)
        steps.append({"out": out, "nwarn": nwarn, "obs": observe(m)})
    return steps


# --------------------------------------------------------------------------
# model side
# --------------------------------------------------------------------------
def coq_names(names) -> str:
    return lst(coq_path(n) for n in names)


def coq_kwargs(kw) -> str:
    return lst(tup(coq_path(k), coq_val(v)) for k, v in kw.items())


def coq_op(op) -> str:
    kind = op["op"]
    if kind == "set_named":
        return f"OSetNamed {coq_names(op['names'])}"
    if kind == "del_named":
        return "ODelNamed"
    if kind == "set_named_params":
        return f"OSetNamedParams {lst(coq_val(x) for x in op['args'])} {coq_kwargs(op['kwargs'])}"
    if kind == "likelihood":
        g = op["given"]
        if g is None:
            return "OLikelihood GNone"
        if isinstance(g, dict):
            return f"OLikelihood (GDict {coq_kwargs(g)})"
        return f"OLikelihood (GList {lst(coq_val(x) for x in g)})"
    if kind == "set_params":
        return f"OSetParams {lst(coq_val(x) for x in op['args'])} {coq_kwargs(op['kwargs'])}"
    raise HarnessError(kind)


def declared_lists(case):
    out = []
    if case.get("ctor_named") is not None:
        out.append(list(case["ctor_named"]))
    for op in case["ops"]:
        if op["op"] == "set_named":
            out.append(list(op["names"]))
    return out


def coq_expr(case) -> str:
    n0 = "None" if case.get("ctor_named") is None else f"(Some {coq_names(case['ctor_named'])})"
    decls = lst(coq_names(d) for d in declared_lists(case))
    return (f"let m := {c10.coq_model(case)} in (run_ops (mk_nstate m {n0}) {lst(coq_op(o) for o in case['ops'])}, "
            f"match param_names m with Some ns => map (fun nd => (names_consistent m ns nd, no_ties ns nd, "
            f"each_owns ns nd, each_matches ns nd)) {decls} | None => [] end)")


def _opt(v):
    if v is None:
        return None
    assert isinstance(v, tuple) and v[0] == "Some", v
    return v[1]


def _items(v):
    from fractions import Fraction
    return [["_".join(p), Fraction(nd[0], nd[1])] for p, nd in v]


def model_steps(val):
    steps = []
    for tag, warned, (named, gnp, dims, params) in val[0]:
        steps.append({"out": TAGS[tag], "nwarn": len(warned),
                      "named": None if _opt(named) is None else ["_".join(p) for p in _opt(named)],
                      "gnp": None if _opt(gnp) is None else _items(_opt(gnp)),
                      "dims": _opt(dims),
                      "params": None if _opt(params) is None else _items(_opt(params))})
    return steps


def cmp_items(what, act, exp):
    if act is None or exp is None:
        if act is None and exp is None:
            return None
        return {"observable": what, "actual": "raised" if act is None else act,
                "expected": "raises" if exp is None else [[k, float(v)] for k, v in exp]}
    if [k for k, _ in act] != [k for k, _ in exp]:
        return {"observable": what + " (names / order)", "actual": [k for k, _ in act], "expected": [k for k, _ in exp]}
    for (k, a), (_, e) in zip(act, exp):
        if not close(a, e):
            return {"observable": what, "name": k, "actual": a, "expected": float(e)}
    return None


def compare(case, steps, val):
    ms = model_steps(val)
    if len(ms) != len(steps):
        raise HarnessError("model returned a different number of steps")
    # the hypotheses of the theorems as the harness computes them vs as Coq computes them (Unilateral, Bilateral)
    if case["cls"] in ("Unilateral", "Bilateral"):
        params = c10.get_names(case)
        for nd, hy in zip(declared_lists(case), val[1]):
            mine = (all(consistent(case, params, n) for n in nd), no_ties(params, nd), each_owns(params, nd), each_matches(params, nd))
            if tuple(hy) != mine:
                raise HarnessError(f"hypothesis mirror disagrees with Coq on {case['cls']} {case['cfg']} {params} {nd}: {mine} vs {hy}")
    for k, (st, mo) in enumerate(zip(steps, ms)):
        op = case["ops"][k]
        where = {"step": k, "call": op["op"], "style": op.get("style", "-")}
        if st["out"] != mo["out"]:
            return {**where, "observable": f"outcome of {op['op']}", "actual": st["out"] or "returned",
                    "expected": mo["out"] or "returns"}
        if op["op"] == "set_named" and st["out"] is None and st["nwarn"] != mo["nwarn"]:
            return {**where, "observable": "number of InvalidParamNameWarning", "actual": st["nwarn"], "expected": mo["nwarn"]}
        o = st["obs"]
        if o["named"] != mo["named"]:
            return {**where, "observable": "named_params", "actual": o["named"], "expected": mo["named"]}
        d = cmp_items("get_named_params(as_dict=True)", o["gnp"], mo["gnp"])
        if d:
            return {**where, **d}
        if mo["gnp"] is not None:
            ev = [v for _, v in mo["gnp"]]
            if o["gnp_vals"] is None or len(o["gnp_vals"]) != len(ev) or not all(close(a, e) for a, e in zip(o["gnp_vals"], ev)):
                return {**where, "observable": "get_named_params(as_dict=False)", "actual": o["gnp_vals"],
                        "expected": [float(e) for e in ev]}
        if o["dims"] != mo["dims"]:
            return {**where, "observable": "get_num_dims()", "actual": o["dims"], "expected": mo["dims"]}
        d = cmp_items("get_params()", o["params"], mo["params"])
        if d:
            return {**where, **d}
    return None


def corr_failing(ctx, cases, tag):
    obs = []
    for c in cases:
        try:
            obs.append(("ok", impl_run(c)))
        except HarnessError:
            raise
        except Exception as e:  # noqa: BLE001
            obs.append(("err", impl.err_enum(e), repr(e)[:300]))
    vals = run_coq_cases(ctx.work / tag, [coq_expr(c) for c in cases], IMPORTS, shard=40)
    out = []
    for c, o, v in zip(cases, obs, vals):
        if o[0] == "err":
            out.append({"observable": "building the model / observing it", "actual": f"raised {o[1]}: {o[2]}",
                        "expected": "no exception", "step": -1, "call": "constructor", "style": "-"})
        else:
            out.append(compare(c, o[1], v))
    return out


# --------------------------------------------------------------------------
# relations evaluated on the implementation alone
# --------------------------------------------------------------------------
def relations(case):
    """-> (fails, leaks): fails = [(signature, detail)] for every relation of the property that fails on /repo;
    leaks = the same for declared names outside the domain (a side-global name reaching a symmetric group)"""
    cls = case["cls"]
    fails, leaks, odd = [], [], []

    def sig_of(call, relation, kind):
        if cls == "HPVUnilateral":
            return dict(HPV_SIG, relation=relation, via=call)
        return {"class": cls, "config": c10.config_text(case), "call": call, "relation": relation, "named_params": kind}

    try:
        m = build(case)
    except Exception as e:  # noqa: BLE001
        fails.append((sig_of("constructor", "constructor raises", case.get("kind", "-")), {"actual": repr(e)[:200]}))
        return fails, leaks
    kind = case.get("kind", "-")
    has_decl = case.get("ctor_named") is not None

    def snapshot():
        return {k: float(v) for k, v in m.get_params(as_dict=True).items()}

    for idx, op in enumerate(case["ops"]):
        try:
            before = snapshot()
            declared = list(m.named_params)
        except Exception:  # noqa: BLE001
            do_op(m, op)
            continue
        params = list(before)
        had_named = has_decl
        out, _ = do_op(m, op)
        if out is None and op["op"] == "set_named":
            has_decl = True
        if out is None and op["op"] == "del_named":
            has_decl = False
        try:
            after = snapshot()
            gnp = {k: float(v) for k, v in m.get_named_params(as_dict=True).items()}
            gvals = [float(v) for v in m.get_named_params(as_dict=False)]
            dims = int(m.get_num_dims())
            now_named = list(m.named_params)
        except Exception as e:  # noqa: BLE001
            fails.append((sig_of(op["op"], "reading the named parameters raises", kind), {"step": idx, "error": repr(e)[:200]}))
            return fails, leaks
        det = {"step": idx, "op": op, "declared": declared, "before": before, "after": after, "outcome": out}
        # as_dict=False is the values of as_dict=True
        if len(gvals) != len(gnp) or not all(close(a, b) for a, b in zip(gvals, gnp.values())):
            fails.append((sig_of("get_named_params", "as_dict=False differs from the values of as_dict=True", kind), det))
        # number of dimensions / reported names
        exp_names = [n for n in dict.fromkeys(now_named) if any(matches(n, p) for p in after)]
        if dims != len(exp_names) or list(gnp) != exp_names:
            fails.append((sig_of("get_named_params", "get_num_dims / reported names differ from the declared names "
                                 "(each once, in declared order, without those matching no parameter)", kind),
                          dict(det, dims=dims, reported=list(gnp), declared_now=now_named, expected_names=exp_names)))
        if op["op"] in ("set_named_params", "likelihood"):
            if op["op"] == "likelihood":
                g = op["given"]
                a = [] if (g is None or isinstance(g, dict)) else list(g)
                kw = dict(g) if isinstance(g, dict) else {}
                if g is None:
                    if after != before:
                        fails.append((sig_of("likelihood", "likelihood() without given_params changes parameters", kind), det))
                    continue
            else:
                a, kw = list(op["args"]), dict(op["kwargs"])
            extra = [k for k in kw if k not in declared]
            if extra:
                if out != "ExtraParamsError":
                    rel = ("likelihood turns a keyword outside named_params into " + str(out or "a score")
                           if op["op"] == "likelihood" else "keyword outside named_params does not raise ExtraParamsError")
                    fails.append((sig_of(op["op"], rel, kind), det))
                elif after != before:
                    fails.append((sig_of(op["op"], "ExtraParamsError raised but parameters changed", kind), det))
                continue
            if out is not None or any(is_bad(x) for x in list(a) + list(kw.values())):
                continue        # rejected values: only the correspondence judges the partial update
            assigned = {}
            for n, x in zip(declared, a):
                assigned[n] = fv(x)
            for n, x in kw.items():
                assigned[n] = fv(x)
            ok_names = all(consistent(case, params, n) for n in assigned)
            bad = None
            for p in params:
                ms = [n for n in assigned if matches(n, p)]
                if not ms:
                    if not close(after[p], before[p]):
                        bad = ("a parameter that no declared name addresses changed", p, before[p])
                        break
                    continue
                top = max(us(n) for n in ms)
                best = [n for n in ms if us(n) == top]
                if len(best) > 1 and len({assigned[n] for n in best}) > 1:
                    continue     # equally specific names with different values: "most specific" is not defined
                if not close(after[p], assigned[best[0]]):
                    bad = ("a declared name's value did not arrive at a parameter it addresses (most specific name wins)",
                           p, assigned[best[0]], best[0])
                    break
            if bad:
                d2 = dict(det, parameter=bad[1], expected=bad[2], actual=after[bad[1]], assigned=assigned)
                side_global = [n for n in assigned if n.split("_")[0] in ("ipsi", "contra", "ext", "noext") and n not in params]
                if ok_names:
                    fails.append((sig_of("set_named_params", bad[0], kind), d2))
                elif side_global and bad[0].startswith("a parameter that no declared name addresses") \
                        and cls in ("Bilateral", "Midline"):
                    leaks.append((dict(LEAK_SIG, **{"class": cls}), d2))
                elif (cls == "Midline" and len(bad) == 4 and bad[3].split("_")[0] in ("contra", "noext", "ext")
                      and bad[3] not in params and case["cfg"].get("use_mixing") is False
                      and not (bad[3].startswith("noext_contra_") or bad[3].startswith("ext_contra_"))
                      and all(close(after[q], before[q]) for q in params if matches(bad[3], q))):
                    leaks.append((dict(IGNORED_SIG), dict(d2, ignored_name=bad[3])))
                else:
                    odd.append(d2)
            # get after set
            if (op["op"] == "set_named_params" and not kw and len(a) == len(declared) and len(set(declared)) == len(declared)
                    and ok_names and no_ties(params, declared) and each_owns(params, declared)):
                exp = dict(zip(declared, [fv(x) for x in a]))
                if list(gnp) != declared or not all(close(gnp[n], exp[n]) for n in declared):
                    fails.append((sig_of("get_named_params", "get_named_params() after set_named_params(*v) is not v under the declared names",
                                         kind), dict(det, expected=[[n, exp[n]] for n in declared], actual=[[k, v] for k, v in gnp.items()])))
        elif op["op"] == "del_named":
            if out is None:
                if now_named != list(after) or gnp != after or list(gnp) != list(after) or dims != len(after) or after != before:
                    fails.append((sig_of("del named_params", "deleting named_params does not restore the default (all parameters)", kind),
                                  dict(det, named_now=now_named, get_named=gnp, dims=dims)))
            elif had_named:
                fails.append((sig_of("del named_params", "deleting declared named_params raises", kind), det))
        elif op["op"] == "set_named":
            if out is None and (now_named != list(op["names"]) or after != before):
                fails.append((sig_of("named_params setter", "setter does not store the names / changes parameters", kind), det))
    relations.odd += len(odd)
    return fails, leaks


relations.odd = 0


# --------------------------------------------------------------------------
# generation
# --------------------------------------------------------------------------
def distinct_values(rng, names):
    """one valid value per declared name, pairwise different where the families allow it"""
    pool = [i / 16.0 for i in range(1, 16)]
    rng.shuffle(pool)
    out = []
    for n in names:
        last = n.split("_")[-1]
        if last in ("a", "b"):
            out.append(c10.valid_value(rng, n))
        elif pool and rng.random() < 0.85:
            out.append(pool.pop())
        else:
            out.append(gen.gen_value(rng))
    # boundary (R5-C17, C17-m2): one declared name is assigned exactly 0.0 / 1.0 -- a falsy value must still be assigned
    idx = [k for k, n in enumerate(names) if n.split("_")[-1] not in ("a", "b")]
    if idx and rng.random() < 0.35:
        out[rng.choice(idx)] = rng.choice([0.0, 0.0, 1.0])
    # (R5-C17 / C10-m1: the Midline scalars assigned exactly 0.0 through a declared name; decided by a generator of its own
    # so that the main random stream -- and with it every other case -- stays what it was)
    import hashlib
    import random as _random
    side = _random.Random(int(hashlib.sha1(repr((list(names), out)).encode()).hexdigest()[:8], 16))
    for k, n in enumerate(names):
        if n in ("midext_prob", "mixing") and side.random() < 0.4:
            out[k] = 0.0
    return out


def global_names(case, params):
    tri = case["graph"]["base"] == 3
    g = ["spread"] + (["growth", "micro"] if tri else [])
    for t, d in case["dists"].items():
        if "fam" in d:
            g += list(d["kw"])
    return [x for x in dict.fromkeys(g) if any(matches(x, p) for p in params)]


def partial_names(case, params):
    """'<edge>_<kind>' / '<t-stage>_<keyword>' where that is not already a full name"""
    out = []
    for p in params:
        parts = p.split("_")
        if len(parts) >= 3 and parts[-1] not in ("prob",):
            out.append("_".join(parts[-2:]))
    return [x for x in dict.fromkeys(out) if x not in params]


def side_names(case, params):
    cls = case["cls"]
    pres = {"Unilateral": [], "Bilateral": ["ipsi", "contra"], "Midline": ["ipsi", "contra", "ext", "noext", "ext_contra", "noext_contra"],
            "HPVUnilateral": ["hpv", "nohpv"]}[cls]
    out = []
    for pre in pres:
        for gname in global_names(case, params):
            n = f"{pre}_{gname}"
            if n not in params:
                out.append(n)
    return out


ODD = ["foo", "AtoB_spread", "spreads", "ipsi_foo", "late_q"]


def gen_named(rng, case, params, kind):
    """a declared list of the given kind"""
    G, P, S = global_names(case, params), partial_names(case, params), side_names(case, params)
    k = kind
    if k == "literal":
        n = rng.randint(1, len(params))
        return rng.sample(params, n)
    if k == "all":
        names = params[:]
        if rng.random() < 0.5:
            rng.shuffle(names)
        return names
    if k == "sibling":
        # a two-kind arc (trinary LNL -> LNL: spread and micro): one kind through the global name, the other named
        # specifically for that arc; the arc must still receive the global value of the first kind
        two = sorted({p.rsplit("_", 1)[0] for p in params if p.endswith("_micro")} & {p.rsplit("_", 1)[0] for p in params if p.endswith("_spread")})
        if two:
            arc = rng.choice(two)
            g1, other = rng.choice([("spread", "micro"), ("micro", "spread")])
            names = [g1, f"{arc}_{other}"]
            rest = [p for p in params if p not in names and not p.startswith(arc + "_")]
            if rest and rng.random() < 0.4:
                names.append(rng.choice(rest))
            rng.shuffle(names)
            return names
        k = "global"
    if k == "global":
        names = rng.sample(G, rng.randint(1, min(2, len(G))))
        sibling = [p for p in params if not any(matches(gn_, p) for gn_ in names)
                   and any(matches(gn_, q) and q.rsplit("_", 1)[0] == p.rsplit("_", 1)[0] for gn_ in names for q in params)]
        if sibling and rng.random() < 0.7:      # one arc's other kind of parameter, named specifically beside the global name
            names.insert(rng.randint(0, len(names)), rng.choice(sibling))
        return names
    if k == "partial" and P:
        return rng.sample(P, rng.randint(1, min(2, len(P)))) + (rng.sample(params, 1) if rng.random() < 0.4 else [])
    if k == "side" and S:
        return rng.sample(S, rng.randint(1, min(2, len(S)))) + (rng.sample(params, 1) if rng.random() < 0.3 else [])
    if k in ("specific-global", "global-specific"):
        gname = rng.choice(G + P) if (P and rng.random() < 0.4) else rng.choice(G)
        cand = [p for p in params if matches(gname, p)]
        spec = rng.sample(cand, rng.randint(1, max(1, min(2, len(cand) - 1))))
        if P and rng.random() < 0.3:
            mid = [x for x in P if matches(gname, x) and x != gname]
            spec += rng.sample(mid, min(1, len(mid)))
        other = [p for p in params if p not in cand]
        rest = rng.sample(other, min(len(other), rng.randint(0, 1)))
        # another kind of parameter of an arc that the global name addresses (its 'micro' beside the global 'spread')
        free = {c.rsplit("_", 1)[0] for c in cand} - {c.rsplit("_", 1)[0] for c in spec}   # ... and that no specific name covers
        sibling = [p for p in other if p.rsplit("_", 1)[0] in free]
        if sibling and rng.random() < 0.6:
            rest = [rng.choice(sibling)]
        names = spec + [gname] if k == "specific-global" else [gname] + spec
        pos = rng.randint(0, len(names))
        return names[:pos] + rest + names[pos:]
    if k == "shadowed":
        gname = rng.choice(G)
        cand = [p for p in params if matches(gname, p)]
        names = cand + [gname] if rng.random() < 0.5 else [gname] + cand
        return names
    if k == "nomatch":
        return rng.sample(params, rng.randint(0, min(2, len(params)))) + [rng.choice(ODD)]
    if k == "tie":
        # two equally specific names addressing one parameter ("TtoII_spread" and "ipsi_spread" for ipsi_TtoII_spread)
        three = [p for p in params if len(p.split("_")) == 3]
        if three:
            sd, o, kind_ = rng.choice(three).split("_")
            pair = [f"{o}_{kind_}", f"{sd}_{kind_}"]
            rng.shuffle(pair)
            return pair + rng.sample([p for p in params if p not in pair], rng.randint(0, 1))
        k = "literal"
        return rng.sample(params, rng.randint(1, len(params)))
    if k == "reversed":
        src = rng.choice(params + P + S) if (P + S) else rng.choice(params)
        parts = src.split("_")
        rev = "_".join(reversed(parts))
        if rev == src or rev in params:
            rev = "spread_" + parts[0]
        return rng.sample(params, rng.randint(0, min(2, len(params)))) + [rev]
    if k == "odd":
        heads = list(dict.fromkeys(p.split("_")[-2] for p in params if len(p.split("_")) >= 2))
        return [rng.choice(heads)] + rng.sample(params, rng.randint(0, 1))
    if k == "dup":
        base_ = rng.sample(params + G, rng.randint(1, 2))
        return base_ + [rng.choice(base_)]
    return rng.sample(params, rng.randint(1, len(params)))


NAMED_KINDS = ["literal", "literal", "literal", "all", "global", "global", "sibling", "sibling", "partial", "side", "specific-global",
               "specific-global", "global-specific", "global-specific", "shadowed", "nomatch", "odd", "dup", "reversed", "tie"]
BAD_VALUES = [float("nan"), float("inf"), -0.25, 1.5]


def values_for(rng, names):
    return distinct_values(rng, names)


def gen_ops(rng, case, params, declared):
    """calls exercised on a declaration"""
    ops = []
    style = rng.choice(["positional", "positional", "positional", "keyword", "mixed", "too-few", "too-many", "extra",
                        "invalid", "likelihood-list", "likelihood-dict", "likelihood-extra", "likelihood-invalid"])
    vals = values_for(rng, declared)
    uniq = list(dict.fromkeys(declared))
    if style == "positional":
        ops.append({"op": "set_named_params", "args": vals, "kwargs": {}, "style": style})
    elif style == "keyword":
        ks = rng.sample(uniq, rng.randint(1, len(uniq)))
        ops.append({"op": "set_named_params", "args": [], "kwargs": {k: v for k, v in zip(ks, values_for(rng, ks))}, "style": style})
    elif style == "mixed":
        ks = rng.sample(uniq, rng.randint(1, len(uniq)))
        ops.append({"op": "set_named_params", "args": vals[:rng.randint(0, len(vals))],
                    "kwargs": {k: v for k, v in zip(ks, values_for(rng, ks))}, "style": style})
    elif style == "too-few":
        ops.append({"op": "set_named_params", "args": vals[:rng.randint(0, max(0, len(vals) - 1))], "kwargs": {}, "style": style})
    elif style == "too-many":
        ops.append({"op": "set_named_params", "args": vals + [gen.gen_value(rng) for _ in range(rng.randint(1, 2))], "kwargs": {},
                    "style": style})
    elif style == "extra":
        outside = [p for p in params + ["spread", "foo"] if p not in declared]
        kw = {k: v for k, v in zip(uniq[:rng.randint(0, len(uniq))], vals)}
        kw[rng.choice(outside or ["foo"])] = gen.gen_value(rng)
        ops.append({"op": "set_named_params", "args": vals[:rng.randint(0, len(vals))] if rng.random() < 0.5 else [],
                    "kwargs": kw, "style": style})
    elif style == "invalid":
        v2 = [cv(x) for x in vals]
        if v2:
            v2[rng.randrange(len(v2))] = cv(rng.choice(BAD_VALUES))
        ops.append({"op": "set_named_params", "args": v2, "kwargs": {}, "style": style})
    elif style == "likelihood-list":
        ops.append({"op": "likelihood", "given": vals, "style": style})
    elif style == "likelihood-dict":
        ks = rng.sample(uniq, rng.randint(1, len(uniq)))
        ops.append({"op": "likelihood", "given": {k: v for k, v in zip(ks, values_for(rng, ks))}, "style": style})
    elif style == "likelihood-extra":
        outside = [p for p in params + ["spread", "foo"] if p not in declared]
        ops.append({"op": "likelihood", "given": {rng.choice(outside or ["foo"]): gen.gen_value(rng)}, "style": style})
    elif style == "likelihood-invalid":
        v2 = [cv(x) for x in vals]
        if v2:
            v2[rng.randrange(len(v2))] = cv(rng.choice(BAD_VALUES))
        ops.append({"op": "likelihood", "given": v2, "style": style})
    # risk(given_params=...) / posterior_state_dist(given_params=...) reach set_named_params through safe_set_params
    # WITHOUT turning errors into a score: the same op for the model, another entry point on the implementation
    for o in ops:
        if o["op"] == "set_named_params" and not (o["args"] and o["kwargs"]) and rng.random() < 0.35:
            o["via"] = rng.choice(["risk", "posterior"])
    return ops, style


def gen_case(rng, tier, cls=None, cfg=None, nkind=None):
    cfgs = c10.all_configs()
    if cls is None:
        r = rng.random()
        if r < 0.22:
            cls, cfg = cfgs[0]
        elif r < 0.6:
            cls, cfg = rng.choice(cfgs[1:5])
        elif r < 0.93:
            cls, cfg = rng.choice(cfgs[5:-1])
        else:
            cls, cfg = cfgs[-1]
    base = rng.choice([2, 2, 3])
    g = c10.gen_graph_for(rng, cls, base, 3 if base == 2 else 2)
    mt = rng.randint(1, 4)
    case = {"cls": cls, "cfg": cfg, "graph": g, "max_time": mt, "dists": c10.gen_dists(rng, mt, p_none=0.35), "ops": [],
            "ctor_named": None}
    params = c10.get_names(case)
    nkind = nkind or rng.choice(NAMED_KINDS)
    if nkind in ("global", "specific-global", "global-specific", "shadowed") and not global_names(case, params):
        nkind = "literal"
    declared = gen_named(rng, case, params, nkind)
    # a keyword call puts the object in a non-default state first
    if rng.random() < 0.8:
        case["ops"].append({"op": "set_params", "args": [], "kwargs": {p: c10.valid_value(rng, p) for p in params}, "style": "init"})
    if rng.random() < 0.35:
        case["ctor_named"] = declared
    else:
        if rng.random() < 0.15:   # something is declared already and gets replaced
            case["ctor_named"] = rng.sample(params, rng.randint(1, len(params)))
        case["ops"].append({"op": "set_named", "names": declared, "style": "setter"})
    ops, style = gen_ops(rng, case, params, declared)
    case["ops"] += ops
    r = rng.random()
    if r < 0.3:
        more, _ = gen_ops(rng, case, params, declared)
        case["ops"] += more
    elif r < 0.4:
        case["ops"].append({"op": "set_params", "args": [], "kwargs": {p: c10.valid_value(rng, p) for p in params if rng.random() < 0.5},
                            "style": "plain"})
    if rng.random() < 0.45:
        case["ops"].append({"op": "del_named", "style": "delete"})
        r = rng.random()
        if r < 0.25:
            case["ops"].append({"op": "del_named", "style": "delete-twice"})
        elif r < 0.6:
            vals = values_for(rng, params)
            case["ops"].append({"op": "set_named_params", "args": vals, "kwargs": {}, "style": "default-positional"})
    case["kind"] = nkind
    case["style"] = style
    return case


# exhaustive part (thorough): the 2-LNL graph, every sequence of <= 3 different names out of the parameter names and
# the global / partially global names
GRAPH2 = {"base": 2, "entries": [["tumor", "T", ["II", "III"]], ["lnl", "II", ["III"]], ["lnl", "III", []]]}
EXH_CONFIGS = [("Unilateral", {}),
               ("Bilateral", {"symT": False, "symL": True}), ("Bilateral", {"symT": False, "symL": False}),
               ("Bilateral", {"symT": True, "symL": True}), ("Bilateral", {"symT": True, "symL": False}),
               ("Midline", {"use_mixing": True, "mode": "evo", "symL": True, "marg": True}),
               ("Midline", {"use_mixing": False, "mode": "central", "symL": True, "marg": False})]


def exhaustive_cases():
    out = []
    for cls, cfg in EXH_CONFIGS:
        proto = {"cls": cls, "cfg": cfg, "graph": GRAPH2, "max_time": 2, "dists": {"late": {"fam": 0, "kw": {"p": 0.25}}},
                 "ops": [], "ctor_named": None}
        params = c10.get_names(proto)
        universe = list(params)
        for n in ["spread", "p"] + (["ipsi_spread", "TtoII_spread"] if cls != "Unilateral" else []):
            if n not in universe:
                universe.append(n)
        if cls == "Midline":       # keep the space small: the tumour arcs to III are left out of the universe
            universe = [n for n in universe if "TtoIII" not in n]
        init = {"op": "set_params", "args": [], "kwargs": {p: 0.25 + 0.5 * ((i * 7) % 5) / 8.0 for i, p in enumerate(params)},
                "style": "init"}
        for r in (1, 2, 3):
            for names in itertools.permutations(universe, r):
                c = copy.deepcopy(proto)
                vals = [(3 + 4 * i) / 16.0 for i in range(r)]
                c["ops"] = [copy.deepcopy(init), {"op": "set_named", "names": list(names), "style": "setter"},
                            {"op": "set_named_params", "args": vals, "kwargs": {}, "style": "positional"},
                            {"op": "del_named", "style": "delete"}]
                c["kind"] = "exhaustive"
                c["style"] = "positional"
                out.append(c)
    return out


# --------------------------------------------------------------------------
# shrinking
# --------------------------------------------------------------------------
def candidates(case):
    out = []
    ops = case["ops"]
    for k in range(len(ops)):
        if len(ops) < 2:
            break
        c = copy.deepcopy(case)
        del c["ops"][k]
        out.append(c)
    if case.get("ctor_named"):
        c = copy.deepcopy(case)
        c["ctor_named"] = None
        out.append(c)
    for t in list(case["dists"]):
        c = copy.deepcopy(case)
        del c["dists"][t]
        bad = False
        for o in c["ops"]:
            for key in ("kwargs", "given"):
                if isinstance(o.get(key), dict):
                    o[key] = {k: v for k, v in o[key].items() if k.split("_")[-2:-1] != [t]}
            if o["op"] == "set_named" and any(t in n.split("_") for n in o["names"]):
                bad = True
        if c.get("ctor_named") and any(t in n.split("_") for n in c["ctor_named"]):
            bad = True
        if not bad:
            out.append(c)
    # drop one declared name together with its positional value in the following calls
    for k, o in enumerate(ops):
        if o["op"] != "set_named" or len(o["names"]) < 2:
            continue
        for j in range(len(o["names"])):
            c = copy.deepcopy(case)
            del c["ops"][k]["names"][j]
            for o2 in c["ops"][k + 1:]:
                if o2["op"] == "set_named":
                    break
                if o2["op"] == "set_named_params" and len(o2["args"]) > j:
                    del o2["args"][j]
                if o2["op"] == "likelihood" and isinstance(o2["given"], list) and len(o2["given"]) > j:
                    del o2["given"][j]
            out.append(c)
    for k, o in enumerate(ops):
        for key in ("kwargs", "given"):
            if isinstance(o.get(key), dict):
                for name in list(o[key]):
                    c = copy.deepcopy(case)
                    del c["ops"][k][key][name]
                    out.append(c)
    return out


def nontrivial(case):
    arcs = sum(len(cs) for k, n, cs in case["graph"]["entries"])
    has_named = case.get("ctor_named") is not None or any(o["op"] == "set_named" for o in case["ops"])
    uses = any(o["op"] in ("set_named_params", "likelihood") for o in case["ops"])
    return arcs >= 2 and has_named and uses


def call_text(case):
    def one(o):
        if o["op"] == "set_named":
            return f"m.named_params = {o['names']}"
        if o["op"] == "del_named":
            return "del m.named_params"
        if o["op"] == "set_named_params":
            return f"m.set_named_params(*{o['args']}, **{o['kwargs']})"
        if o["op"] == "likelihood":
            return f"m.likelihood(given_params={o['given']})"
        if o.get("via"):
            return f"m.{'risk' if o['via'] == 'risk' else 'posterior_state_dist'}(given_params={o['kwargs'] or o['args']})"
        return f"m.set_params(*{o['args']}, **{o['kwargs']})"
    return (f"m = {case['cls']}(graph, {case['cfg']}, named_params={case.get('ctor_named')}); "
            + "; ".join(one(o) for o in case["ops"]))


def signature_of(case, mm):
    if case["cls"] == "HPVUnilateral":
        return dict(HPV_SIG, via="correspondence:" + str(mm.get("call")), observable=str(mm.get("observable")))
    return {"class": case["cls"], "config": c10.config_text(case), "call": "correspondence:" + str(mm.get("call")),
            "style": mm.get("style"), "observable": str(mm.get("observable")), "named_params": case.get("kind", "-")}


def report_corr(ctx, case, mm):
    def still(cs):
        return [m is not None for m in corr_failing(ctx, cs, "shrink")]
    small = shrink(ctx, case, candidates, still, budget_s=25.0)
    mm2 = corr_failing(ctx, [small], "final")[0] or mm
    if mm2 is mm:
        small = case
    ctx.violation(f"{mm2.get('observable')}: implementation differs from the Coq model of the named-parameter layer",
                  {"case": small, "mismatch": mm2, "parameters": c10.get_names(small), "call": call_text(small),
                   "broken": "correspondence Named.run_ops vs /repo (the C17 theorems are about this model)"},
                  signature_of(small, mm2))


def report_rel(ctx, case, sig, detail, which=0):
    def still(cs):
        out = []
        for c in cs:
            try:
                out.append(any(sg == sig for sg, _ in relations(c)[which]))
            except Exception:  # noqa: BLE001
                out.append(False)
        return out
    small = shrink(ctx, case, candidates, still, budget_s=8.0)
    det = [d for sg, d in relations(small)[which] if sg == sig]
    ctx.violation(f"{sig.get('relation', sig.get('named_params'))} ({case['cls']}, {c10.config_text(case)})",
                  {"case": small, "detail": det[0] if det else detail, "parameters": c10.get_names(small),
                   "call": call_text(small), "broken": "C17 relation evaluated on /repo"}, sig)


# --------------------------------------------------------------------------
def run(ctx: Ctx, a_ok: bool):
    ctx.cone = ["Named.does_contain_in_order / create_alias_map / owners / get_named_items",
                "Named.named_params getter, setter, deleter", "Named.set_named_params / safe_set_params / likelihood_outcome",
                "Params.set_params with keywords only (u_/b_/m_/h_set_params)", "Params.get_params (names and order)"]
    ctx.rule = ("model class x configuration (as C10) x random graph (1-3 LNLs, binary/trinary) x frozen/parametric "
                "distributions x declared names (literal subsets in random order, all names, global, partially global, "
                "side-global, specific-before-global, global-before-specific, completely shadowed, equally specific pairs, unmatched, reversed, edge-only, "
                "duplicated) given at construction or through the setter x calls (positional, keyword, mixed, too few, too "
                "many, extra keyword, invalid value, likelihood with list/dict/extra/invalid, delete, delete twice, "
                "positional after delete); non-trivial iff the graph has >= 2 arcs, names are declared and a "
                "set_named_params / likelihood call follows")
    rng = ctx.rng
    n = 300 if ctx.tier == "quick" else 3000
    cfgs = c10.all_configs()
    cases = []
    for i in range(n):
        if i < len(cfgs):
            cls, cfg = cfgs[i]
            cases.append(gen_case(rng, ctx.tier, cls, cfg))
        elif i < len(cfgs) + len(set(NAMED_KINDS)) * 2:
            kinds = sorted(set(NAMED_KINDS))
            cases.append(gen_case(rng, ctx.tier, nkind=kinds[(i - len(cfgs)) % len(kinds)]))
        else:
            cases.append(gen_case(rng, ctx.tier))
    if ctx.tier == "thorough":
        ex = exhaustive_cases()
        cases += ex
        ctx.exhaustive = True
        ctx.extra["exhaustive_space"] = (f"{len(ex)} cases: 2-LNL graph, {len(EXH_CONFIGS)} configurations, every sequence of 1-3 "
                                         "different names out of the parameter names and the global / partially global names; "
                                         "setter, set_named_params(*v), delete")
    for c in cases:
        ctx.count(c, nontrivial(c), f"{c['cls']}-{c['kind']}")
        ctx.bump("style-" + str(c.get("style")))
        ctx.bump("base3" if c["graph"]["base"] == 3 else "base2")
    # (B) correspondence
    mms = corr_failing(ctx, cases, "main")
    seen = []
    for c, mm in zip(cases, mms):
        if mm is None:
            continue
        sig = signature_of(c, mm)
        key = (sig.get("class"), sig.get("call"), sig.get("observable"))
        if key in seen or len(seen) >= 2:
            continue
        seen.append(key)
        report_corr(ctx, c, mm)
    ctx.extra["correspondence_mismatches"] = sum(1 for m in mms if m is not None)
    # (C) relations on the implementation alone
    seen_rel = []
    nrel = nleak = 0
    relations.odd = 0
    leak_known = any(k["status"] == "known" and sig_matches(k["signature"], dict(LEAK_SIG, **{"class": "Bilateral"}))
                     for k in ctx.known)
    leak_reported = False
    ignored_reported = False
    for c in cases:
        try:
            fs, leaks = relations(c)
        except Exception as e:  # noqa: BLE001
            fs, leaks = [({"class": c["cls"], "config": c10.config_text(c), "call": "relations",
                           "relation": "evaluating the relation raised " + impl.err_enum(e),
                           **(HPV_SIG if c["cls"] == "HPVUnilateral" else {})}, {"error": repr(e)[:300]})], []
        nleak += len(leaks)
        for lsig, ldet in leaks:
            if lsig.get("named_params") == IGNORED_SIG["named_params"]:
                if not ignored_reported:            # known finding (or, if it is not listed, a violation): once per run
                    ignored_reported = True
                    report_rel(ctx, c, lsig, ldet, which=1)
            elif leak_known and not leak_reported:
                leak_reported = True
                report_rel(ctx, c, lsig, ldet, which=1)
        for sig, detail in fs:
            nrel += 1
            key = json.dumps({k: v for k, v in sig.items() if k != "named_params"}, sort_keys=True)
            if key in seen_rel or len(seen_rel) >= 4:
                continue
            seen_rel.append(key)
            report_rel(ctx, c, sig, detail)
    ctx.extra["relation_failures"] = nrel
    ctx.extra["side_global_names_changing_unmatched_parameters"] = nleak
    ctx.extra["other_out_of_domain_names_deviating"] = relations.odd
    ctx.notes.append("declared names outside the domain of DESIGN.md section 6 (side-global names such as 'ipsi_spread' while a "
                     "symmetric group has a parameter of that kind = known finding C17_side_global_leak_refuted; edge-only names "
                     "such as 'TtoII'; two equally specific names addressing one parameter) are generated and compared against "
                     "the Coq model only")


def replay(ctx: Ctx, path: str) -> int:
    data = json.loads(open(path).read())
    case = data["case"]
    mm = corr_failing(ctx, [case], "replay")[0]
    fs, leaks = relations(case)
    want = data.get("signature")
    hit = [(sg, d) for sg, d in fs + leaks if want is None or sg == want] or fs
    if mm is not None:
        print("REPRODUCED (correspondence)", json.dumps(jsonable(mm), default=str))
        return 1
    if hit:
        print("REPRODUCED (relation)", json.dumps(jsonable(hit[0]), default=str))
        return 1
    print("not reproduced")
    return 0
