"""C08: patient data is encoded faithfully: one row per patient, unknowns marginalised.

Tie (this is where pandas lives, which no Gallina model can exhibit): for each ABSTRACT table
(rows = raw T-stage + cells (modality, side, LNL) -> True/False/unknown) several CONCRETE DataFrames with the
same abstraction are built (column order, index, extra columns / modalities / LNLs, all-unknown columns present
or absent, unused MultiIndex levels, dtypes, a table that already went through another model and carries
`_model` columns, order of set_modality vs load_patient_data, T-stage column dtype, mapping given as
None / function / lambda / dict) and every one of them must give what the Coq model gives on the abstract table:

* heavy, once per abstract table: Encoding.load_patient_data + Unilateral.data_matrix(t) / diagnosis_matrix(t) for
  every T-stage and None, number of rows, likelihood factors (log / linear, all stages / one stage);
* light, once per concrete DataFrame: Encoding.load_patient_data evaluated on the literal abstraction of THAT
  DataFrame (its columns as they are) vs the `_model` block of `patient_data` (mapped T-stage per row, cell per
  table modality and graph LNL).

Plus, on the implementation alone: the caller's frame is unchanged, row-permutation invariance and split
additivity of the log-likelihood.
"""
from __future__ import annotations

import copy
import json
import math
import random

import numpy as np
import pandas as pd

from .. import gen, impl
from ..core import Ctx, first_diff, fracs, run_standard, unres, s, lst, tup, opt, boolean
from ..coqterms import coq_uni
from ..numcases import IMPORTS_UNI
from .c01 import _lik_cmp

IMPORTS = IMPORTS_UNI + " UniStatements Encoding"
NAN_STAGE = "<NaN>"
SIDES = ("ipsi", "contra")
STAGE_NAMES = ["early", "late", "other"]


# --------------------------------------------------------------------------------------------
# abstract cases
# --------------------------------------------------------------------------------------------
def key_str(m, sd, l):
    return f"{m}|{sd}|{l}"


def key_tuple(k):
    return tuple(k.split("|"))


def gen_mapping(rng):
    r = rng.random()
    if r < 0.5:
        return {"kind": "default"}
    kind = "dict" if r < 0.8 else "fun"
    keys = [k for k in range(0, 5) if rng.random() < (0.8 if kind == "dict" else 0.96)]
    al = [[k, rng.choice(STAGE_NAMES)] for k in keys]
    rng.shuffle(al)
    return {"kind": kind, "al": al}


def gen_variant(rng, case, plain=False):
    if plain:
        return {"seed": 0, "col_order": "canonical", "index": "default", "extra_cols": False, "extra_mod": "no",
                "extra_lnl": False, "unknown_cols": "keep", "unused_levels": False, "dtype": "object",
                "preloaded": False, "order": "mods-first", "tdtype": "object", "mapping_form": "plain",
                "drop_other_side": False}
    return {"seed": rng.randrange(1 << 30),
            "col_order": rng.choice(["canonical", "shuffled", "shuffled", "reversed"]),
            "index": rng.choice(["default", "shifted", "dup", "str", "shuffled", "default"]),
            "extra_cols": rng.random() < 0.4,
            "extra_mod": rng.choice(["no", "no", "both", "other-side-only"]),
            "extra_lnl": rng.random() < 0.25,
            "unknown_cols": rng.choice(["keep", "drop", "add", "keep"]),
            "unused_levels": rng.random() < 0.3,
            "dtype": rng.choice(["object", "bool", "float", "boolean", "mixed"]),
            "preloaded": rng.random() < 0.2,
            "order": rng.choice(["mods-first", "load-first"]),
            "tdtype": rng.choice(["int", "object", "float"]),
            "mapping_form": rng.choice(["plain", "alt", "alt2"]),
            "drop_other_side": rng.random() < 0.2}


def gen_case(rng, tier):
    base = rng.choice([2, 2, 3])
    maxl = 3 if base == 2 else 2
    g = gen.gen_graph(rng, max_lnls=maxl, base=base)
    lnls = gen.lnls_of(g)
    n = len(lnls)
    mt = rng.randint(0, 3)
    nm = min(rng.choice([0, 1, 1, 1, 2, 2]), 2 if n < 3 else 1)
    mods = gen.gen_modalities(rng, nm, nm)
    c = {"graph": g, "params": gen.gen_edge_params(rng, g), "mods": mods, "max_time": mt,
         "dists": gen.gen_dists(rng, mt, stages=STAGE_NAMES), "side": rng.choice(SIDES), "mapping": gen_mapping(rng)}
    table_mods = [m[0] for m in mods if rng.random() > 0.15]      # a model modality may be absent from the table
    if rng.random() < 0.3:
        table_mods.append("XX")                                    # a modality the model does not know
    cols = []
    for m in table_mods:
        for sd in SIDES:
            if rng.random() < 0.15:
                continue                                           # no column at all for this (modality, side)
            for l in lnls:
                if rng.random() < 0.85:                            # else: missing LNL column
                    cols.append(key_str(m, sd, l))
    c["cols"] = cols
    nrows = rng.choice([0, 1, 1, 2, 3, 4, 5, 6])
    bad_stage = rng.random() < 0.08
    rows = []
    for _ in range(nrows):
        t = rng.choice([0, 1, 2, 3, 4])
        if bad_stage and rng.random() < 0.4:
            t = rng.choice([5, -1, 7])
        rows.append({"t": t, "cells": {k: rng.choice([True, False, None]) for k in cols}})
    c["rows"] = rows
    names = STAGE_NAMES
    if c["mapping"]["kind"] != "default" and rng.random() < 0.4:
        # a FALSY T-stage key (R6-C08-m1, R3-unilateral-m1): the stage "other" is called "" in this case
        ren = lambda x: "" if x == "other" else x  # noqa: E731
        c["dists"] = {ren(k): v for k, v in c["dists"].items()}
        c["mapping"]["al"] = [[k, ren(v)] for k, v in c["mapping"]["al"]]
        names = [ren(x) for x in STAGE_NAMES]
    stages = sorted(set(c["dists"]) | {"nostage"} | ({v for _, v in c["mapping"].get("al", [])} & set(names)))
    c["query_ts"] = stages
    c["query_t"] = rng.choice(stages) if rng.random() < 0.3 else rng.choice(sorted(c["dists"]))
    c["rel_t"] = rng.choice(sorted(c["dists"]))
    nv = 4 if tier == "quick" else 8
    c["variants"] = [gen_variant(rng, c, plain=(i == 0)) for i in range(nv)]
    c["perm_seed"] = rng.randrange(1 << 30)
    c["split_at"] = rng.randint(0, nrows)
    return c


def abstract_mapping(mp):
    """Python function with the semantics of the abstract mapping: returns a stage name, NAN_STAGE, or raises."""
    if mp["kind"] == "default":
        from lymph.utils import early_late_mapping
        return early_late_mapping
    d = {k: v for k, v in mp["al"]}
    if mp["kind"] == "dict":
        return lambda t: d.get(int(t), NAN_STAGE)
    return lambda t: d[int(t)]


def nontrivial(case):
    if not case["rows"] or not case["mods"]:
        return False
    f = abstract_mapping(case["mapping"])
    try:
        for r in case["rows"]:
            f(r["t"])
    except Exception:  # noqa: BLE001
        return False
    names = {m[0] for m in case["mods"]}
    rec = unk = 0
    for r in case["rows"]:
        for k, v in r["cells"].items():
            m, sd, _ = key_tuple(k)
            if m in names and sd == case["side"]:
                if v is None:
                    unk += 1
                else:
                    rec += 1
    lnls = gen.lnls_of(case["graph"])
    present = {k for r in case["rows"] for k in r["cells"]}
    missing = any(key_str(m, case["side"], l) not in present for m in names for l in lnls)
    return rec >= 1 and (unk >= 1 or missing)


# --------------------------------------------------------------------------------------------
# concrete DataFrames
# --------------------------------------------------------------------------------------------
def _cell_values(vals, dtype, vr):
    """one involvement column in the requested dtype"""
    has_none = any(v is None for v in vals)
    if dtype == "mixed":
        dtype = vr.choice(["object", "bool", "float", "boolean"])
    if dtype == "bool" and not has_none and len(vals) > 0:
        return pd.array([bool(v) for v in vals], dtype=bool)
    if dtype == "float":
        return np.array([np.nan if v is None else float(v) for v in vals], dtype=float)
    if dtype == "boolean":
        return pd.array([pd.NA if v is None else bool(v) for v in vals], dtype="boolean")
    out = np.empty(len(vals), dtype=object)
    for i, v in enumerate(vals):
        out[i] = (vr.choice([None, np.nan]) if v is None else v)
    return out


def build_variant(case, var):
    """The concrete DataFrame of a variant (deterministic in (case, var))."""
    vr = random.Random(var["seed"])
    lnls = gen.lnls_of(case["graph"])
    side = case["side"]
    other = "contra" if side == "ipsi" else "ipsi"
    rows = case["rows"]
    n = len(rows)
    cols = {key_tuple(k): [r["cells"][k] for r in rows] for k in case["cols"]}
    if var["drop_other_side"]:
        cols = {k: v for k, v in cols.items() if k[1] != other}
    if var["unknown_cols"] == "drop":
        cols = {k: v for k, v in cols.items() if any(x is not None for x in v)}
    elif var["unknown_cols"] == "add":
        for m in [mm[0] for mm in case["mods"]] + ["XX"]:
            for l in lnls:
                if (m, side, l) not in cols and vr.random() < 0.5:
                    cols[(m, side, l)] = [None] * n
    if var["extra_mod"] == "both":
        for sd in SIDES:
            for l in lnls:
                cols[("YY", sd, l)] = [vr.choice([True, False, None]) for _ in range(n)]
    elif var["extra_mod"] == "other-side-only":
        for l in lnls:
            cols[("YY", other, l)] = [vr.choice([True, False, None]) for _ in range(n)]
    if var["extra_lnl"]:
        for m in sorted({k[0] for k in cols}):
            cols[(m, side, "VII")] = [vr.choice([True, False, None]) for _ in range(n)]
    junk = {}
    if var["unused_levels"]:
        for l in lnls + ["VIII"]:
            junk[("ZZ", side, l)] = [vr.choice([True, False]) for _ in range(n)]
        for m in sorted({k[0] for k in cols}):
            junk[(m, "mid", "IX")] = [True] * n
    names = list(cols) + list(junk)
    traw = [r["t"] for r in rows]
    if var["tdtype"] == "int":
        tcol = np.array(traw, dtype=np.int64)
    elif var["tdtype"] == "float":
        tcol = np.array(traw, dtype=float)
    else:
        tcol = np.empty(n, dtype=object)
        for i, t in enumerate(traw):
            tcol[i] = t
    data = {k: _cell_values(v, var["dtype"], vr) for k, v in {**cols, **junk}.items()}
    data[("tumor", "1", "t_stage")] = tcol
    names.append(("tumor", "1", "t_stage"))
    if var["extra_cols"]:
        data[("patient", "#", "age")] = np.array([vr.randint(20, 90) for _ in range(n)], dtype=np.int64)
        data[("patient", "#", "name")] = np.array([f"p{i}" for i in range(n)], dtype=object)
        data[("tumor", "1", "extension")] = _cell_values([vr.choice([True, False, None]) for _ in range(n)], "object", vr)
        names += [("patient", "#", "age"), ("patient", "#", "name"), ("tumor", "1", "extension")]
    if var["col_order"] == "shuffled":
        vr.shuffle(names)
    elif var["col_order"] == "reversed":
        names.reverse()
    if var["index"] == "shifted":
        index = pd.RangeIndex(10, 10 + n)
    elif var["index"] == "dup":
        index = pd.Index([i // 2 for i in range(n)])
    elif var["index"] == "str":
        index = pd.Index([f"r{(7 * i) % 11}" for i in range(n)], dtype=object)
    elif var["index"] == "shuffled":
        ix = list(range(n))
        vr.shuffle(ix)
        index = pd.Index(ix)
    else:
        index = pd.RangeIndex(n)
    df = pd.DataFrame({k: pd.Series(data[k], index=index) for k in names}, index=index,
                      columns=pd.MultiIndex.from_tuples(names))
    if junk:
        df = df.drop(columns=list(junk))             # leaves unused levels behind
    if var["preloaded"]:
        m0 = impl.models.Unilateral.binary({("tumor", "T"): [lnls[0], "X"], ("lnl", lnls[0]): ["X"], ("lnl", "X"): []})
        m0.set_modality("PP", 0.9, 0.8, "clinical")
        for m in sorted({k[0] for k in cols})[:1]:
            m0.set_modality(m, 0.7, 0.6, "clinical")
        m0.load_patient_data(df, side=vr.choice(SIDES), mapping=lambda t: "loadedbefore")
        df = m0.patient_data                          # carries the "_model" block of the other model
    return df


def concrete_mapping(case, var):
    mp = case["mapping"]
    form = var["mapping_form"]
    if mp["kind"] == "default":
        from lymph.utils import early_late_mapping
        if form == "alt":
            return early_late_mapping
        if form == "alt2":
            if all(0 <= r["t"] <= 4 for r in case["rows"]):
                return {0: "early", 1: "early", 2: "early", 3: "late", 4: "late"}
            return lambda t: early_late_mapping(t)
        return None
    d = {k: v for k, v in mp["al"]}
    if mp["kind"] == "dict":
        return dict(d)
    if form == "alt":
        return lambda t: d[t]
    return d.__getitem__


def _is_na(v):
    try:
        return v is None or v is pd.NA or bool(pd.isna(v))
    except Exception:  # noqa: BLE001
        return False


def abstract_cell(v):
    if _is_na(v):
        return None
    if isinstance(v, (bool, np.bool_)):
        return bool(v)
    if isinstance(v, (int, float, np.integer, np.floating)) and float(v) in (0.0, 1.0):
        return bool(v)
    raise ValueError(f"not an involvement value: {v!r}")


def abstract_table(df: pd.DataFrame):
    """The abstraction function: DataFrame -> abstract rows (raw T-stage, [(key, cell)] in column order).
    Top levels "patient" and "tumor" and the mapped T-stage of a previous load are not involvement cells."""
    keys = [c for c in df.columns if c[0] not in ("patient", "tumor") and c != ("_model", "#", "t_stage")]
    rows = []
    for i in range(len(df)):
        t = df[("tumor", "1", "t_stage")].iloc[i]
        rows.append({"t": int(t), "cells": [[list(k), abstract_cell(df[k].iloc[i])] for k in keys]})
    return rows


# --------------------------------------------------------------------------------------------
# implementation side
# --------------------------------------------------------------------------------------------
def _build_model(case, with_mods=True):
    c = dict(case)
    if not with_mods:
        c = {**case, "mods": []}
    return impl.build_uni(c)


def _set_mods(m, case):
    for name, spec, sens, kind in case["mods"]:
        m.set_modality(name, spec, sens, kind)


def _call(out, key, fn):
    try:
        out[key] = ("ok", fn())
    except Exception as e:  # noqa: BLE001
        out[key] = ("err", impl.err_enum(e), repr(e)[:200])


def _model_block(m, lnls):
    pdta = m.patient_data
    blk = pdta["_model"]
    mods = sorted(set(blk.columns.get_level_values(0)) - {"#"})
    pats = []
    for i in range(len(pdta)):
        t = blk[("#", "t_stage")].iloc[i]
        t = NAN_STAGE if _is_na(t) else str(t)
        find = {}
        for md in mods:
            find[md] = {l: abstract_cell(blk[(md, l)].iloc[i]) for l in lnls}
        pats.append([t, find])
    return pats


def _frame_unchanged(df, snap):
    cols, idx, dtypes, cp = snap
    if list(df.columns) != cols:
        return "columns changed"
    if list(df.index) != idx:
        return "index changed"
    if [str(d) for d in df.dtypes] != dtypes:
        return "dtypes changed"
    if not df.equals(cp):
        return "values changed"
    return None


def _snapshot(df):
    return (list(df.columns), list(df.index), [str(d) for d in df.dtypes], df.copy(deep=True))


def run_variant(case, var):
    lnls = gen.lnls_of(case["graph"])
    out = {}
    df = build_variant(case, var)
    snap = _snapshot(df)
    mapping = concrete_mapping(case, var)
    m = _build_model(case, with_mods=(var["order"] == "mods-first"))
    try:
        m.load_patient_data(df, side=case["side"], mapping=mapping)
        out["load"] = ("ok", None)
    except Exception as e:  # noqa: BLE001
        out["load"] = ("err", impl.err_enum(e), repr(e)[:200])
    out["unchanged"] = _frame_unchanged(df, snap)
    if out["load"][0] == "err":
        return out, df
    if var["order"] == "load-first":
        _set_mods(m, case)
    # short histories before the queries (results must not depend on them, C09): rotated modality order, flipped kinds
    try:
        q0 = lambda mm: (mm.data_matrix(None), mm.diagnosis_matrix(None))  # noqa: E731
        impl.run_primes(m, case, q0, [impl.prime_modality_order, impl.prime_with_flipped_kinds, impl.prime_renamed_modalities])
    except Exception:  # noqa: BLE001
        pass
    snap_ts = [None] + list(case["query_ts"])
    _call(out, "nrows", lambda: int(len(m.patient_data)))
    _call(out, "block", lambda: _model_block(m, lnls))
    for t in snap_ts:
        _call(out, f"data_matrix:{t}", lambda t=t: np.asarray(m.data_matrix(t)).astype(int).tolist())
        _call(out, f"diagnosis_matrix:{t}", lambda t=t: np.asarray(m.diagnosis_matrix(t)).tolist())
        _call(out, f"shape:{t}", lambda t=t: [list(np.asarray(m.data_matrix(t)).shape), list(np.asarray(m.diagnosis_matrix(t)).shape)])
    qt = case["query_t"]
    _call(out, "log", lambda: float(m.likelihood()))
    _call(out, "lin", lambda: float(m.likelihood(log=False)))
    _call(out, "log_t", lambda: float(m.likelihood(t_stage=qt)))
    _call(out, "lin_t", lambda: float(m.likelihood(t_stage=qt, log=False)))
    out["unchanged_after"] = _frame_unchanged(df, snap)
    return out, df


def _llh(case, df, mapping, **kw):
    m = _build_model(case)
    m.load_patient_data(df, side=case["side"], mapping=mapping)
    return float(m.likelihood(**kw))


def _same_llh(a, b):
    if math.isnan(a) or math.isnan(b):
        return False
    if math.isinf(a) or math.isinf(b):
        return a == b
    return abs(a - b) <= 1e-9 * max(1.0, abs(a), abs(b))


def relations(case):
    """row permutation invariance and split additivity of the log-likelihood, on the implementation alone"""
    out = {}
    var = case["variants"][0]
    try:
        df = build_variant(case, var)
    except Exception as e:  # noqa: BLE001  (reported by compare_variant)
        return {"skipped": impl.err_enum(e)}
    mapping = concrete_mapping(case, var)
    n = len(df)
    try:
        full = {"all": _llh(case, df, mapping), "t": _llh(case, df, mapping, t_stage=case["rel_t"])}
    except Exception as e:  # noqa: BLE001
        return {"skipped": impl.err_enum(e)}
    perm = list(range(n))
    random.Random(case["perm_seed"]).shuffle(perm)
    k = min(case["split_at"], n)
    try:
        dfp = df.iloc[perm]
        out["perm"] = {"perm": perm, "all": [full["all"], _llh(case, dfp, mapping)],
                       "t": [full["t"], _llh(case, dfp, mapping, t_stage=case["rel_t"])]}
        d1, d2 = df.iloc[:k], df.iloc[k:]
        out["split"] = {"at": k,
                        "all": [full["all"], _llh(case, d1, mapping) + _llh(case, d2, mapping)],
                        "t": [full["t"], _llh(case, d1, mapping, t_stage=case["rel_t"])
                              + _llh(case, d2, mapping, t_stage=case["rel_t"])]}
    except Exception as e:  # noqa: BLE001
        out["error"] = f"{impl.err_enum(e)}: {e!r}"[:300]
    return out


def impl_fn(case):
    res = {"variants": [], "relations": relations(case)}
    for var in case["variants"]:
        try:
            o, _ = run_variant(case, var)
        except Exception as e:  # noqa: BLE001
            o = {"harness": f"{type(e).__name__}: {e!r}"[:300]}
        res["variants"].append(o)
    return res


# --------------------------------------------------------------------------------------------
# Coq side
# --------------------------------------------------------------------------------------------
def z(n):
    return f"({int(n)})%Z"


def coq_mapping(mp):
    if mp["kind"] == "default":
        return "early_late"
    al = lst(tup(z(k), s(v)) for k, v in mp["al"])
    return f"({'dict_mapping' if mp['kind'] == 'dict' else 'fun_mapping'} {al})"


def coq_rows(rows):
    """rows: [{'t': raw, 'cells': [[key, value], ...]}]"""
    items = []
    for r in rows:
        cells = lst(tup(tup(s(k[0]), s(k[1]), s(k[2])), opt(v, boolean)) for k, v in r["cells"])
        items.append(f"{{| r_tstage_raw := {z(r['t'])}; r_cells := {cells} |}}")
    return lst(items)


def canonical_rows(case):
    return [{"t": r["t"], "cells": [[list(key_tuple(k)), r["cells"][k]] for k in case["cols"]]} for r in case["rows"]]


def coq_expr(case):
    u = coq_uni(case)
    ts = lst(["None"] + [f"(Some {s(t)})" for t in case["query_ts"]])
    qt = s(case["query_t"])
    heavy = (
        "match load_patient_data lnls side mp rows with None => None | Some data => Some ("
        "length data, "
        f"map (fun t => match data_matrix u data t with inr D => inr (bvecs_out D) | inl e => inl e end) {ts}, "
        f"map (fun t => match diagnosis_matrix u data t with inr M => inr (qoutm M) | inl e => inl e end) {ts}, "
        "(match hmm_likelihood_factors u data None with inr v => inr (qouts v) | inl e => inl e end, "
        f"match hmm_likelihood_factors u data (Some {qt}) with inr v => inr (qouts v) | inl e => inl e end)) end")
    lights = []
    for var in case["variants"]:
        try:
            df = build_variant(case, var)
            lights.append(f"option_map patients_out (load_patient_data lnls side mp {coq_rows(abstract_table(df))})")
        except Exception:  # noqa: BLE001  (reported by impl_fn / compare as a failure to build the variant)
            lights.append("@None (list (string * list (string * list (string * option bool))))")
    return (f"let u := {u} in let lnls := u_lnls u in let side := {s(case['side'])} in "
            f"let mp := {coq_mapping(case['mapping'])} in let rows := {coq_rows(canonical_rows(case))} in "
            f"({heavy}, {lst(lights)})")


# --------------------------------------------------------------------------------------------
# comparison
# --------------------------------------------------------------------------------------------
def _expected_load_error(case):
    return "ValueError" if case["mapping"]["kind"] == "default" else "KeyError"


def _norm_patients(v):
    """Coq patients_out -> [[stage, {mod: {lnl: cell}}]]"""
    out = []
    for t, find in v:
        d = {}
        for mname, pat in find:
            d[mname] = {l: (c[1] if isinstance(c, tuple) and c and c[0] == "Some" else c) for l, c in pat}
        out.append([t, d])
    return out


def compare_variant(case, i, o, heavy, light):
    var = case["variants"][i]
    where = {"variant": i, "variant_spec": var}
    if "harness" in o:
        return {"observable": "load_patient_data / patient_data (while building the DataFrame variant"
                              + (", i.e. loading it into a helper model first" if var["preloaded"] else "") + ")",
                "actual": o["harness"], "expected": "a DataFrame", **where}
    if o.get("unchanged"):
        return {"observable": "caller's DataFrame after load_patient_data", "actual": o["unchanged"], "expected": "unchanged",
                "statement": "the caller's table is not modified", **where}
    if heavy is None:
        exp = _expected_load_error(case)
        if o["load"][0] == "err" and o["load"][1] == exp:
            if light is not None:
                return {"observable": "Encoding.load_patient_data on the variant's own abstraction", "actual": "succeeds",
                        "expected": "fails like the canonical table", **where}
            return None
        return {"observable": "load_patient_data", "actual": o["load"], "expected": f"raises {exp} (the mapping raises on a row)",
                "statement": "C08_tstage_mapping_pointwise: the load fails iff the mapping raises on some row", **where}
    if o["load"][0] == "err":
        return {"observable": "load_patient_data", "actual": f"raised {o['load'][1]}: {o['load'][2]}", "expected": "loads", **where}
    hv = heavy[1]
    nrows, dms, dgs, (f_all, f_t) = hv
    ts = [None] + list(case["query_ts"])
    if o["nrows"] != ("ok", nrows):
        return {"observable": "len(patient_data)", "actual": o["nrows"], "expected": nrows,
                "statement": "one row per patient (C08_tstage_mapping_pointwise)", **where}
    # the _model block vs the model evaluated on this DataFrame's own abstraction
    if light is None:
        return {"observable": "Encoding.load_patient_data on the variant's own abstraction", "actual": "fails",
                "expected": "succeeds like the canonical table", **where}
    exp_pats = _norm_patients(light[1])
    if o["block"][0] != "ok":
        return {"observable": "patient_data['_model']", "actual": o["block"], "expected": "the loaded cells", **where}
    got = o["block"][1]
    if len(got) != len(exp_pats):
        return {"observable": "patient_data['_model'] rows", "actual": len(got), "expected": len(exp_pats), **where}
    for r, (g, e) in enumerate(zip(got, exp_pats)):
        if g[0] != e[0]:
            return {"observable": "patient_data['_model', '#', 't_stage']", "row": r, "actual": g[0], "expected": e[0],
                    "statement": "the i-th patient's stage is the mapping of the i-th raw stage (C08_tstage_mapping_pointwise)",
                    **where}
        if g[1] != e[1]:
            return {"observable": "patient_data['_model', modality, lnl]", "row": r, "actual": g[1], "expected": e[1],
                    "statement": "a loaded patient holds, per table modality with a column for the side, the cell of every "
                                 "graph LNL (C08_loaded_findings)", **where}
    for t, dmv, dgv in zip(ts, dms, dgs):
        for name, key, val, stmt in (
                (f"data_matrix({t!r})", f"data_matrix:{t}", dmv,
                 "row i marks exactly the observations compatible with what row i records (C08_encoding_row_spec)"),
                (f"diagnosis_matrix({t!r})", f"diagnosis_matrix:{t}", dgv,
                 "row = P(recorded cells | state), unknown cells are factor 1 (C08_row_likelihood_spec)")):
            kind, payload = unres(val)
            ob = o[key]
            if ob[0] == "err" or kind == "err":
                if not (ob[0] == "err" and kind == "err" and ob[1] == payload):
                    return {"observable": name, "actual": ob, "expected": payload if kind == "err" else "a matrix", **where}
                continue
            if len(ob[1]) != len(payload):
                return {"observable": name + " number of rows", "actual": len(ob[1]), "expected": len(payload),
                        "statement": "data_matrix(t) keeps exactly the rows mapped to t (C08_t_stage_rows_select)", **where}
            if len(payload) == 0:
                continue
            d = first_diff(ob[1], fracs(payload) if key.startswith("diag") else payload)
            if d:
                return {"observable": name, **d, "statement": stmt, **where}
    stmt = "likelihood = product over rows of sum_t P(t) sum_x P(x|t) prod recorded cells (C08_factors_of_table, C08_row_likelihood_spec)"
    for name, key, fr, lg in (("likelihood(log=True)", "log", f_all, True), ("likelihood(log=False)", "lin", f_all, False),
                              (f"likelihood(t_stage={case['query_t']!r})", "log_t", f_t, True),
                              (f"likelihood(t_stage={case['query_t']!r}, log=False)", "lin_t", f_t, False)):
        mm = _lik_cmp(name, o[key], fr, lg)
        if mm:
            mm["statement"] = stmt
            mm.update(where)
            return mm
    if o.get("unchanged_after"):
        return {"observable": "caller's DataFrame after the queries", "actual": o["unchanged_after"], "expected": "unchanged",
                "statement": "the caller's table is not modified", **where}
    return None


def compare(case, obs, val):
    if obs[0] == "err":
        return {"observable": "load_patient_data / queries", "actual": f"raised {obs[1]}: {obs[2]}", "expected": "values"}
    heavy, lights = val
    o = obs[1]
    for i, ov in enumerate(o["variants"]):
        mm = compare_variant(case, i, ov, heavy, lights[i])
        if mm:
            return mm
    rel = o["relations"]
    if "error" in rel and heavy is not None:
        return {"observable": "likelihood of a permuted / split table", "actual": rel["error"], "expected": "a number"}
    for kind, stmt in (("perm", "C08_likelihood_perm_invariant: the log-likelihood does not depend on the row order"),
                       ("split", "C08_likelihood_split_additive: log-likelihood(d1 ++ d2) = log-likelihood(d1) + log-likelihood(d2)")):
        if kind in rel:
            for which in ("all", "t"):
                a, b = rel[kind][which]
                if not _same_llh(a, b):
                    return {"observable": f"relation {kind} ({'all stages' if which == 'all' else 't_stage=' + case['rel_t']})",
                            "actual": b, "expected": a, "detail": {k: v for k, v in rel[kind].items() if k in ("perm", "at")},
                            "statement": stmt, "variant": 0, "variant_spec": case["variants"][0]}
    return None


# --------------------------------------------------------------------------------------------
# shrinking
# --------------------------------------------------------------------------------------------
def candidates(case):
    out = []
    if len(case["variants"]) > 1:
        for v in case["variants"]:
            c = copy.deepcopy(case)
            c["variants"] = [v]
            out.append(c)
    plain = gen_variant(None, case, plain=True)
    v0 = case["variants"][0]
    nondefault = [f for f in plain if f != "seed" and v0[f] != plain[f]]
    if len(case["variants"]) == 1:
        if len(nondefault) > 1:
            for f in nondefault:                      # keep only one non-default field
                c = copy.deepcopy(case)
                c["variants"][0] = {**plain, "seed": v0["seed"], f: v0[f]}
                out.append(c)
        for f in nondefault:
            c = copy.deepcopy(case)
            c["variants"][0][f] = plain[f]
            out.append(c)
    nr = len(case["rows"])
    if nr > 1:
        for keep in (case["rows"][:nr // 2], case["rows"][nr // 2:]):
            c = copy.deepcopy(case)
            c["rows"] = copy.deepcopy(keep)
            c["split_at"] = min(c["split_at"], len(c["rows"]))
            out.append(c)
    if nr > 0:
        for k in range(nr):
            c = copy.deepcopy(case)
            del c["rows"][k]
            c["split_at"] = min(c["split_at"], len(c["rows"]))
            out.append(c)
    if len(case["mods"]) > 0:
        for k in range(len(case["mods"])):
            c = copy.deepcopy(case)
            name = c["mods"][k][0]
            del c["mods"][k]
            c["cols"] = [x for x in c["cols"] if key_tuple(x)[0] != name]
            for r in c["rows"]:
                r["cells"] = {x: v for x, v in r["cells"].items() if key_tuple(x)[0] != name}
            out.append(c)
    for col in case["cols"]:
        c = copy.deepcopy(case)
        c["cols"].remove(col)
        for r in c["rows"]:
            r["cells"].pop(col, None)
        out.append(c)
    g = case["graph"]
    names = gen.lnls_of(g)
    if len(names) > 1:
        for l in names:
            g2 = {"base": g["base"], "entries": [[k, n, [x for x in cs if x != l]] for k, n, cs in g["entries"] if n != l]}
            if any(cs for k, n, cs in g2["entries"] if k == "tumor"):
                c = copy.deepcopy(case)
                c["graph"] = g2
                c["params"] = {n: case["params"].get(n, 0.5) for n in gen.edge_param_names(g2)}
                c["cols"] = [x for x in c["cols"] if key_tuple(x)[2] != l]
                for r in c["rows"]:
                    r["cells"] = {x: v for x, v in r["cells"].items() if key_tuple(x)[2] != l}
                out.append(c)
    if case["mapping"]["kind"] != "default" and all(0 <= r["t"] <= 4 for r in case["rows"]):
        c = copy.deepcopy(case)
        c["mapping"] = {"kind": "default"}
        out.append(c)
    return out


def signature(case, mm):
    sig = {"class": "Unilateral", "call": str(mm.get("observable")).split("(")[0].split("[")[0].strip()}
    return sig


def call_text(case, mm):
    v = mm.get("variant_spec")
    return ("m = Unilateral from case (graph, params, mods, dists); df = harness.props.c08.build_variant(case, case['variants'][i]); "
            f"m.load_patient_data(df, side={case['side']!r}, mapping=concrete_mapping(case, variant)); {mm.get('observable')}"
            + (f"  [variant {mm.get('variant')}: {json.dumps(v)}]" if v else ""))


# --------------------------------------------------------------------------------------------
def run(ctx: Ctx, a_ok: bool):
    ctx.cone = ["Encoding.load_patient_data", "Encoding.early_late / dict_mapping / fun_mapping", "Unilateral.patient_encoding",
                "Unilateral.data_matrix", "Unilateral.diagnosis_matrix", "Unilateral.hmm_likelihood_factors",
                "Observation.compute_encoding", "Observation.generate_observation", "Transition.generate_transition",
                "Unilateral.state_dist_evo", "Dist.pmf"]
    ctx.rule = ("abstract tables (0-6 rows, graphs with 1-3 LNLs, 0-2 model modalities, cells True/False/unknown for both sides, "
                "a modality unknown to the model, a model modality without columns, missing LNL columns, raw T-stages 0-4 and "
                "a quota of invalid ones, mapping default / dict / callable, side ipsi / contra) x concrete DataFrame variants "
                "(column order, index kind, extra columns / modalities / LNLs, unknown columns kept / dropped / added, unused "
                "MultiIndex levels, dtypes object / bool / float-NaN / nullable boolean / mixed, a frame preloaded into another "
                "model, set_modality before / after the load, T-stage column dtype, mapping form); non-trivial iff the table has "
                ">= 1 row, the model >= 1 modality, the load succeeds, >= 1 recorded and >= 1 unknown (or missing) cell for the "
                "chosen side among the model's modalities")
    ctx.notes.append("C08 is partial for pandas: index handling, column lookup and dtype coercions are validated only on the "
                     "generated DataFrame variants; the abstraction function DataFrame -> abstract table is part of the harness")
    n = 60 if ctx.tier == "quick" else 400
    cases = [gen_case(ctx.rng, ctx.tier) for _ in range(n)]
    for c in cases:
        ctx.count({k: v for k, v in c.items() if k != "variants"}, nontrivial(c),
                  f"base{c['graph']['base']}-rows{len(c['rows'])}-mods{len(c['mods'])}-{c['mapping']['kind']}-{c['side']}")
        for v in c["variants"]:
            ctx.bump(f"variant-dtype-{v['dtype']}")
            ctx.bump(f"variant-index-{v['index']}")
            if v["preloaded"]:
                ctx.bump("variant-preloaded")
            if v["unused_levels"]:
                ctx.bump("variant-unused-levels")
    ctx.extra["concrete_dataframes"] = sum(len(c["variants"]) for c in cases)
    run_standard(ctx, cases, impl_fn, coq_expr, compare, IMPORTS, candidates, sig_fn=signature, call_fn=call_text,
                 broken="correspondence Encoding.load_patient_data / Unilateral.data_matrix / diagnosis_matrix / "
                        "hmm_likelihood_factors vs /repo on DataFrame variants of one abstract table", shard=8)


def replay(ctx: Ctx, path: str) -> int:
    data = json.loads(open(path).read())
    from ..core import correspondence
    bad = correspondence(ctx, [data["case"]], impl_fn, coq_expr, compare, IMPORTS, tag="replay")
    if bad:
        print("REPRODUCED", json.dumps(bad[0][1], default=str))
        return 1
    print("not reproduced")
    return 0
